"""C11 -- a relay reports success only for recipients the next hop accepted; failures have the
right class; the attempt always ends with a result or a relay error.

Four case kinds, all run against the REAL relay classes of the working tree:

 smtp  StaticSmtpRelay / StaticLmtpRelay (socket_creator = vf.downstream.Downstream.creator) against a
       scripted next hop: one deviating stage (connect, banner, EHLO, HELO after EHLO-500, STARTTLS, the EHLO
       after STARTTLS, AUTH, MAIL, RCPT_i, DATA, end-of-data_i, RSET after a failure, QUIT, unsolicited reply
       while the connection idles) x outcome (2xx, 421/450/451, 500/550/554, malformed replies, wrong-class
       1xx/3xx, close, stall) x PIPELINING x 1..3 recipients x SMTP/LMTP x connection reuse; seeded double
       faults.
 pipe  PipeRelay (per-recipient and single mode), MaildropRelay, DovecotLdaRelay running a generated /bin/sh
       stub whose exit status / stdout / stderr / sleep are looked up from its argv.
 http  HttpRelay against a scripted HTTP server on a loopback port (status x X-Smtp-Reply header x
       connection-level faults x connection reuse).
 mx    MxSmtpRelay with a stub resolver installed through the documented DNSResolver.channel hook; every
       destination host is a Downstream; the host chosen is observed at socket_creator's address argument.

Independent observer L of "positively accepted": Downstream.accepted() (RCPT 2xx AND end-of-data 2xx, per
recipient for LMTP) / the stub's own log file (ran for that recipient and exited 0) / the HTTP server's log
(answered that request 2xx).

Oracle on (outcome o of Relay.attempt, L):
 ENDS      the attempt greenlet finishes before a hub-ordered watchdog of 12 x (largest configured timeout).
 TYPE      o is a returned result or a raised Permanent/TransientRelayError; never another exception type,
           never a RelayError object returned at top level, never a mapping value that is not
           None / Reply / Permanent/TransientRelayError, never a mapping that omits a recipient.
 SAFETY    every recipient reported delivered (None / Reply) is in L.                       (all scripts)
 CLASS     on single-fault scripts: 5xx => permanent; 4xx, disconnect, timeout, garbage, resolver error =>
           transient; unroutable => permanent; per recipient for RCPT_i / LMTP end-of-data_i replies.
 COMPLETE  on single-fault scripts whose fault concerns another recipient only, or only QUIT / RSET / a
           refused optional STARTTLS / the idle connection: a recipient in L is reported delivered.
 USABLE    every relay error (raised or per recipient) carries a .reply that is a Reply with a 3-digit str code and
           a str message, and what the Queue / Bounce do with it does not raise: bytes(reply), str(reply),
           reply.message + str, reply == copy, Bounce(envelope, reply).flatten(); a Reply returned as success
           likewise (without the bounce).  Mechanism unusable-result/<relay>/<what raises>.   (all scripts)
Every violation seen in a concurrent batch is re-executed alone; only what the isolated run shows is reported
(the batch is a screen), so verdicts never depend on how busy the hub was.

Strata added by the coverage audit (gen_smtp_audit and the 'audit' blocks of the pipe / http / mx generators; every
one has a 'stratum/...' hit in REQUIRED_HITS and a mutant /verif/mutants/C11-audit-m*.patch):
 smtp  positive replies other than one-line 250 (251, 299, multi-line, arriving in segments => accepted all the
       same); well-formed multi-line and segmented 4xx/5xx; first line of a multi-line reply then silence; abortive
       close (real TCP RST, vf.c11_downstream); TLS handshake failing after STARTTLS 220 (stall, plaintext garbage,
       fatal alert, untrusted certificate); immediate TLS (tls_immediately=True) with the same handshake failures;
       stage faults inside an established TLS session incl. a corrupted TLS record; a next hop that answers DATA 354
       although it refused the sender / every recipient (the relay owes it an empty message); a next hop without
       8BITMIME and an 8-bit message (with / without binary_encoder); designed two-fault scripts in which every
       recipient has exactly one deviating reply (RCPT_k + LMTP end-of-data_j, two RCPT of different class, every
       RCPT refused with differing classes) -- CLASS is judged per recipient there; a RCPT accepted with 251 / 252 /
       299 / multi-line / segmented 2xx combined with every end-of-data outcome (2xx, 4xx, 5xx, close) for that and
       the other recipients, 1-3 recipients, PIPELINING on/off, plus a clean second message on the reused
       connection (reply-stream alignment).
 pipe  the rest of the exit-status range (sysexits, 126, 255); a program that exits without reading a message
       larger than a pipe buffer.
 http  other 2xx, 3xx (never followed, never a delivery), other 4xx/5xx; interim 100 Continue; https next hop
       (statuses inside TLS, handshake eof / stall / garbage / untrusted certificate / plain-HTTP port); TCP RST
       before / in the middle of the response head.
 mx    fallback over five attempts with the hosts failing in different ways and the rotation wrapping around;
       force_mx (host, port, case-insensitive domain, resolver never consulted); the resolver's answer changing
       between attempts (nothing remembered from a failed lookup, nothing beyond the TTL from a successful one);
       every error code the resolver library defines.
"""
import os
import re
import errno
import base64
import random
import collections
import collections.abc

import gevent
from gevent import socket
from gevent.server import StreamServer

import pycares
import pycares.errno

from vf.downstream import Downstream
from vf.c11_downstream import Downstream11
from vf import tls as vtls

from slimta.relay import RelayError, PermanentRelayError, TransientRelayError
from slimta.relay.smtp.static import StaticSmtpRelay, StaticLmtpRelay
from slimta.relay.smtp.mx import MxSmtpRelay
from slimta.relay.pipe import PipeRelay, MaildropRelay, DovecotLdaRelay
from slimta.relay.http import HttpRelay
from slimta.util.dns import DNSResolver
from slimta.smtp.reply import Reply
from slimta.envelope import Envelope
from slimta.bounce import Bounce

PROPERTY = 'C11'
LEVEL = 'fault_enumeration'
LEVEL_TEXT = ('Single-fault enumeration at the downstream boundary of the real relays: SMTP/LMTP static relay '
              '(stage x outcome x PIPELINING x 1-3 recipients x connection reuse, plus seeded double faults), '
              'pipe relays (4 classes x exit status x stdout/stderr shape x timeout), HTTP relay (status x '
              'X-Smtp-Reply x connection faults x reuse), MX relay (stub resolver scripts x attempt number x '
              'downstream fault). Both tiers enumerate the whole designed single-fault table (~3 600 cases); quick '
              'adds 1 500 seeded double/triple faults, thorough 60 000 and the reuse table over every outcome. The audit '
              'strata add: reply shapes (other 2xx codes, multi-line, segmented), TCP reset, TLS handshake failures, '
              'immediate TLS, faults inside TLS, DATA 354 after a refusal, 8-bit message for a 7-bit next hop, '
              'designed per-recipient two-fault scripts, more pipe exit statuses and an unread stdin, HTTP 3xx / 100 / '
              'https / reset, MX fallback sequences / force_mx / changing resolver answers / all resolver error codes. '
              'Held = the oracle was silent on the scripts enumerated; other downstream behaviours (replies slower '
              'than but within the timeout, very long replies, AUTH challenge-stage faults, equal MX preferences, a '
              'resolver that never answers, a real pycares channel) are not covered.')
LEVEL_NOTE = ('Trusted: vf.downstream.Downstream (own parser and acceptance log), the /bin/sh stub and its log file, '
              'the ~60-line scripted HTTP server, StubChannel (~25 lines), the expectation table computed by the '
              'generator from the script alone (function expect_smtp and friends), result normalisation (~40 lines).')
TECHNIQUE = ('runtime monitoring: fault enumeration against scripted next hops with an independent acceptance log; '
             'hub-ordered watchdog for termination; batch screen + isolated confirmation')
RULE = ('case = one relay attempt (two on one relay object for reuse cases, up to 6 for MX rotation) against one '
        'downstream script. smtp: designed single-fault table (stage x outcome x pipelining x nrcpt x SMTP/LMTP), '
        'RSET faults combined with a failing stage, HELO faults combined with EHLO-500, reuse table (fault in the '
        'first message, clean second message, immediate or after the client went idle), idle-connection pushes, '
        'seeded double faults (SAFETY/TYPE/ENDS only); pipe / http / mx: full designed tables. '
        'non-trivial = the script deviates from the all-2xx path; distinct by (kind, stage, outcome, pipelining, '
        'nrcpt, lmtp/class, reuse)')
ASSUMPTIONS = ['the Downstream / stub / HTTP-server logs are the truth about what the next hop accepted',
               'a relay timeout of 0.1 s (stall cases) / 0.3-1.0 s (others) and a watchdog of 8x + 4x that are timers '
               'of one gevent hub: the relay\'s own timeouts fire first; the longest legitimate chain of '
               'consecutive relay timeouts in a script is 5',
               'CLASS and COMPLETE are demanded only where the script has one deviating stage; HTTP without a '
               'parsable X-Smtp-Reply, pipe exits without a 5.x.x/4.x.x text (PipeRelay) or other than EX_TEMPFAIL '
               '(maildrop/dovecot) are only required to be failures of a proper type',
               'the stub resolver always answers (a resolver that never answers is pycares\' own timeout, reported '
               'to slimta as ARES_ETIMEOUT, which is scripted)',
               'equal MX priorities are not scripted (their order is unspecified)',
               'TLS handshake refused by garbage / alert / untrusted certificate, an 8-bit message that cannot be '
               'converted, HTTPS handshake failures other than a stall: only a failure of a proper type is demanded '
               '(the statement names no class for them); a handshake that stalls or ends in EOF is a timeout / '
               'disconnect => transient',
               'designed two-fault scripts judge CLASS per recipient only where every recipient has exactly one '
               'deviating reply',
               'a resolver answer with TTL 0 is not reused by the next attempt; within a TTL nothing is demanded']
REQUIRED_HITS = ['smtp-attempt-judged', 'lmtp-attempt-judged', 'pipe-attempt-judged', 'http-attempt-judged',
                 'mx-attempt-judged', 'delivered-vs-accepted-compared', 'class-judged', 'complete-judged',
                 'watchdog-armed', 'mx-host-choice-checked', 'reuse-second-message-judged',
                 'tls-negotiated-downstream', 'usable-result-checked', 'stratum/http-reply-header-shape',
                 'stratum/reply-text-variant', 'stratum/pipe-output-text-variant',
                 # audit strata (each decides CLASS / SAFETY / TYPE for a behaviour the first table lacked)
                 'stratum/tcp-reset-by-next-hop', 'stratum/positive-reply-variant', 'stratum/multi-line-reply',
                 'stratum/segmented-reply', 'stratum/tls-handshake-failure', 'stratum/tls-immediately',
                 'stratum/fault-inside-tls-session', 'stratum/empty-message-owed-after-refusal',
                 'stratum/8bit-message-for-7bit-next-hop', 'stratum/two-recipient-faults-attribution',
                 'stratum/non-250-acceptance-x-end-of-data-outcome',
                 'stratum/non-250-acceptance-then-second-message-on-the-connection',
                 'stratum/mx-fallback-sequence', 'stratum/mx-forced-destination',
                 'stratum/mx-resolver-answer-changes', 'stratum/mx-several-domains-through-one-relay', 'stratum/https-session', 'stratum/https-handshake-failure',
                 'stratum/http-3xx-status', 'stratum/http-interim-100', 'stratum/pipe-stdin-not-read']
SHARDS = {'quick': 12, 'thorough': 16}
BUDGET = {'quick': 60, 'thorough': 800}
EXHAUSTIVE = {'quick': False, 'thorough': False}

T_STALL = 0.1       # relay timeouts in cases where the script makes the relay wait
T_FAST = 0.3        # relay timeouts elsewhere (nothing in the script makes the relay wait), batch screen
T_ALONE = 1.0       # ... the same in the isolated (authoritative / replay) execution
T_PIPE_MIX = 1.0    # PipeRelay timeout where several programs run in sequence and a later one sleeps (5 s)
K = 8               # watchdog = K x timeout, plus a grace period of K/2 x timeout (see run_attempt)
BATCH = {'smtp': 40, 'mx': 20, 'http': 10, 'pipe': 8}
NMULTI = {'quick': 1500, 'thorough': 60000}     # seeded double / triple fault scripts
CONFIRM_EACH = 4    # isolated confirmations per mechanism and shard before batch sightings are taken as seen

# ------------------------------------------------------------------------------------------------
# process-wide helpers
# ------------------------------------------------------------------------------------------------
_G = {'uid': 0, 'crashes': collections.Counter(), 'owners': {}}


def _uid():
    _G['uid'] += 1
    return _G['uid']


def _hub_hook(context, type_, value, tb):
    # relay client greenlets that die with an unexpected exception: counted, part of the evidence
    name = getattr(type_, '__name__', str(type_))
    _G['crashes'][name] += 1
    owner = _G['owners'].get(id(getattr(context, 'queue', None)))
    if owner is not None:
        owner.append(name)


def _own(relay):
    """Attribute deaths of this relay's pool-client greenlets (they share relay.queue) to one case."""
    lst = _G['owners'][id(relay.queue)] = []
    return lst


def _disown(relay):
    _G['owners'].pop(id(relay.queue), None)


gevent.get_hub().print_exception = _hub_hook


def _scratch():
    if 'scratch' not in _G:
        import tempfile
        base = os.environ.get('VERIF_SCRATCH')
        _G['scratch'] = tempfile.mkdtemp(prefix='c11-', dir=base if base and os.path.isdir(base) else None)
    return _G['scratch']


def _ctx(which):
    key = 'ctx-' + which
    if key not in _G:
        if which == 'client-strict':
            # a client that verifies the certificate chain and trusts no CA: the scripted next hop's
            # self-signed certificate is refused during the handshake
            from gevent import ssl as gssl
            c = gssl.SSLContext(gssl.PROTOCOL_TLS_CLIENT)
            c.check_hostname = False
            c.verify_mode = gssl.CERT_REQUIRED
            _G[key] = c
        else:
            _G[key] = vtls.server_context() if which == 'server' else vtls.client_context()
    return _G[key]


def shard_cleanup():
    import shutil
    srv = _G.pop('http-server', None)
    if srv is not None:
        srv.stop()
    for t in _G.pop('https-servers', {}).values():
        t.stop()
    d = _G.pop('scratch', None)
    if d:
        shutil.rmtree(d, ignore_errors=True)
    vtls.cleanup()


# ------------------------------------------------------------------------------------------------
# result normalisation (TYPE clause material)
# ------------------------------------------------------------------------------------------------
def _norm_value(v):
    if v is None:
        return {'v': 'D', 'type': 'None'}
    if isinstance(v, Reply):
        return {'v': 'D', 'type': 'Reply', 'repr': str(v)[:160]}
    if isinstance(v, RelayError):
        p, t = isinstance(v, PermanentRelayError), isinstance(v, TransientRelayError)
        d = {'type': type(v).__name__, 'repr': str(v)[:200], 'reply': str(getattr(v, 'reply', None))[:200]}
        d['v'] = 'P' if p and not t else 'T' if t and not p else 'bad-relayerror'
        return d
    if isinstance(v, BaseException):
        return {'v': 'bad-exception', 'type': type(v).__name__, 'repr': repr(v)[:200]}
    return {'v': 'bad-value', 'type': type(v).__name__, 'repr': repr(v)[:200]}


def _unusable(v, env):
    """USABLE clause: what the Queue and Bounce do with a relay result must not raise.  v is a RelayError (its
    .reply is used for the retry note / the bounce) or a Reply returned as success.  -> None | short description."""
    if isinstance(v, RelayError):
        if not hasattr(v, 'reply'):
            return 'error-without-reply-attribute'
        reply = v.reply
    else:
        reply = v
    if not isinstance(reply, Reply):
        return 'reply-is-a-%s' % type(reply).__name__
    if not (isinstance(reply.code, str) and re.match(r'^\d\d\d$', reply.code)):
        return 'reply.code-is-%s' % (type(reply.code).__name__ if not isinstance(reply.code, str) else 'not-3-digits')
    if not isinstance(reply.message, str):
        return 'reply.message-is-%s' % type(reply.message).__name__
    if isinstance(v, RelayError) and reply.code[0] == '2':
        # the reply of a failure is what an edge in front of a ProxyQueue hands to its client: a failure that
        # carries a POSITIVE reply is "a failure object returned as though it were a success" one step later
        # (1xx / 3xx replies of the next hop are passed on truthfully and are not demanded to be rewritten)
        return 'error-carries-2xx-reply'
    uses = [('bytes(reply)', lambda: bytes(reply)), ('str(reply)', lambda: str(reply)),
            ('reply.message+str', lambda: reply.message + ' (Too many retries)'),
            ('reply==copy', lambda: reply == Reply().copy(reply))]
    if isinstance(v, RelayError):
        uses.append(('Bounce(envelope,reply)', lambda: Bounce(env, reply).flatten()))
    for name, fn in uses:
        try:
            fn()
        except Exception as e:
            return '%s->%s' % (name, type(e).__name__)
    return None


def _usability(values, env):
    out = []
    for who, v in values:
        if isinstance(v, (RelayError, Reply)):
            try:
                u = _unusable(v, env)
            except Exception as e:          # the probe itself must never decide anything
                u = None
            if u:
                out.append({'who': who, 'what': u, 'value': repr(v)[:160],
                            'reply': repr(getattr(v, 'reply', v))[:160]})
    return out


def run_attempt(relay, env, attempts, timeout):
    """One Relay.attempt under the hub-ordered watchdog; returns the normalised outcome."""
    out = {}

    def go():
        try:
            out['ret'] = relay.attempt(env, attempts)
        except BaseException as e:          # noqa -- incl. GreenletExit when the watchdog kills us
            out['exc'] = e
    g = gevent.spawn(go)
    g.join(timeout=K * timeout)
    if not g.dead:
        # If this process was not scheduled for a while, the relay's own timer and the watchdog may have
        # expired in the same loop iteration (libev does not promise their callback order): give every
        # already-expired timer the chance to be delivered before concluding anything.
        g.join(timeout=K * timeout / 2.0)
    rcpts = list(env.recipients)
    if not g.dead:
        g.kill(block=False)
        return {'end': 'hang', 'watchdog_s': 1.5 * K * timeout, 'per': {}}
    if 'exc' in out:
        e = out['exc']
        n = _norm_value(e)
        if n['v'] in ('P', 'T'):
            return {'end': 'raised', 'type': n['type'], 'repr': n['repr'], 'reply': n['reply'],
                    'per': {r: n for r in rcpts}, 'unusable': _usability([('raised', e)], env)}
        return {'end': 'raised-other', 'type': type(e).__name__, 'repr': repr(e)[:300], 'per': {}}
    ret = out.get('ret')
    if isinstance(ret, RelayError) or isinstance(ret, BaseException):
        n = _norm_value(ret)
        return {'end': 'returned-error-object', 'type': n['type'], 'repr': n.get('repr'), 'cls': n['v'], 'per': {}}
    if ret is None or isinstance(ret, Reply):
        n = _norm_value(ret)
        return {'end': 'returned', 'shape': n['type'], 'per': {r: n for r in rcpts},
                'unusable': _usability([('returned', ret)], env)}
    if isinstance(ret, collections.abc.Mapping):
        per = {r: _norm_value(ret[r]) for r in rcpts if r in ret}
        return {'end': 'returned', 'shape': 'mapping', 'per': per,
                'unusable': _usability([(r, ret[r]) for r in rcpts if r in ret], env),
                'missing': [r for r in rcpts if r not in ret],
                'extra': [repr(k)[:60] for k in ret if k not in rcpts]}
    if isinstance(ret, collections.abc.Sequence) and not isinstance(ret, (str, bytes)):
        per = {r: _norm_value(v) for r, v in zip(rcpts, ret)}
        return {'end': 'returned', 'shape': 'sequence', 'per': per, 'missing': rcpts[len(ret):],
                'unusable': _usability(list(zip(rcpts, ret)), env)}
    return {'end': 'returned-bad-type', 'type': type(ret).__name__, 'repr': repr(ret)[:200], 'per': {}}


BODIES = {
    # name: (extra header lines, body) -- for next hops that do not advertise 8BITMIME
    'latin1': (b'', b'caf\xe9 au lait\r\n'),
    'utf8': (b'Content-Type: text/plain; charset=utf-8\r\nContent-Transfer-Encoding: 8bit\r\nMIME-Version: 1.0\r\n',
             'gr\u00fc\u00dfe \u2603\r\n'.encode('utf-8')),
    'multipart': (b'MIME-Version: 1.0\r\nContent-Type: multipart/mixed; boundary="b0"\r\n',
                  b'--b0\r\nContent-Type: text/plain; charset=iso-8859-1\r\nContent-Transfer-Encoding: 8bit\r\n\r\n'
                  b'caf\xe9\r\n--b0\r\nContent-Type: application/octet-stream\r\n\r\n\xff\xfe\x00\x01\r\n--b0--\r\n'),
    'big': (b'', (b'x' * 76 + b'\r\n') * 4000),       # ~300 kB: more than any pipe buffer
    'bogus-charset': (b'MIME-Version: 1.0\r\nContent-Type: text/plain; charset=x-no-such-charset\r\n'
                      b'Content-Transfer-Encoding: 8bit\r\n', b'\xa4\xa5\xa6\r\n'),
}


def make_envelope(sender, rcpts, marker, body=None):
    env = Envelope(sender, list(rcpts))
    hdr = ('From: %s\r\nX-Verif-Msg: %s\r\nSubject: c11\r\n' % (sender, marker)).encode()
    if body is None:
        env.parse(hdr + ('\r\nbody of %s\r\n.dot line\r\n' % marker).encode())
    else:
        extra, payload = BODIES[body]
        env.parse(hdr + extra + b'\r\n' + payload)
    return env


# ------------------------------------------------------------------------------------------------
# SMTP / LMTP
# ------------------------------------------------------------------------------------------------
TXN_STAGE = re.compile(r'^(mail|rcpt\d+|data|eod\d+)$')

OUTCOMES = collections.OrderedDict([
    # name: (class, action template; {c} = the stage's normal code)
    ('421', ('4xx', ['reply', '421'])), ('450', ('4xx', ['reply', '450'])), ('451', ('4xx', ['reply', '451'])),
    ('500', ('5xx', ['reply', '500'])), ('550', ('5xx', ['reply', '550'])), ('554', ('5xx', ['reply', '554'])),
    ('garbage', ('malformed', ['raw', b'hello world this is not a reply\r\n'])),
    ('mismatch', ('malformed', ['raw', b'{c}-first line\r\n550 second line\r\n'])),
    ('badutf8', ('malformed', ['raw', b'{c} caf\xe9\xff ok\r\n'])),
    ('range699', ('malformed', ['raw', b'699 weird\r\n'])),
    ('range099', ('malformed', ['raw', b'099 weird\r\n'])),
    ('partial-close', ('malformed', ['raw', b'{c}-first line\r\n', 'close'])),
    # two digits of a code, then silence: the relay has to time out; whatever the server writes next cannot
    # complete this into a well-formed reply (so the downstream log and the wire never disagree)
    ('partial-silence', ('malformed', ['raw', b'{c2}'])),
    ('1xx', ('wrongclass', ['reply', '150'])),
    ('3xx', ('wrongclass', ['reply', '354'])),
    ('close', ('close', ['close'])),
    ('stall', ('stall', ['stall'])),
    # --- audit: failure forms the first table did not have
    # well-formed multi-line replies (the class is that of the code, as for a single line)
    ('ml-450', ('4xx', ['reply-ml', '450', ['4.2.0 mailbox busy', 'second line', 'third line']])),
    ('ml-550', ('5xx', ['reply-ml', '550', ['5.1.1 no such user', 'second line', 'third line']])),
    # a well-formed reply that arrives in three segments
    ('split-450', ('4xx', ['chunks', 3, ['reply', '450']])),
    ('split-550', ('5xx', ['chunks', 3, ['reply', '550']])),
    # the first line of a multi-line reply, complete, then silence
    ('partial-ml-silence', ('malformed', ['raw', b'{c}-first line\r\n'])),
    # abortive close: the relay sees ECONNRESET / EPIPE instead of an orderly end of stream
    ('reset', ('close', ['reset'])),
])
SLOW_OUTCOMES = ('stall', 'partial-silence', 'partial-ml-silence')
# positive replies other than the plain one-line 250: every one of them is an acceptance
OK_VARIANTS = collections.OrderedDict([
    ('251', ['reply', '251']), ('252', ['reply', '252']), ('299', ['reply', '299']),
    ('ml-250', ['reply-ml', '250', ['2.0.0 fine', 'second line', 'third line']]),
    ('split-ok', ['chunks', 3, ['ok']]),
])
# inside an established TLS session only
TLS_OUTCOMES = {'tlscorrupt': ('close', ['tlscorrupt'])}
TLS_ALERT = b'\x15\x03\x03\x00\x02\x02\x28'      # fatal handshake_failure
NORMAL_CODE = {'banner': b'220', 'data': b'354', 'auth': b'235', 'quit': b'221', 'starttls': b'220'}
CLS = {'4xx': 'T', '5xx': 'P', 'malformed': 'T', 'close': 'T', 'stall': 'T'}


def stage_family(stage):
    return re.sub(r'\d+$', '', stage.split('+')[0]) if stage.startswith(('rcpt', 'eod')) else stage


def action_for(stage, outcome):
    if outcome == '2xx':
        code = {'banner': '220', 'quit': '221', 'auth': '235'}.get(stage_family(stage), '250')
        return ['reply', code]
    if outcome in OK_VARIANTS:
        return list(OK_VARIANTS[outcome])
    if outcome in TLS_OUTCOMES:
        return list(TLS_OUTCOMES[outcome][1])
    a = list(OUTCOMES[outcome][1])
    if a[0] == 'raw':
        code = NORMAL_CODE.get(stage_family(stage), b'250')
        a[1] = a[1].replace(b'{c}', code).replace(b'{c2}', code[:2])
    return a


def expect_smtp(lmtp, nrcpt, stage, oclass, tls_required=False):
    """Expectation per recipient index from the script alone: 'D' delivered (if L accepted), 'T', 'P',
    '?' nothing demanded beyond SAFETY/TYPE/ENDS."""
    fam = stage_family(stage)
    if oclass == 'wrongclass':
        return ['?'] * nrcpt
    if oclass == 'ok-variant':               # a positive reply in another shape: an acceptance like any other
        return ['D'] * nrcpt
    if oclass == '2xx':
        return ['?' if fam in ('data', 'starttls') else 'D'] * nrcpt
    c = CLS[oclass]
    if fam in ('quit', 'idle'):
        return ['D'] * nrcpt
    if fam == 'starttls' and oclass in ('4xx', '5xx') and not tls_required:
        return ['D'] * nrcpt
    if fam == 'rcpt' and oclass in ('4xx', '5xx'):
        i = int(stage[4:])
        return [c if j == i else 'D' for j in range(nrcpt)]
    if fam == 'eod' and lmtp:
        i = int(stage[3:])
        if oclass in ('4xx', '5xx'):
            return [c if j == i else 'D' for j in range(nrcpt)]
        # the others may have been answered (and accepted) before / after the broken reply: nothing demanded
        return ['T' if j == i else '?' for j in range(nrcpt)]
    return [c] * nrcpt


def smtp_case(lmtp, pipelining, nrcpt, stage, outcome, faults, expect, **kw):
    oclass = kw.pop('oclass', None) or ('2xx' if outcome in ('2xx', 'ok') else 'ok-variant' if outcome in OK_VARIANTS
                                        else TLS_OUTCOMES[outcome][0] if outcome in TLS_OUTCOMES
                                        else OUTCOMES[outcome][0])
    case = {'kind': 'smtp', 'lmtp': lmtp, 'pipelining': pipelining, 'nrcpt': nrcpt, 'stage': stage,
            'outcome': outcome, 'oclass': oclass, 'faults': faults, 'expect': expect, 'single': True,
            'slow': any(o in outcome for o in SLOW_OUTCOMES), 'tls': None, 'auth': False, 'reuse': None}
    case.update(kw)
    return case


def fault(stage, outcome, **kw):
    d = {'stage': stage, 'action': action_for(stage, outcome)}
    d.update(kw)
    return d


def smtp_stage_outcomes(lmtp, nrcpt):
    """(stage, outcome) pairs of the plain single-fault table for one configuration."""
    names = list(OUTCOMES)
    yield 'connect', 'refuse'
    yield 'connect', 'stall'
    for o in names:
        if o not in ('1xx', '3xx'):
            yield 'banner', o
    for o in ['2xx'] + names:
        if o == '500' and not lmtp:
            continue                       # EHLO 500 is the HELO fallback: stage 'helo'
        if o in ('1xx', '3xx'):
            continue
        yield 'ehlo', o
    stages = ['mail'] + ['rcpt%d' % i for i in range(nrcpt)] + ['data'] + \
        ['eod%d' % i for i in range(nrcpt if lmtp else 1)] + ['quit']
    for st in stages:
        for o in ['2xx'] + names:
            if st == 'data' and o == '3xx':
                continue
            yield st, o
        for o in OK_VARIANTS:
            if st == 'quit' or (st == 'data' and o != 'split-ok'):
                continue                   # DATA is answered 354: only its segmentation varies
            yield st, o


def gen_smtp_all(rnd, ndouble, full=False):
    cases = []
    # --- plain single-fault table
    for lmtp in (False, True):
        for pipelining in (True, False):
            for nrcpt in (1, 2, 3):
                for st, o in smtp_stage_outcomes(lmtp, nrcpt):
                    if st == 'connect':
                        f = [{'stage': 'connect', 'action': [o], 'nconnect': 1}]
                        cases.append(smtp_case(lmtp, pipelining, nrcpt, st, o, f, ['T'] * nrcpt, oclass=(
                            'close' if o == 'refuse' else 'stall'), slow=(o == 'stall')))
                        continue
                    oclass = '2xx' if o == '2xx' else 'ok-variant' if o in OK_VARIANTS else OUTCOMES[o][0]
                    cases.append(smtp_case(lmtp, pipelining, nrcpt, st, o, [fault(st, o)],
                                           expect_smtp(lmtp, nrcpt, st, oclass)))
    # --- an address that cannot be expressed to this next hop: non-ASCII sender / recipient while the
    #     downstream does not advertise SMTPUTF8 (everything else answers 2xx). Only TYPE / SAFETY / ENDS
    #     are judged: the relay may fail that recipient or the whole message, but with a relay error.
    for lmtp in (False, True):
        for pipelining in (True, False):
            for nrcpt in (1, 2, 3):
                for which in ['sender'] + list(range(nrcpt)):
                    cases.append(smtp_case(lmtp, pipelining, nrcpt, 'address', 'non-ascii-%s' % (
                        'sender' if which == 'sender' else 'rcpt'), [], ['?'] * nrcpt, oclass='non-ascii',
                        nonascii=which))
    # --- HELO fallback after EHLO 500 (SMTP only)
    for nrcpt in (1, 2):
        for o in ['2xx'] + [x for x in OUTCOMES if x not in ('1xx', '3xx')]:
            oclass = '2xx' if o == '2xx' else OUTCOMES[o][0]
            cases.append(smtp_case(False, False, nrcpt, 'helo', o, [fault('ehlo', '500'), fault('helo', o)],
                                   expect_smtp(False, nrcpt, 'helo', oclass)))
    # --- STARTTLS, the EHLO after it, AUTH
    for lmtp in (False, True):
        for req in (True, False):
            for o in ['2xx-220'] + list(OUTCOMES) + ['tls-handshake-eof']:
                if o == '2xx-220':
                    cases.append(smtp_case(lmtp, True, 2, 'starttls', 'ok', [], ['D', 'D'], oclass='2xx',
                                           tls={'required': req}))
                    continue
                if o == 'tls-handshake-eof':
                    f = [{'stage': 'starttls', 'action': ['raw', b'220 2.0.0 go ahead\r\n', 'close']}]
                    cases.append(smtp_case(lmtp, True, 2, 'starttls', o, f, ['T', 'T'], oclass='close',
                                           tls={'required': req}))
                    continue
                oclass = OUTCOMES[o][0]
                cases.append(smtp_case(lmtp, True, 2, 'starttls', o, [fault('starttls', o)],
                                       expect_smtp(lmtp, 2, 'starttls', oclass, req), tls={'required': req}))
        for o in [x for x in OUTCOMES if x not in ('1xx', '3xx') and not (x == '500' and not lmtp)]:
            cases.append(smtp_case(lmtp, True, 1, 'ehlo-after-starttls', o, [fault('ehlo', o, nth=2)],
                                   expect_smtp(lmtp, 1, 'ehlo', OUTCOMES[o][0]), tls={'required': True}))
        for o in ['2xx'] + [x for x in OUTCOMES if x != '3xx']:
            oclass = '2xx' if o == '2xx' else OUTCOMES[o][0]
            cases.append(smtp_case(lmtp, True, 2, 'auth', o, [fault('auth', o)],
                                   expect_smtp(lmtp, 2, 'auth', oclass), auth=True))
    # --- RSET faults, reached only after a failing stage
    for lmtp in (False, True):
        for pipelining in (True, False):
            firsts = [('mail', [fault('mail', '550')], ['P', 'P']),
                      ('rcpt-all', [fault('rcpt0', '550'), fault('rcpt1', '550')], ['P', 'P']),
                      ('data', [fault('data', '554')], ['P', 'P']),
                      ('mail4', [fault('mail', '451')], ['T', 'T'])]
            if lmtp:
                firsts.append(('eod1', [fault('eod1', '550')], ['D', 'P']))
            else:
                firsts.append(('eod0', [fault('eod0', '550')], ['P', 'P']))
            for name, ff, exp in firsts:
                for o in [x for x in OUTCOMES if x not in ('1xx', '3xx')]:
                    cases.append(smtp_case(lmtp, pipelining, 2, 'rset-after-' + name, o, ff + [fault('rset', o)], exp))
    # --- connection reuse: fault in the first message, clean second message on the same relay object
    reuse_stages = ['banner', 'mail', 'rcpt0', 'rcpt1', 'data', 'eod0', 'eod1', 'quit']
    reuse_outcomes = ['450', '550', 'garbage', 'range699', 'badutf8', 'partial-silence', '1xx', 'close', 'stall',
                      'reset']
    if full:
        reuse_outcomes = list(OUTCOMES)
        reuse_stages = ['banner', 'ehlo'] + reuse_stages[1:]
    for lmtp in (False, True):
        for pipelining in (True, False):
            for mode in ('immediate', 'after-idle'):
                for st in reuse_stages:
                    if st == 'eod1' and not lmtp:
                        continue
                    for o in reuse_outcomes:
                        if st in ('banner', 'ehlo') and (o in ('1xx', '3xx') or (o == '500' and st == 'ehlo' and not lmtp)):
                            continue
                        e1 = expect_smtp(lmtp, 2, st, OUTCOMES[o][0])
                        cases.append(smtp_case(lmtp, pipelining, 2, st, o, [fault(st, o)], [e1, ['D', 'D']],
                                               reuse=mode))
                for name, ff, exp in (('mail', [fault('mail', '550')], ['P', 'P']),
                                      ('eod-last', [fault('eod1' if lmtp else 'eod0', '550')],
                                       ['D', 'P'] if lmtp else ['P', 'P'])):
                    for o in ('450', 'garbage', 'close', 'stall'):
                        cases.append(smtp_case(lmtp, pipelining, 2, 'rset-after-' + name, o, ff + [fault('rset', o)],
                                               [exp, ['D', 'D']], reuse=mode))
                cases.append(smtp_case(lmtp, pipelining, 2, 'none', 'ok', [], [['D', 'D'], ['D', 'D']], oclass='2xx',
                                       reuse=mode))
                # the server says something / goes away while the connection idles between the messages
                for o, act in (('421', ['reply', '421']), ('close', ['close']),
                               ('garbage', ['raw', b'what a nice day\r\n']), ('554', ['reply', '554'])):
                    cases.append(smtp_case(lmtp, pipelining, 2, 'idle', o, [{'stage': 'idle', 'action': act}],
                                           [['D', 'D'], ['D', 'D']], reuse=mode, idle_stage=True,
                                           oclass={'421': '4xx', '554': '5xx', 'close': 'close',
                                                   'garbage': 'malformed'}[o]))
    cases.extend(gen_smtp_audit())
    # --- seeded double / triple faults: SAFETY / TYPE / ENDS only
    for _ in range(ndouble):
        lmtp, pipelining, nrcpt = rnd.random() < 0.5, rnd.random() < 0.5, rnd.choice([1, 2, 2, 3])
        table = [(s, o) for s, o in smtp_stage_outcomes(lmtp, nrcpt) if s != 'connect' and o in OUTCOMES]
        table += [('rset', o) for o in OUTCOMES if o not in ('1xx', '3xx')]
        picks = rnd.sample(table, 3 if rnd.random() < 0.25 else 2)
        if len(set(s for s, _ in picks)) < len(picks):
            continue
        c = smtp_case(lmtp, pipelining, nrcpt, '+'.join(s for s, _ in picks), '+'.join(o for _, o in picks),
                      [fault(s, o) for s, o in picks], ['?'] * nrcpt,
                      oclass='+'.join(OUTCOMES[o][0] for _, o in picks))
        c['single'] = False
        c['slow'] = True
        if rnd.random() < 0.3:
            c['reuse'] = rnd.choice(['immediate', 'after-idle'])
            c['expect'] = [c['expect'], ['?'] * nrcpt]
        cases.append(c)
    return cases


def gen_smtp_audit():
    """Strata added by the coverage audit (each one has a mutant under /verif/mutants/C11-audit-m*.patch)."""
    cases = []
    # --- A1: the TLS handshake itself fails after a positive STARTTLS reply (close is in the first table)
    HS = [('tls-handshake-stall', ['stall'], 'stall', 'T'),
          ('tls-handshake-garbage', ['garbage', b'HTTP/1.1 400 Bad Request\r\n\r\n'], 'malformed', 'F'),
          ('tls-handshake-alert', ['garbage', TLS_ALERT], 'close', 'F')]
    for lmtp in (False, True):
        for req in (True, False):
            for name, act, oclass, e in HS:
                cases.append(smtp_case(lmtp, True, 2, 'starttls', name, [{'stage': 'tlshandshake', 'action': act}],
                                       [e, e], oclass=oclass, tls={'required': req}, slow=(act[0] == 'stall')))
            cases.append(smtp_case(lmtp, True, 2, 'starttls', 'tls-cert-untrusted', [], ['F', 'F'], oclass='close',
                                   tls={'required': req, 'strict': True}, nontrivial=True))
    # --- A2: immediate TLS (tls_immediately=True, SMTPS-style next hop)
    for lmtp in (False, True):
        t = {'required': True, 'immediately': True}
        cases.append(smtp_case(lmtp, True, 2, 'tlsconnect', 'ok', [], ['D', 'D'], oclass='2xx', tls=t, nontrivial=True))
        for name, act, oclass, e in [('tls-handshake-eof', ['close'], 'close', 'T')] + HS:
            cases.append(smtp_case(lmtp, True, 2, 'tlsconnect', name, [{'stage': 'tlshandshake', 'action': act}],
                                   [e, e], oclass=oclass, tls=t, slow=(act[0] == 'stall')))
        cases.append(smtp_case(lmtp, True, 2, 'tlsconnect', 'tls-cert-untrusted', [], ['F', 'F'], oclass='close',
                               tls=dict(t, strict=True), nontrivial=True))
        for st, o in (('banner', '554'), ('banner', 'close'), ('mail', '450'), ('rcpt0', '550'), ('eod0', '451'),
                      ('quit', 'close')):
            cases.append(smtp_case(lmtp, True, 2, 'tlsconnect+' + st, o, [fault(st, o)],
                                   expect_smtp(lmtp, 2, st, OUTCOMES[o][0]), tls=t))
    # --- A3: faults inside an established TLS session (after STARTTLS)
    for lmtp in (False, True):
        stages = ['mail', 'rcpt0', 'rcpt1', 'data', 'eod0'] + (['eod1'] if lmtp else []) + ['quit']
        for st in stages:
            for o in ('450', '550', 'close', 'stall', 'garbage', 'reset', 'tlscorrupt'):
                oclass = (TLS_OUTCOMES.get(o) or OUTCOMES[o])[0]
                cases.append(smtp_case(lmtp, True, 2, 'tls+' + st, o, [fault(st, o)], expect_smtp(lmtp, 2, st, oclass),
                                       tls={'required': True}))
    # --- A4: a next hop that answers DATA with 354 although it refused the sender / every recipient; the relay
    #     owes it an (empty) message before it can go on.  The class is that of the refusal.
    for lmtp in (False, True):
        for pipelining in (True, False):
            firsts = [('mail-550', [fault('mail', '550')], 'P'), ('mail-450', [fault('mail', '450')], 'T'),
                      ('rcpt-all-550', [fault('rcpt0', '550'), fault('rcpt1', '550')], 'P'),
                      ('rcpt-all-450', [fault('rcpt0', '450'), fault('rcpt1', '450')], 'T')]
            for name, ff, e in firsts:
                for o in ('ok', '554', 'close', 'stall'):
                    extra = [] if o == 'ok' else [fault('eod0', o)]
                    cases.append(smtp_case(lmtp, pipelining, 2, 'lenient-data-after-' + name, o, ff + extra,
                                           [e, e] if o == 'ok' else ['?', '?'], oclass='lenient', lenient=True,
                                           slow=(o == 'stall')))
                cases.append(smtp_case(lmtp, pipelining, 2, 'lenient-data-after-' + name, 'ok', ff,
                                       [[e, e], ['D', 'D']], oclass='lenient', lenient=True, reuse='immediate'))
    # --- A5: a next hop without 8BITMIME and a message with 8-bit content: converted (binary_encoder given) and
    #     delivered, or failed with a relay error before anything is sent
    for lmtp in (False, True):
        for body in ('latin1', 'utf8', 'multipart', 'bogus-charset'):
            cases.append(smtp_case(lmtp, True, 2, 'no-8bitmime', body + '/no-encoder', [], ['F', 'F'], oclass='8bit',
                                   no8bitmime=True, body=body, nontrivial=True))
            cases.append(smtp_case(lmtp, True, 2, 'no-8bitmime', body + '/base64-encoder', [],
                                   ['D', 'D'] if body in ('latin1', 'utf8') else ['?', '?'], oclass='8bit',
                                   no8bitmime=True, body=body, encoder=True, nontrivial=True))
        cases.append(smtp_case(lmtp, True, 2, 'no-8bitmime', 'latin1/no-encoder', [], [['F', 'F'], ['D', 'D']],
                               oclass='8bit', no8bitmime=True, body='latin1', nontrivial=True, reuse='immediate'))
    # --- A6: per-recipient attribution when two recipients get different negative answers (every recipient has
    #     exactly one deviating reply, so its class is unambiguous)
    cl = {'450': 'T', '550': 'P'}
    for pipelining in (True, False):
        for k in range(3):                  # LMTP: RCPT k refused, end-of-data reply j (of the accepted) negative
            for j in range(2):
                for ck in ('450', '550'):
                    for cj in ('450', '550'):
                        acc = [i for i in range(3) if i != k]
                        exp = ['D'] * 3
                        exp[k], exp[acc[j]] = cl[ck], cl[cj]
                        cases.append(smtp_case(True, pipelining, 3, 'rcpt%d+eod%d' % (k, j), ck + '+' + cj,
                                               [fault('rcpt%d' % k, ck), fault('eod%d' % j, cj)], exp,
                                               oclass='attribution'))
        for lmtp in (False, True):
            for k1 in range(3):             # two RCPT refused with different classes, the third accepted
                for k2 in range(3):
                    if k1 != k2:
                        exp = ['D'] * 3
                        exp[k1], exp[k2] = 'T', 'P'
                        cases.append(smtp_case(lmtp, pipelining, 3, 'rcpt%d+rcpt%d' % (k1, k2), '450+550',
                                               [fault('rcpt%d' % k1, '450'), fault('rcpt%d' % k2, '550')], exp,
                                               oclass='attribution'))
            for codes in (('450', '550'), ('550', '450'), ('450', '550', '550'), ('550', '450', '450'),
                          ('550', '550', '450')):          # every RCPT refused, classes differ
                cases.append(smtp_case(lmtp, pipelining, len(codes), 'rcpt-all-mixed', '+'.join(codes),
                                       [fault('rcpt%d' % i, c) for i, c in enumerate(codes)], [cl[c] for c in codes],
                                       oclass='attribution'))
    # --- A7: a RCPT accepted with a positive reply other than one-line 250, combined with every end-of-data
    #     outcome for that and for the other recipients (LMTP: one end-of-data reply per accepted recipient --
    #     the reply stream must stay aligned, also for the next message on a reused connection)
    eods = (('450', 'T'), ('550', 'P'), ('close', 'T'))
    for pipelining in (True, False):
        for n in (1, 2, 3):
            for i in range(n):
                for v in OK_VARIANTS:
                    for reuse in (None, 'after-idle'):   # (after a failure only an idle client is picked again)
                        if reuse and (v not in ('251', 'ml-250') or n == 1 and not pipelining):
                            continue
                        st, f0 = 'rcpt%d' % i, fault('rcpt%d' % i, v)
                        # LMTP, every end-of-data reply positive
                        exp = ['D'] * n
                        cases.append(smtp_case(True, pipelining, n, st + '+eod-all-ok', v + '+2xx', [f0],
                                               [exp, exp] if reuse else exp, oclass='okvar-eod/2xx', reuse=reuse))
                        for j in range(n):          # LMTP, end-of-data reply j negative / missing
                            for o, c in eods:
                                exp = [c if r == j else 'D' if o != 'close' else '?' for r in range(n)]
                                cases.append(smtp_case(True, pipelining, n, st + '+eod%d' % j, v + '+' + o,
                                                       [f0, fault('eod%d' % j, o)],
                                                       [exp, ['D'] * n] if reuse else exp,
                                                       oclass='okvar-eod/' + OUTCOMES[o][0], reuse=reuse))
                        for o, c in eods:           # SMTP, the one end-of-data reply negative / missing
                            exp = [c] * n
                            cases.append(smtp_case(False, pipelining, n, st + '+eod0', v + '+' + o,
                                                   [f0, fault('eod0', o)], [exp, ['D'] * n] if reuse else exp,
                                                   oclass='okvar-eod/' + OUTCOMES[o][0], reuse=reuse))
    return cases


# --- the TEXT of scripted replies (audit): the class of an outcome follows the reply CODE whatever the text says
TEXT_VARIANTS = collections.OrderedDict([
    ('no-esc', ('text', 'No SMTP service here')),
    ('esc-3-digit-detail', ('text', '5.7.708 Access denied, banned sender')),
    ('esc-3-digit-subject', ('text', '4.123.5 subject field of three digits')),
    ('esc-2-digit-fields', ('text', '4.10.25 try again later')),
    ('esc-2.0.0', ('text', '2.0.0 fine')),
    ('esc-5.0.0', ('text', '5.0.0 no')),
    ('esc-4.2.0', ('text', '4.2.0 mailbox busy')),
    ('esc-like-4-digit-detail', ('text', '2.0.2024 see ticket')),
    ('esc-like-4-digit-subject', ('text', '5.1234.1 odd')),
    ('only-an-esc-3-digit', ('exact', '5.7.708')),
    ('only-an-esc', ('exact', '2.0.0')),
    ('empty-text', ('exact', '')),
    ('very-long-text', ('text', '4.2.0 ' + 'x' * 900)),
    ('8-bit-text', ('text', '5.2.2 bo\u00eete pleine \u2603')),
    ('multi-line-esc-per-line', ('ml', ['5.1.1 first line', '4.2.0 second line', '2.0.0 third line', 'no code here'])),
])


def _vary_action(a, rnd, stage, used):
    if a[0] == 'chunks':
        return [a[0], a[1], _vary_action(a[2], rnd, stage, used)]
    if a[0] != 'reply' or len(a) != 2 or rnd.random() < 0.35:
        return a
    name = rnd.choice(list(TEXT_VARIANTS))
    how, text = TEXT_VARIANTS[name]
    if stage == 'idle' and how != 'text':
        return a
    used.append(name)
    if how == 'text':
        return ['reply', a[1], text]
    if how == 'exact':
        return ['reply-exact', a[1], text]
    return ['reply-ml', a[1], list(text)]


def vary_reply_texts(cases, rnd):
    """Seeded choice of a text for every scripted one-line reply of the smtp / mx cases (new dicts: generator
    tables share fault objects between cases)."""
    for c in cases:
        used = []
        if c['kind'] == 'smtp':
            c['faults'] = [dict(f, action=_vary_action(f['action'], rnd, f['stage'], used)) for f in c['faults']]
        elif c['kind'] == 'mx':
            c['faults'] = dict((h, [dict(f, action=_vary_action(f['action'], rnd, f['stage'], used)) for f in ff])
                               for h, ff in c['faults'].items())
        if used:
            c['texts'] = used
    return cases


def make_script(D, faults, fired):
    seen = collections.Counter()

    def script(ctx, stage):
        if stage == 'connect':
            for n, f in enumerate(faults):
                if f['stage'] == 'connect' and D.connects == f.get('nconnect', 1):
                    fired.add(n)
                    return f['action']
            return ('ok',)
        seen[(ctx['conn'], stage)] += 1
        for n, f in enumerate(faults):
            if f['stage'] != stage or ctx['conn'] != f.get('conn', 0):
                continue
            if TXN_STAGE.match(stage) and ctx['txn'] != f.get('txn', 0):
                continue
            if 'nth' in f and seen[(ctx['conn'], stage)] != f['nth']:
                continue
            if stage in ('idle', 'rset') and n in fired and not f.get('always'):
                continue                    # once
            fired.add(n)
            return f['action']
        return ('ok',)
    return script


def _conn_log(D):
    out = []
    for c in D.conns:
        out.append({'conn': c.n, 'verbs': ' '.join(v for v, _ in c.commands), 'closed_by': c.closed_by,
                    'tls': c.tls, 'greeting': c.greeting, 'idle_push': getattr(c, 'idle_push', None),
                    'txns': [{'offered': t['rcpts_offered'], 'rcpt_ok': t['rcpts_accepted'],
                              'eod_ok': sorted(r for r, v in t['eod'].items() if v), 'marker': t['marker']}
                             for t in c.txns]})
    return out


def _wait_idle(relay, limit=1.0, gone=False):
    """Synchronisation only: until every pool client is idle (or, with gone=True, has finished)."""
    waited = 0.0
    while waited < limit:
        if not relay.pool or (not gone and all(getattr(c, 'idle', False) for c in list(relay.pool))):
            return True
        gevent.sleep(0.004)
        waited += 0.004
    return False


def exec_smtp(case, alone=False):
    T = T_STALL if case.get('slow') else T_ALONE if alone else T_FAST
    uid = _uid()
    fired = set()
    tlsopt = case.get('tls')
    D = Downstream11(lmtp=case['lmtp'], pipelining=case['pipelining'],
                     tls_context=_ctx('server') if tlsopt else None, auth=bool(case.get('auth')),
                     idle_stage=bool(case.get('idle_stage')),
                     tcp=any(f['action'][0] == 'reset' for f in case['faults']),
                     tls_immediately=bool(tlsopt and tlsopt.get('immediately')),
                     lenient_data=bool(case.get('lenient')),
                     extensions=() if case.get('no8bitmime') else (b'8BITMIME',))
    D.script = make_script(D, case['faults'], fired)
    kw = dict(socket_creator=D.creator, connect_timeout=T, command_timeout=T, data_timeout=T, ehlo_as='me',
              context=_ctx('client-strict' if tlsopt and tlsopt.get('strict') else 'client'))
    if tlsopt:
        kw['tls_required'] = bool(tlsopt['required'])
        if tlsopt.get('immediately'):
            kw['tls_immediately'] = True
    if case.get('encoder'):
        from email import encoders
        kw['binary_encoder'] = encoders.encode_base64
    if case.get('auth'):
        kw['credentials'] = ('user', 'pw')
    if case.get('reuse'):
        kw['idle_timeout'] = 0.3
    relay = (StaticLmtpRelay if case['lmtp'] else StaticSmtpRelay)('next-hop.test', 25, **kw)
    crashes = _own(relay)
    rcpts = ['r%d@d.test' % i for i in range(case['nrcpt'])]
    sender = 's@src.test'
    if case.get('nonascii') == 'sender':
        sender = 's\u00fc\u00df@src.test'
    elif case.get('nonascii') is not None:
        rcpts[case['nonascii']] = 'r\u00fc%d@d.test' % case['nonascii']
    nmsg = 2 if case.get('reuse') else 1
    expects = case['expect'] if case.get('reuse') else [case['expect']]
    msgs = []
    try:
        for mi in range(nmsg):
            marker = 'c11-%d-m%d' % (uid, mi)
            env = make_envelope(sender, rcpts, marker, case.get('body') if mi == 0 else None)
            res = run_attempt(relay, env, mi, T)
            msgs.append({'label': 'msg%d' % (mi + 1), 'marker': marker, 'rcpts': rcpts, 'result': res,
                         'expect': dict(zip(rcpts, expects[mi]))})
            if mi + 1 < nmsg and case['reuse'] == 'after-idle':
                msgs[-1]['went_idle'] = _wait_idle(relay)
        if msgs[-1]['result']['end'] != 'hang':
            # synchronisation only: let RSET / QUIT reach the downstream before its log is read
            if any(f['stage'] == 'quit' for f in case['faults']):
                _wait_idle(relay, 6 * T + (0.3 if case.get('reuse') else 0), gone=True)
            else:
                _wait_idle(relay, 6 * T)
        gevent.sleep(0)
        acc = D.accepted()
        for m in msgs:
            m['accepted'] = sorted(acc.get(m['marker'], ()))
    finally:
        gevent.killall(list(relay.pool), block=False)
        D.kill()
        _disown(relay)
    return {'msgs': msgs, 'fired': sorted(fired), 'nfaults': len(case['faults']),
            'log': {'connects': D.connects, 'conns': _conn_log(D), 'client_greenlets_died_with': list(crashes)},
            'tls_seen': any(c.tls for c in D.conns), 'reused': any(len(c.txns) > 1 for c in D.conns),
            'reset_seen': any(getattr(c, 'reset', False) for c in D.conns), 'tcp': D.tcp,
            'empty_data_seen': any(t['data_ok'] and t['content'] == b'' for c in D.conns for t in c.txns)}


# ------------------------------------------------------------------------------------------------
# pipe relays
# ------------------------------------------------------------------------------------------------
STUB = r'''#!/bin/sh
# C11 delivery-program stub: behaviour is encoded in the argv token
#   B_<exit>_<stdout>_<stderr>_<sleep>_<n>[_<SIGNAL>_<pre|post>]
# with a signal the program kills itself (kill -SIGNAL $$) before (pre) or after (post) draining stdin,
# after having written the scripted output; it never logs an 'exit' line then.
#   B_<exit>_<stdout>_<stderr>_<sleep>_<n>_NONE_nodrain : exits without reading its stdin at all
tok=""; log=""
for a in "$@"; do
  case "$a" in
    B_*) tok="$a";;
    */c11log-*) log="$a";;
  esac
done
tok="${tok%%@*}"
full="$tok"
IFS=_
set -- $tok
code="$2"; out="$3"; err="$4"; slp="$5"; sig="$7"; when="$8"
[ "$sig" = "NONE" ] && sig=""
die() {
  emit "$out"
  emit "$err" >&2
  [ -n "$log" ] && echo "signal $full $sig $when" >> "$log"
  kill -"$sig" $$
  sleep 5
}
emit() {
  case "$1" in
    1) printf '5.1.1 no such user\n';;
    2) printf '4.2.0 try later\n';;
    3) printf 'maildrop: quota exceeded\n';;
    4) printf '\377\376 caf\351 failed\n';;
    5) printf '5.7.708 Access denied, banned sender\n';;
    6) printf '4.10.25 try again later\n';;
    7) printf '5.1234.1 odd\n';;
    8) printf '2.0.2024 see ticket\n';;
    9) printf '5.7.708\n';;
    10) printf '5.2.2 bo\303\256te pleine \342\230\203\n';;
    11) printf '5.1.1 first line\n4.2.0 second line\nno code here\n';;
    12) printf '4.2.0 '; head -c 3000 /dev/zero | tr '\000' x; printf '\n';;
    13) printf 'No such service here\n';;
    14) printf '5.123.7 subject field of three digits\n';;
  esac
}
[ -n "$log" ] && echo "start $full" >> "$log"
if [ -n "$sig" ] && [ "$when" = "pre" ]; then die; fi
if [ "$when" != "nodrain" ]; then cat >/dev/null; fi
if [ -n "$sig" ]; then die; fi
if [ "$slp" != "0" ]; then sleep "$slp"; fi
emit "$out"
emit "$err" >&2
[ -n "$log" ] && echo "exit $full $code" >> "$log"
exit "$code"
'''
SHAPES = {0: 'empty', 1: '5.1.1', 2: '4.2.0', 3: 'maildrop:', 4: 'non-utf8',
          # audit: the same text variants as the scripted SMTP replies
          5: '5.7.708', 6: '4.10.25', 7: '5.1234.1', 8: '2.0.2024', 9: 'only-5.7.708', 10: '5.2.2-8bit',
          11: 'multi-line-esc-per-line', 12: '4.2.0-very-long', 13: 'no-esc', 14: '5.123.7'}
# documented PipeRelay rule: permanent iff the output begins with 5.X.X and white space, else transient
PIPE_TEXT_CLASS = {1: 'P', 2: 'T', 5: 'P', 6: 'T', 7: 'P', 10: 'P', 11: 'P', 12: 'T', 14: 'P'}
PIPE_CLASSES = ('pipe-per-rcpt', 'pipe-single', 'maildrop', 'dovecot')


def _stub_path():
    if 'stub' not in _G:
        p = os.path.join(_scratch(), 'c11stub.sh')
        with open(p, 'w') as f:
            f.write(STUB)
        os.chmod(p, 0o755)
        _G['stub'] = p
    return _G['stub']


def expect_pipe(cls, beh):
    """beh = [exit, out, err, sleep(, signal, 'pre'|'post')]; -> 'D' | 'T' | 'P' | 'F' (a failure of either
    class).  A program killed by a signal delivered nothing: a failure is demanded, its class is not -- the
    statement lists exit statuses and output, not signals; postfix pipe(8) defers, the documented PipeRelay
    rule says transient unless the output starts with 5.x.x, maildrop / dovecot-lda say permanent unless
    EX_TEMPFAIL: none of these is contradicted by the statement."""
    ex, out, err, slp = beh[:4]
    if len(beh) > 4 and beh[4] and beh[4] != 'NONE':
        return 'F'
    if slp:
        return 'T'
    if ex == 0:
        return 'D'
    if cls.startswith('pipe-'):
        first = out or err                 # documented: stdout, else stderr
        return PIPE_TEXT_CLASS.get(first, 'F')
    return 'T' if ex == 75 else 'F'


def gen_pipe_all():
    cases = []
    for cls in PIPE_CLASSES:
        for ex in (0, 1, 75, 127):
            for out in range(5):
                for err in range(5):
                    beh = [ex, out, err, 0]
                    cases.append({'kind': 'pipe', 'cls': cls, 'nrcpt': 1, 'behs': [beh], 'stage': 'exit%d' % ex,
                                  'outcome': 'out=%s,err=%s' % (SHAPES[out], SHAPES[err]), 'timeout': None,
                                  'expect': [expect_pipe(cls, beh)], 'single': True})
        # timeouts
        for ex in (0, 1):
            beh = [ex, 0, 0, 0.8]
            cases.append({'kind': 'pipe', 'cls': cls, 'nrcpt': 1, 'behs': [beh], 'stage': 'sleep',
                          'outcome': 'timeout', 'timeout': T_STALL, 'expect': ['T'], 'single': True, 'slow': True})
        # the delivery program dies from a signal (Popen.returncode < 0), with / without output, before /
        # after draining stdin; the would-be exit status in the token is 0
        for sig in ('KILL', 'TERM', 'SEGV'):
            for when in ('pre', 'post'):
                for out, err in ((0, 0), (1, 0), (0, 2), (3, 0)):
                    beh = [0, out, err, 0, sig, when]
                    for nrcpt in ((1, 2) if cls in ('pipe-single', 'maildrop') and (out, err) == (0, 0) else (1,)):
                        cases.append({'kind': 'pipe', 'cls': cls, 'nrcpt': nrcpt, 'behs': [beh],
                                      'stage': 'signal-' + sig,
                                      'outcome': '%s-drain,out=%s,err=%s%s' % (when, SHAPES[out], SHAPES[err],
                                                                              ',2rcpt' if nrcpt == 2 else ''),
                                      'timeout': None, 'expect': ['F'] * nrcpt, 'single': True})
    # ---------------- audit strata ----------------
    for cls in PIPE_CLASSES:
        # the rest of the exit-status range: sysexits.h, shell conventions (126), the largest (255)
        for ex in (2, 64, 65, 67, 69, 70, 73, 74, 76, 77, 78, 126, 255):
            for out, err in ((0, 0), (1, 0), (0, 2)):
                beh = [ex, out, err, 0]
                cases.append({'kind': 'pipe', 'cls': cls, 'nrcpt': 1, 'behs': [beh], 'stage': 'exit%d' % ex,
                              'outcome': 'out=%s,err=%s' % (SHAPES[out], SHAPES[err]), 'timeout': None,
                              'expect': [expect_pipe(cls, beh)], 'single': True})
        # the text variants on stdout / on stderr
        for ex in (1, 75):
            for shape in range(5, 15):
                for out, err in ((shape, 0), (0, shape)):
                    beh = [ex, out, err, 0]
                    cases.append({'kind': 'pipe', 'cls': cls, 'nrcpt': 1, 'behs': [beh], 'stage': 'exit%d' % ex,
                                  'outcome': 'out=%s,err=%s' % (SHAPES[out], SHAPES[err]), 'timeout': None,
                                  'expect': [expect_pipe(cls, beh)], 'single': True, 'text_variant': True})
        # a program that exits without reading its input, the message being larger than a pipe buffer (the
        # relay's write fails with EPIPE) -- the exit status alone decides
        for ex, out in ((0, 0), (1, 1), (75, 2), (1, 0)):
            beh = [ex, out, 0, 0, 'NONE', 'nodrain']
            for nrcpt in ((1, 2) if ex in (0, 75) else (1,)):
                cases.append({'kind': 'pipe', 'cls': cls, 'nrcpt': nrcpt, 'big': True,
                              'behs': [beh] * (nrcpt if cls in ('pipe-per-rcpt', 'dovecot') else 1),
                              'stage': 'stdin-not-read/exit%d' % ex,
                              'outcome': 'out=%s%s' % (SHAPES[out], ',2rcpt' if nrcpt == 2 else ''), 'timeout': None,
                              'expect': [expect_pipe(cls, beh)] * nrcpt, 'single': True})
    # per-recipient mixes (each recipient its own behaviour)
    ok, k9, seg = [0, 0, 0, 0], [0, 0, 0, 0, 'KILL', 'post'], [0, 1, 0, 0, 'SEGV', 'pre']
    mixes = [(ok, k9), (k9, ok), (ok, seg, ok), (seg, k9), ([1, 1, 0, 0], [0, 0, 0, 0, 'TERM', 'post'], ok),
             ([0, 0, 0, 0], [1, 1, 0, 0]), ([1, 0, 2, 0], [0, 0, 0, 0]), ([75, 0, 0, 0], [0, 1, 1, 0]),
             ([0, 0, 0, 0], [1, 4, 0, 0], [0, 0, 0, 0]), ([1, 0, 1, 0], [75, 2, 0, 0], [127, 0, 0, 0]),
             ([0, 0, 0, 0], [0, 0, 0, 5]), ([0, 0, 0, 5], [0, 0, 0, 0]), ([1, 1, 0, 0], [0, 0, 0, 5], [0, 0, 0, 0])]
    for cls in ('pipe-per-rcpt', 'dovecot'):
        for mix in mixes:
            slow = any(b[3] for b in mix)
            exp, timed_out = [], False
            for b in mix:
                timed_out = timed_out or bool(b[3])
                exp.append('T' if timed_out else expect_pipe(cls, list(b)))
            cases.append({'kind': 'pipe', 'cls': cls, 'nrcpt': len(mix), 'behs': [list(b) for b in mix],
                          'stage': 'mix', 'outcome': '/'.join(
                              ('sig' + b[4]) if len(b) > 4 else 'x%d%s' % (b[0], '+sleep' if b[3] else '')
                              for b in mix),
                          # one timeout spans all the recipients' programs: generous (T_PIPE_MIX), so that the
                          # programs scripted before the sleeping one finish in time even on a loaded machine
                          'timeout': T_PIPE_MIX if slow else None, 'expect': exp, 'single': True, 'slow': slow})
    # single mode with two recipients: one run decides for the message
    for cls in ('pipe-single', 'maildrop'):
        for beh in ([0, 0, 0, 0], [1, 1, 0, 0], [75, 0, 2, 0], [1, 0, 0, 0]):
            e = expect_pipe(cls, beh)
            cases.append({'kind': 'pipe', 'cls': cls, 'nrcpt': 2, 'behs': [beh], 'stage': 'exit%d' % beh[0],
                          'outcome': '2rcpt,out=%s,err=%s' % (SHAPES[beh[1]], SHAPES[beh[2]]), 'timeout': None,
                          'expect': [e, e], 'single': True})
    return cases


def _tok(beh, n):
    t = 'B_%d_%d_%d_%s_%d' % (beh[0], beh[1], beh[2], beh[3] or 0, n)
    return t + ('_%s_%s' % (beh[4], beh[5]) if len(beh) > 4 and beh[4] else '')


def exec_pipe(case, alone=False):
    uid = _uid()
    stub = _stub_path()
    log = os.path.join(_scratch(), 'c11log-%d-%d.log' % (os.getpid(), uid))
    cls, behs, nrcpt = case['cls'], case['behs'], case['nrcpt']
    timeout = case.get('timeout')
    single = cls in ('pipe-single', 'maildrop')
    sender = 's@src.test'
    if cls == 'maildrop':
        relay = MaildropRelay(path=stub, timeout=timeout, extra_args=[log])
        sender = _tok(behs[0], 0) + '@src.test'
        rcpts = ['u%d@p.test' % i for i in range(nrcpt)]
    elif cls == 'dovecot':
        relay = DovecotLdaRelay(path=stub, timeout=timeout, extra_args=[log])
        rcpts = [_tok(behs[i], i) + '@p.test' for i in range(nrcpt)]
    else:
        relay = PipeRelay([stub, log, '{recipient}'], timeout=timeout)
        if single:
            relay.per_recipient = False
            rcpts = [_tok(behs[0], 0) + '@p.test'] + ['u%d@p.test' % i for i in range(1, nrcpt)]
        else:
            rcpts = [_tok(behs[i], i) + '@p.test' for i in range(nrcpt)]
    env = make_envelope(sender, rcpts, 'c11-%d' % uid, 'big' if case.get('big') else None)
    res = run_attempt(relay, env, 0, timeout or (T_ALONE if alone else T_FAST))
    try:
        with open(log) as f:
            lines = f.read().split('\n')
    except IOError:
        lines = []
    exits = dict((ln.split()[1], ln.split()[2]) for ln in lines if ln.startswith('exit '))
    started = [ln.split()[1] for ln in lines if ln.startswith('start ')]
    if single:
        ok = exits.get(_tok(behs[0], 0)) == '0'
        accepted = list(rcpts) if ok else []
    else:
        accepted = [r for i, r in enumerate(rcpts) if exits.get(_tok(behs[i], i)) == '0']
    expect = dict(zip(rcpts, case['expect']))
    early = False
    if case['stage'] == 'mix' and timeout and not single:
        # the relay's one timeout expired while a program scripted BEFORE the sleeping one was still running (the
        # machine is that slow right now): what the relay then reports is a timeout, rightly -- nothing to judge
        first_sleeper = min(i for i, b in enumerate(behs) if b[3])
        for i in range(first_sleeper):
            v = res['per'].get(rcpts[i])
            if v is not None and 'timed out' in (v.get('repr') or '') and _tok(behs[i], i) not in exits:
                early = True
        if early:
            expect = dict((r, '?') for r in rcpts)
    return {'msgs': [{'label': 'msg1', 'rcpts': rcpts, 'result': res, 'accepted': accepted, 'expect': expect}],
            'fired': [0], 'nfaults': 1, 'log': {'stub_log': lines[:12], 'started': started},
            'timeout_hit_early': early}


# ------------------------------------------------------------------------------------------------
# HTTP relay
# ------------------------------------------------------------------------------------------------
HTTP_TABLE = {}


def _http_reset(sock):
    import struct
    try:
        sock.setsockopt(socket.SOL_SOCKET, socket.SO_LINGER, struct.pack('ii', 1, 0))
    except (OSError, IOError):
        pass


def _https_handler(sock, addr):
    """The TLS port: the handshake behaviour is looked up by the client's port-independent SNI-less hello --
    there is nothing to look up before the handshake, so the mode is a module-level switch per listening port."""
    mode = _G.get('https-mode-by-port', {}).get(sock.getsockname()[1], 'ok')
    try:
        if mode == 'eof':
            return sock.close()
        if mode in ('stall', 'garbage'):
            if mode == 'garbage':
                sock.recv(4096)
                sock.sendall(b'HTTP/1.1 400 Bad Request\r\nContent-Length: 0\r\n\r\n')
            while sock.recv(4096):
                pass
            return sock.close()
        tsock = _ctx('server').wrap_socket(sock, server_side=True)
    except (OSError, IOError):
        sock.close()
        return
    _G['https-handshakes'] = _G.get('https-handshakes', 0) + 1
    _http_handler(tsock, addr)


def _http_handler(sock, addr):
    f = sock.makefile('rwb')
    try:
        while True:
            line = f.readline()
            if not line:
                return
            parts = line.split()
            path = parts[1].decode('latin-1') if len(parts) > 1 else ''
            ent = HTTP_TABLE.get(path)
            hdrs = []
            while True:
                h = f.readline()
                if h in (b'\r\n', b'\n', b''):
                    break
                hdrs.append(h)
            clen, rcpts = 0, []
            for h in hdrs:
                k, _, v = h.partition(b':')
                if k.strip().lower() == b'content-length':
                    clen = int(v.strip() or b'0')
                elif k.strip().lower() == b'x-envelope-recipient':
                    rcpts.append(base64.b64decode(v.strip()).decode('utf-8', 'replace'))
            body = f.read(clen) if clen else b''
            if ent is None:
                f.write(b'HTTP/1.1 404 Not Found\r\nContent-Length: 0\r\n\r\n')
                f.flush()
                continue
            n = len(ent['requests'])
            act = ent['script'][min(n, len(ent['script']) - 1)]
            rec = {'n': n, 'rcpts': rcpts, 'body_len': len(body), 'responded': None,
                   'conn': id(sock) & 0xffff}
            ent['requests'].append(rec)
            kind = act[0]
            if kind == 'respond':
                status, reason, hv = act[1], act[2], act[3]
                out = ('HTTP/1.1 %d %s\r\n' % (status, reason)).encode()
                if isinstance(hv, (list, tuple)):       # literal header lines
                    out += b''.join(h + b'\r\n' for h in hv)
                elif hv is not None:
                    out += b'X-Smtp-Reply: ' + hv + b'\r\n'
                rbody = b'' if status == 204 else b'ok\n'
                if status != 204:
                    out += b'Content-Length: %d\r\n' % len(rbody)
                out += b'\r\n' + rbody
                f.write(out)
                f.flush()
                rec['responded'] = status
            elif kind == 'close':
                return
            elif kind == 'reset':
                _http_reset(sock)
                return
            elif kind == 'raw-respond':         # a literal, complete response whose final status is act[2]
                f.write(act[1])
                f.flush()
                rec['responded'] = act[2]
            elif kind == 'raw':
                f.write(act[1])
                f.flush()
                if len(act) > 2 and act[2] == 'stall':
                    while f.read(1):
                        pass
                if len(act) > 2 and act[2] == 'reset':
                    _http_reset(sock)
                return
            elif kind == 'stall':
                while f.read(1):
                    pass
                return
    except (OSError, IOError, ValueError):
        pass
    finally:
        try:
            f.close()
        except Exception:
            pass
        sock.close()


def _http_server():
    if 'http-server' not in _G:
        srv = StreamServer(('127.0.0.1', 0), _http_handler)
        srv.start()
        _G['http-server'] = srv
        # a port nobody listens on: bound, never listen()ed => ECONNREFUSED, and reserved for us
        s = socket.socket()
        s.bind(('127.0.0.1', 0))
        _G['refused-sock'] = s
        # TLS ports, one per handshake behaviour
        _G['https-servers'] = {}
        _G['https-mode-by-port'] = {}
        for mode in ('ok', 'eof', 'stall', 'garbage'):
            t = StreamServer(('127.0.0.1', 0), _https_handler)
            t.start()
            _G['https-servers'][mode] = t
            _G['https-mode-by-port'][t.server_port] = mode
    return _G['http-server'].server_port, _G['refused-sock'].getsockname()[1]


HDRS = collections.OrderedDict([
    ('none', None),
    ('250', b'250; message="2.6.0 Message accepted for delivery"'),
    ('450', b'450; message="4.2.0 try again later"'),
    ('550', b'550; message="5.1.1 no such user"'),
    ('450-command', b'450; message="4.2.0 try again later"; command="RCPT"'),
    ('550-command', b'550; message="5.1.1 no such user"; command="RCPT"'),
    ('unparsable-text', b'well this is not a reply'),
    ('unparsable-999', b'999; message="9.9.9 out of range"'),
    ('unparsable-2digit', b'25; message="short"'),
    ('unparsable-nosemicolon', b'550 5.1.1 no such user'),
])
REASONS = {200: 'OK', 204: 'No Content', 400: 'Bad Request', 404: 'Not Found', 500: 'Internal Server Error',
           503: 'Service Unavailable', 201: 'Created', 202: 'Accepted', 301: 'Moved Permanently', 302: 'Found',
           304: 'Not Modified', 401: 'Unauthorized', 429: 'Too Many Requests', 502: 'Bad Gateway',
           599: 'Network Connect Timeout Error'}
HTTP_CONN_FAULTS = collections.OrderedDict([
    ('refused', None),
    ('close-before-response', ['close']),
    ('garbage-status-line', ['raw', b'hello this is not http\r\n\r\n']),
    ('garbage-status-code', ['raw', b'HTTP/1.1 abc OK\r\nContent-Length: 0\r\n\r\n']),
    ('error-headers-then-close', ['raw', b'HTTP/1.1 503 Service Unavailable\r\nContent-Length: 2\r\nX-Unfinished: y']),
    ('stall', ['stall']),
    ('partial-then-stall', ['raw', b'HTTP/1.1 200 OK\r\nContent-Le', 'stall']),
    # audit: abortive closes
    ('reset-before-response', ['reset']),
    ('reset-mid-response', ['raw', b'HTTP/1.1 200 OK\r\nContent-Length: 100\r\nX-Half-A-Head', 'reset']),
])


# audit: X-Smtp-Reply value shapes.  name -> (header value | list of literal header lines, expectation on an error
# status: 'P' / 'T' where the value starts with a well-formed '<code>;', else 'F')
HDR_SHAPES = collections.OrderedDict([
    ('550-code-only', (b'550', 'F')),
    ('550-code-and-semicolon', (b'550;', 'P')),
    ('451-unquoted-message', (b'451; message=4.3.0 try later', 'T')),
    ('550-command-only', (b'550; command="RCPT"', 'P')),
    ('550-message-last', (b'550; command="RCPT"; message="5.1.1 no such user"', 'P')),
    ('450-message-first', (b'450; message="4.2.0 later"; command="DATA"', 'T')),
    ('450-extra-parameters', (b'450; message="4.2.0 later"; foo="bar"; retry="60"', 'T')),
    ('550-empty-message', (b'550; message=""', 'P')),
    ('450-very-long-message', (b'450; message="4.2.0 ' + b'x' * 4000 + b'"', 'T')),
    ('550-non-ascii-message', (b'550; message="5.2.2 bo\xeete pleine"', 'P')),
    ('550-no-space-before-parameter', (b'550;message="5.1.1 no such user"', 'P')),
    ('550-upper-case-parameter-names', (b'550; MESSAGE="5.1.1 no such user"; COMMAND="RCPT"', 'P')),
    ('550-lower-case-header-name', ([b'x-smtp-reply: 550; message="5.1.1 no such user"'], 'P')),
    ('two-headers-550-then-450', ([b'X-Smtp-Reply: 550; message="5.1.1 no"', b'X-Smtp-Reply: 450; message="4.2.0 later"'],
                                  'F')),
    ('250-code-and-semicolon', (b'250;', 'F')),
    # the same text variants as the scripted SMTP replies, as the message parameter
    ('550-text-esc-3-digit-detail', (b'550; message="5.7.708 Access denied, banned sender"', 'P')),
    ('450-text-esc-3-digit-subject', (b'450; message="4.123.5 subject field of three digits"', 'T')),
    ('450-text-esc-2-digit-fields', (b'450; message="4.10.25 try again later"', 'T')),
    ('550-text-esc-of-another-class', (b'550; message="4.2.0 mailbox busy"', 'P')),
    ('450-text-esc-of-another-class', (b'450; message="5.0.0 no"', 'T')),
    ('550-text-esc-like-4-digit-detail', (b'550; message="2.0.2024 see ticket"', 'P')),
    ('550-text-esc-like-4-digit-subject', (b'550; message="5.1234.1 odd"', 'P')),
    ('550-text-only-an-esc', (b'550; message="5.7.708"', 'P')),
    ('550-text-no-esc', (b'550; message="No SMTP service here"', 'P')),
    ('250-text-esc-of-another-class', (b'250; message="5.0.0 no"', 'F')),
])


def expect_http(status, hdr):
    ok = 200 <= status < 300
    if ok:
        return '?' if hdr[:3] in ('450', '550') else 'D'
    if hdr[:3] == '450':
        return 'T'
    if hdr[:3] == '550':
        return 'P'
    return 'F'


def gen_http_all():
    cases = []
    good = ['respond', 204, 'No Content', HDRS['250']]
    for status in (200, 204, 400, 404, 500, 503):
        for hdr in HDRS:
            for nrcpt in (1, 2):
                if nrcpt == 2 and hdr.startswith('unparsable') and hdr != 'unparsable-999':
                    continue
                e = expect_http(status, hdr)
                cases.append({'kind': 'http', 'stage': 'status%d' % status, 'outcome': 'hdr-' + hdr, 'nrcpt': nrcpt,
                              'script': [['respond', status, REASONS[status], HDRS[hdr]]], 'expect': [e] * nrcpt,
                              'single': True, 'reuse': None})
    # audit: the status classes the first table did not have (other 2xx, 3xx -- never followed --, other 4xx/5xx)
    for status in (201, 202, 301, 302, 304, 401, 429, 502, 599):
        for hdr in ('none', '250', '450', '550', 'unparsable-999'):
            e = expect_http(status, hdr)
            cases.append({'kind': 'http', 'stage': 'status%d' % status, 'outcome': 'hdr-' + hdr, 'nrcpt': 1,
                          'script': [['respond', status, REASONS[status], HDRS[hdr]]], 'expect': [e],
                          'single': True, 'reuse': None})
    # X-Smtp-Reply value shapes x status class (on 2xx: delivered; a 4xx/5xx code in the header is ambiguous there)
    for status in (200, 404, 503):
        for name, (hv, e) in HDR_SHAPES.items():
            if 200 <= status < 300:
                e = 'D' if name.startswith('250') else '?'
            cases.append({'kind': 'http', 'stage': 'status%d' % status, 'outcome': 'hdrshape-' + name, 'nrcpt': 1,
                          'script': [['respond', status, REASONS[status], hv]], 'expect': [e], 'single': True,
                          'reuse': None})
    # an interim 100 Continue before the final response
    for status, hdr, e in ((200, '250', 'D'), (503, '450', 'T'), (500, '550', 'P')):
        raw = (b'HTTP/1.1 100 Continue\r\n\r\n' + ('HTTP/1.1 %d %s\r\n' % (status, REASONS[status])).encode() +
               b'Content-Length: 0\r\nX-Smtp-Reply: ' + HDRS[hdr] + b'\r\n\r\n')
        cases.append({'kind': 'http', 'stage': 'interim100+status%d' % status, 'outcome': 'hdr-' + hdr, 'nrcpt': 1,
                      'script': [['raw-respond', raw, status]], 'expect': [e], 'single': True, 'reuse': None})
    # https next hop: the same statuses inside TLS, and the handshake failing in every way
    for status, hdr in ((200, '250'), (204, 'none'), (503, '450'), (500, '550'), (404, 'none')):
        cases.append({'kind': 'http', 'stage': 'https+status%d' % status, 'outcome': 'hdr-' + hdr, 'nrcpt': 1,
                      'script': [['respond', status, REASONS[status], HDRS[hdr]]], 'https': 'ok',
                      'expect': [expect_http(status, hdr)], 'single': True, 'reuse': None})
    for mode, e in (('eof', 'F'), ('stall', 'T'), ('garbage', 'F'), ('cert-untrusted', 'F'), ('plain-http-port', 'F')):
        cases.append({'kind': 'http', 'stage': 'https-handshake', 'outcome': mode, 'nrcpt': 1,
                      'script': [['respond', 200, 'OK', HDRS['250']]], 'https': mode, 'expect': [e], 'single': True,
                      'reuse': None, 'slow': mode in ('stall', 'plain-http-port')})
    cases.append({'kind': 'http', 'stage': 'https+status200', 'outcome': 'hdr-250', 'nrcpt': 1, 'https': 'ok',
                  'script': [['respond', 200, 'OK', HDRS['250']], ['respond', 204, 'No Content', HDRS['250']]],
                  'expect': [['D'], ['D']], 'single': True, 'reuse': 'immediate'})
    for name, act in HTTP_CONN_FAULTS.items():
        for nrcpt in (1, 2):
            cases.append({'kind': 'http', 'stage': 'connection', 'outcome': name, 'nrcpt': nrcpt,
                          'script': [act] if act else [], 'refused': act is None,
                          'expect': ['F' if name == 'error-headers-then-close' else 'T'] * nrcpt,
                          'single': True, 'reuse': None, 'slow': 'stall' in name})
    # connection reuse: first request scripted, second request clean
    firsts = [('status200', 'hdr-250', ['respond', 200, 'OK', HDRS['250']], 'D'),
              ('status204', 'hdr-250', ['respond', 204, 'No Content', HDRS['250']], 'D'),
              ('status503', 'hdr-450', ['respond', 503, 'Service Unavailable', HDRS['450']], 'T'),
              ('status500', 'hdr-550', ['respond', 500, 'Internal Server Error', HDRS['550']], 'P'),
              ('status404', 'hdr-none', ['respond', 404, 'Not Found', None], 'F'),
              ('connection', 'close-before-response', ['close'], 'T'),
              ('connection', 'garbage-status-line', HTTP_CONN_FAULTS['garbage-status-line'], 'T'),
              ('connection', 'stall', ['stall'], 'T')]
    for st, o, act, e in firsts:
        for mode in ('immediate', 'after-idle'):
            cases.append({'kind': 'http', 'stage': st, 'outcome': o, 'nrcpt': 1, 'script': [act, good],
                          'expect': [[e], ['D']], 'single': True, 'reuse': mode, 'slow': 'stall' in o})
    return cases


def exec_http(case, alone=False):
    port, refused_port = _http_server()
    uid = _uid()
    path = '/c11/%d' % uid
    ent = {'script': case['script'], 'requests': []}
    # stall cases wait for the relay's timeout; elsewhere the timeout only bounds a relay that hangs
    T = T_STALL if case.get('slow') else T_ALONE if alone else T_FAST
    context = None
    hs0 = _G.get('https-handshakes', 0)
    if case.get('refused'):
        url = 'http://127.0.0.1:%d%s' % (refused_port, path)
    elif case.get('https'):
        HTTP_TABLE[path] = ent
        mode = case['https']
        tport = port if mode == 'plain-http-port' else \
            _G['https-servers'][mode if mode in ('eof', 'stall', 'garbage') else 'ok'].server_port
        url = 'https://127.0.0.1:%d%s' % (tport, path)
        context = _ctx('client-strict' if mode == 'cert-untrusted' else 'client')
    else:
        HTTP_TABLE[path] = ent
        url = 'http://127.0.0.1:%d%s' % (port, path)
    relay = HttpRelay(url, ehlo_as='me', timeout=T, idle_timeout=0.3 if case.get('reuse') else None, context=context)
    crashes = _own(relay)
    rcpts = ['r%d@h.test' % i for i in range(case['nrcpt'])]
    nmsg = 2 if case.get('reuse') else 1
    expects = case['expect'] if case.get('reuse') else [case['expect']]
    msgs = []
    try:
        for mi in range(nmsg):
            env = make_envelope('s@src.test', rcpts, 'c11-%d-m%d' % (uid, mi))
            before = len(ent['requests'])
            res = run_attempt(relay, env, mi, T)
            gevent.sleep(0)
            acc = set()
            for rq in ent['requests'][before:]:
                if rq['responded'] is not None and 200 <= rq['responded'] < 300:
                    acc.update(rq['rcpts'])
            msgs.append({'label': 'msg%d' % (mi + 1), 'rcpts': rcpts, 'result': res, 'accepted': sorted(acc),
                         'expect': dict(zip(rcpts, expects[mi]))})
            if mi + 1 < nmsg and case['reuse'] == 'after-idle':
                msgs[-1]['went_idle'] = _wait_idle(relay)
    finally:
        gevent.killall(list(relay.pool), block=False)
        HTTP_TABLE.pop(path, None)
        _disown(relay)
    conns = [rq['conn'] for rq in ent['requests']]
    return {'msgs': msgs, 'fired': [0], 'nfaults': 1,
            'log': {'requests': [{k: v for k, v in rq.items() if k != 'conn'} for rq in ent['requests']],
                    'client_greenlets_died_with': list(crashes)},
            'reused': len(conns) > 1 and len(set(conns)) == 1,
            'tls_seen': _G.get('https-handshakes', 0) > hs0}


# ------------------------------------------------------------------------------------------------
# MX relay with a stub resolver (documented hook: DNSResolver.channel)
# ------------------------------------------------------------------------------------------------
Rec = collections.namedtuple('Rec', 'host priority ttl')


class StubChannel(object):
    """pycares-channel-like: answers query(name, type, callback) from a table, asynchronously."""

    def __init__(self):
        self.table = {}           # (lower-cased name, 'MX'|'A') -> list of Rec | errno
        self.queries = []

    def query(self, name, query_type, callback):
        t = {pycares.QUERY_TYPE_MX: 'MX', pycares.QUERY_TYPE_A: 'A'}.get(query_type, str(query_type))
        self.queries.append((name, t))
        ans = self.table.get((name.lower(), t), pycares.errno.ARES_ENOTFOUND)
        gevent.get_hub().loop.run_callback(self._answer, ans, callback)

    @staticmethod
    def _answer(ans, callback):
        if isinstance(ans, int):
            callback(None, ans)
        else:
            callback(list(ans), None)

    def getsock(self):
        return [], []

    def timeout(self, t=None):
        return None

    def process_fd(self, r, w):
        pass

    def cancel(self):
        pass


def _stub_channel():
    if 'dns' not in _G:
        _G['dns'] = StubChannel()
        DNSResolver.channel = _G['dns']
    return _G['dns']


DNS_ERR = {'SERVFAIL': pycares.errno.ARES_ESERVFAIL, 'TIMEOUT': pycares.errno.ARES_ETIMEOUT,
           'REFUSED': pycares.errno.ARES_EREFUSED, 'CONNREFUSED': pycares.errno.ARES_ECONNREFUSED,
           'NOTFOUND': pycares.errno.ARES_ENOTFOUND, 'NODATA': pycares.errno.ARES_ENODATA}


DNS_ERR_ALL = dict(('EOF' if n == 'ARES_EOF' else n[6:], c) for c, n in pycares.errno.errorcode.items()
                   if n.startswith('ARES_E') and isinstance(c, int) and c != 0)


def gen_mx_all():
    cases = []

    def mk(stage, outcome, dns, attempts, expect_host, expect, **kw):
        c = {'kind': 'mx', 'stage': stage, 'outcome': outcome, 'dns': dns, 'attempts': attempts,
             'expect_host': expect_host, 'expect': expect, 'nrcpt': kw.pop('nrcpt', 1), 'single': True,
             'faults': kw.pop('faults', {}), 'rcpt': kw.pop('rcpt', None), 'ttl': kw.pop('ttl', 300)}
        c.update(kw)
        cases.append(c)
    # three MX hosts, priorities given in every order; rotation by attempt number
    prios = [10, 20, 30]
    import itertools
    for perm in itertools.permutations(range(3)):
        for ttl in (300, 0):
            mx = [[prios[k], 'mx%d' % k] for k in perm]          # answer order = perm, sorted order = mx0, mx1, mx2
            mk('mx3', 'order%s-ttl%d' % (''.join(map(str, perm)), ttl), {'MX': mx}, [0, 1, 2, 3, 4, 5],
               ['mx0', 'mx1', 'mx2', 'mx0', 'mx1', 'mx2'], ['D'] * 6, ttl=ttl)
    mk('mx3', 'two-recipients', {'MX': [[20, 'mx1'], [10, 'mx0'], [30, 'mx2']]}, [0, 4], ['mx0', 'mx1'], ['D', 'D'],
       nrcpt=2)
    mk('mx1', 'single-mx', {'MX': [[5, 'mx0']]}, [0, 1, 7], ['mx0'] * 3, ['D'] * 3)
    mk('mx2', 'upper-case-domain', {'MX': [[5, 'mx0'], [1, 'mx1']]}, [0, 1], ['mx1', 'mx0'], ['D', 'D'], upper=True)
    # no MX but an A record: the domain itself is the destination
    for err in ('NODATA', 'NOTFOUND'):
        mk('no-mx-but-a', err, {'MX': err, 'A': [['192.0.2.7']]}, [0, 1], ['@domain', '@domain'], ['D', 'D'])
    # nothing at all => unroutable => permanent
    for e1 in ('NODATA', 'NOTFOUND'):
        for e2 in ('NODATA', 'NOTFOUND'):
            mk('nothing', '%s/%s' % (e1, e2), {'MX': e1, 'A': e2}, [0, 1], [None, None], ['P', 'P'])
    # resolver errors => transient
    for err in ('SERVFAIL', 'TIMEOUT', 'REFUSED', 'CONNREFUSED'):
        mk('resolver-error', 'mx-' + err, {'MX': err}, [0, 1], [None, None], ['T', 'T'])
        mk('resolver-error', 'a-' + err, {'MX': 'NODATA', 'A': err}, [0], [None], ['T'])
    # empty answers without an error
    mk('empty-answer', 'mx-empty/a-none', {'MX': [], 'A': 'NODATA'}, [0], [None], ['P'])
    mk('empty-answer', 'mx-empty/a-present', {'MX': [], 'A': [['192.0.2.7']]}, [0], [None], ['?'])
    mk('empty-answer', 'mx-nodata/a-empty', {'MX': 'NODATA', 'A': []}, [0], [None], ['P'])
    # recipient without a (usable) domain
    mk('no-domain', 'no-at-sign', {}, [0], [None], ['P'], rcpt='postmaster')
    mk('no-domain', 'empty-domain', {}, [0], [None], ['P'], rcpt='user@')
    # downstream faults at the chosen host
    for st, o, e in (('connect', 'refuse', 'T'), ('rcpt0', '550', 'P'), ('rcpt0', '450', 'T'), ('eod0', '554', 'P'),
                     ('banner', 'close', 'T'), ('mail', 'range699', 'T'), ('banner', '554', 'P')):
        f = {'stage': 'connect', 'action': ['refuse'], 'nconnect': 1} if st == 'connect' else fault(st, o)
        mk('mx3+' + st, o, {'MX': [[10, 'mx0'], [20, 'mx1'], [30, 'mx2']]}, [1], ['mx1'], [e],
           faults={'mx1': [f]})
    # ---------------- audit strata ----------------
    mx3 = {'MX': [[20, 'mx1'], [30, 'mx2'], [10, 'mx0']]}
    # fallback over several attempts: hosts fail in different ways, the rotation goes on and wraps around; a
    # fault is scripted for the first connection to a host only, so the wrapped-around attempt succeeds
    refuse = {'stage': 'connect', 'action': ['refuse'], 'nconnect': 1}
    seqs = [('refuse/554-banner/ok', {'mx0': [refuse], 'mx1': [fault('banner', '554')]}, ['T', 'P', 'D', 'D', 'D']),
            ('450-rcpt/close-at-data/550-eod', {'mx0': [fault('rcpt0', '450')], 'mx1': [fault('data', 'close')],
                                               'mx2': [fault('eod0', '550')]}, ['T,D', 'T', 'P', 'D', 'D']),
            ('550-mail/reset-at-banner/ok', {'mx0': [fault('mail', '550')], 'mx1': [fault('banner', 'reset')]},
             ['P', 'T', 'D', 'D', 'D']),
            ('ok/garbage-banner/421-eod', {'mx1': [fault('banner', 'garbage')], 'mx2': [fault('eod0', '421')]},
             ['D', 'T', 'T', 'D', 'D'])]
    for name, ff, exp in seqs:
        for nrcpt in (1, 2):
            mk('mx3-fallback', name + (',2rcpt' if nrcpt == 2 else ''), mx3, [0, 1, 2, 3, 4],
               ['mx0', 'mx1', 'mx2', 'mx0', 'mx1'], exp, faults=ff, nrcpt=nrcpt)
    # force_mx: the forced destination and port are used whatever the resolver would say; domain case-insensitive
    for dns_name, dns in (('mx-present', mx3), ('nothing', {'MX': 'NODATA', 'A': 'NOTFOUND'}),
                          ('resolver-error', {'MX': 'SERVFAIL'})):
        for upper in (False, True):
            mk('force-mx', dns_name + (',upper-case-domain' if upper else ''), dns, [0, 1, 5],
               ['forced'] * 3, ['D'] * 3, force={'host': 'forced', 'port': 2525, 'upper': upper})
    mk('force-mx', 'fault-at-forced-host', mx3, [0, 1], ['forced', 'forced'], ['P', 'D'],
       force={'host': 'forced', 'port': 2525, 'upper': False}, faults={'forced': [fault('rcpt0', '550')]})
    # the resolver's answer changes between attempts (per-attempt tables): nothing is remembered from a failed
    # lookup, and with TTL 0 nothing from a successful one either
    two = {'MX': [[10, 'mx0'], [20, 'mx1']]}
    for err, e in (('SERVFAIL', 'T'), ('TIMEOUT', 'T')):
        mk('dns-changes', '%s-then-mx' % err, None, [0, 1, 2], [None, 'mx1', 'mx0'], [e, 'D', 'D'],
           dns_seq=[{'MX': err}, two, two])
    mk('dns-changes', 'nothing-then-mx', None, [0, 1], [None, 'mx1'], ['P', 'D'],
       dns_seq=[{'MX': 'NODATA', 'A': 'NOTFOUND'}, two])
    mk('dns-changes', 'mx-then-nothing-ttl0', None, [0, 1], ['mx0', None], ['D', 'P'], ttl=0,
       dns_seq=[two, {'MX': 'NOTFOUND', 'A': 'NODATA'}])
    mk('dns-changes', 'mx-then-SERVFAIL-ttl0', None, [0, 1, 2], ['mx0', None, 'mx0'], ['D', 'T', 'D'], ttl=0,
       dns_seq=[two, {'MX': 'SERVFAIL'}, two])
    mk('dns-changes', 'mx-then-other-mx-ttl0', None, [0, 1], ['mx0', 'mx2'], ['D', 'D'], ttl=0,
       dns_seq=[two, {'MX': [[5, 'mx3'], [7, 'mx2']]}])
    mk('dns-changes', 'a-then-mx-ttl0', None, [0, 1], ['@domain', 'mx1'], ['D', 'D'], ttl=0,
       dns_seq=[{'MX': 'NODATA', 'A': [['192.0.2.7']]}, two])
    # several domains through ONE MxSmtpRelay, one after the other and in the other order: every attempt must use
    # the connection its own domain's destination (host, port) names.  dests: 'host:port' -> behaviour
    beh = {'accept': 'D', '550': 'P', '450': 'T'}
    multi = [
        ('forced-same-host-different-ports',
         [{'force': ['h0', 2525]}, {'force': ['h0', 2526]}, {'force': ['h0', 25]}],
         {'h0:2525': 'accept', 'h0:2526': '550', 'h0:25': '450'}),
        ('forced-different-hosts-same-port', [{'force': ['h0', 2525]}, {'force': ['h1', 2525]}],
         {'h0:2525': 'accept', 'h1:2525': '550'}),
        ('forced-vs-resolved-same-host', [{'force': ['h0', 2525]}, {'mx': [[10, 'h0']]}],
         {'h0:2525': '550', 'h0:25': 'accept'}),
        ('forced-vs-resolved-same-host-2', [{'force': ['h0', 587]}, {'mx': [[10, 'h0']]}, {'force': ['h1', 25]}],
         {'h0:587': 'accept', 'h0:25': '450', 'h1:25': '550'}),
        ('resolved-two-domains-same-host', [{'mx': [[10, 'h0']]}, {'mx': [[5, 'h0']]}], {'h0:25': 'accept'}),
        ('resolved-two-domains-overlapping-hosts', [{'mx': [[10, 'h0'], [20, 'h1']]}, {'mx': [[10, 'h1']]}],
         {'h0:25': 'accept', 'h1:25': '550'}),
    ]
    for name, doms, dests in multi:
        n = len(doms)
        for order in ([list(range(n)), list(range(n - 1, -1, -1))] + ([[1, 0, 2], [0, 1, 0, 1]] if n == 3 else [[0, 1, 1, 0]])):
            eh, ep, ex = [], [], []
            for d in order:
                h, prt = doms[d]['force'] if doms[d].get('force') else (sorted(doms[d]['mx'])[0][1], 25)
                eh.append(h)
                ep.append(prt)
                ex.append(beh[dests['%s:%d' % (h, prt)]])
            mk('multi-domain', '%s/order%s' % (name, ''.join(map(str, order))), None, [0] * len(order), eh, ex,
               domains=doms, dests=dests, order=order, expect_port=ep)
    # every other error the resolver library can report is a resolver error => transient
    for name in sorted(DNS_ERR_ALL):
        if name not in ('NODATA', 'NOTFOUND') and name not in DNS_ERR:
            mk('resolver-error', 'mx-' + name, {'MX': name}, [0], [None], ['T'])
            mk('resolver-error', 'a-' + name, {'MX': 'NOTFOUND', 'A': name}, [0], [None], ['T'])
    return cases


def exec_mx_multi(case, alone=False):
    """Several recipient domains through one MxSmtpRelay; one scripted next hop per destination (host, port)."""
    ch = _stub_channel()
    uid = _uid()
    T = T_ALONE if alone else T_FAST
    base = 'd%d.mx.test' % uid
    doms = ['m%d.%s' % (i, base) for i in range(len(case['domains']))]
    dests, seen_addr, keys = {}, [], []

    def hostname(h):
        return '%s.%s' % (h, base)
    scripts = {'accept': {}, '550': {'rcpt0': ('reply', '550')}, '450': {'rcpt0': ('reply', '450')}}

    def creator(address):
        seen_addr.append(address)
        host, port = address[0], address[1]
        short = '%s:%d' % (host[:-len(base) - 1] if host.endswith('.' + base) else host, port)
        if short not in case['dests']:
            raise socket.error(errno.ECONNREFUSED, 'no such scripted destination %r' % (address,))
        if short not in dests:
            dests[short] = Downstream11(script=dict(scripts[case['dests'][short]]))
        return dests[short].creator(address)

    relay = MxSmtpRelay(socket_creator=creator, connect_timeout=T, command_timeout=T, data_timeout=T,
                        ehlo_as='me', context=_ctx('client'))
    for dom, spec in zip(doms, case['domains']):
        if spec.get('force'):
            relay.force_mx(dom, hostname(spec['force'][0]), spec['force'][1])
        else:
            ch.table[(dom, 'MX')] = [Rec(hostname(h), p, 300) for p, h in spec['mx']]
            keys.append((dom, 'MX'))
    msgs = []
    try:
        for i, d in enumerate(case['order']):
            marker = 'c11-%d-a%d' % (uid, i)
            rcpts = ['r0@' + doms[d]]
            env = make_envelope('s@src.test', rcpts, marker)
            n0 = len(seen_addr)
            res = run_attempt(relay, env, case['attempts'][i], T)
            gevent.sleep(0)
            m = {'label': 'attempt#%d(domain%d)' % (i, d), 'marker': marker, 'rcpts': rcpts, 'result': res,
                 'expect': {rcpts[0]: case['expect'][i]}, 'chosen': [list(a) for a in seen_addr[n0:]],
                 'expected_host': hostname(case['expect_host'][i]), 'expected_port': case['expect_port'][i]}
            acc = set()
            for D in dests.values():
                acc.update(D.accepted().get(marker, ()))
            m['accepted'] = sorted(acc)
            # which scripted destination really received this message (by its marker)?
            m['received_by'] = sorted(k for k, D in dests.items() for c in D.conns for t in c.txns
                                      if t['marker'] == marker)
            msgs.append(m)
    finally:
        for r in relay._relayers.values() if hasattr(relay, '_relayers') else ():
            gevent.killall(list(r.pool), block=False)
        for D in dests.values():
            D.kill()
        for k in keys:
            ch.table.pop(k, None)
    return {'msgs': msgs, 'fired': [], 'nfaults': 0,
            'log': {'hosts': {h: _conn_log(D) for h, D in dests.items()}}}


def exec_mx(case, alone=False):
    if case.get('domains'):
        return exec_mx_multi(case, alone)
    ch = _stub_channel()
    uid = _uid()
    T = T_ALONE if alone else T_FAST
    dom = 'd%d.mx.test' % uid
    hosts = {}
    seen_addr = []
    fired_by_host = {}
    names = set([dom])

    def hostname(h):
        return '%s.%s' % (h, dom)

    def install(dns):
        for t in ('MX', 'A'):
            ch.table.pop((dom, t), None)
        for t, ans in dns.items():
            if isinstance(ans, str):
                ch.table[(dom, t)] = DNS_ERR_ALL[ans]
            elif t == 'MX':
                ch.table[(dom, t)] = [Rec(hostname(h), p, case.get('ttl', 300)) for p, h in ans]
                names.update(hostname(h) for p, h in ans)
            else:
                ch.table[(dom, t)] = [Rec(a[0], None, case.get('ttl', 300)) for a in ans]
    if case.get('dns') is not None:
        install(case['dns'])

    def creator(address):
        seen_addr.append(address)
        host = address[0]
        if host not in hosts:
            if host not in names:
                raise socket.error(errno.ECONNREFUSED, 'no such scripted host %r' % (host,))
            short = host[:-len(dom) - 1] if host != dom else '@domain'
            ff = case['faults'].get(short, [])
            D = Downstream11(tcp=any(f['action'][0] == 'reset' for f in ff))
            D.script = make_script(D, ff, fired_by_host.setdefault(short, set()))
            hosts[host] = D
        return hosts[host].creator(address)

    relay = MxSmtpRelay(socket_creator=creator, connect_timeout=T, command_timeout=T, data_timeout=T,
                        ehlo_as='me', context=_ctx('client'))
    force = case.get('force')
    if force:
        names.add(hostname(force['host']))
        relay.force_mx(dom.upper() if force['upper'] else dom, hostname(force['host']), force['port'])
    if case.get('rcpt') is not None:
        rcpts = [case['rcpt']]
    else:
        d = dom.upper() if case.get('upper') else dom
        rcpts = ['r%d@%s' % (i, d) for i in range(case['nrcpt'])]
    msgs = []
    nq0 = len(ch.queries)
    try:
        for i, att in enumerate(case['attempts']):
            marker = 'c11-%d-a%d' % (uid, i)
            env = make_envelope('s@src.test', rcpts, marker)
            if case.get('dns_seq'):
                install(case['dns_seq'][i])
            n0 = len(seen_addr)
            res = run_attempt(relay, env, att, T)
            gevent.sleep(0)
            chosen = seen_addr[n0:]
            exp_host = case['expect_host'][i]
            m = {'label': 'attempt#%d' % att, 'marker': marker, 'rcpts': rcpts, 'result': res,
                 'expect': dict(zip(rcpts, case['expect'][i].split(',') if ',' in case['expect'][i]
                                    else [case['expect'][i]] * len(rcpts))),
                 'chosen': [list(a) for a in chosen],
                 'expected_host': None if exp_host is None else dom if exp_host == '@domain' else hostname(exp_host),
                 'expected_port': force['port'] if force else 25}
            acc = set()
            for D in hosts.values():
                acc.update(D.accepted().get(marker, ()))
            m['accepted'] = sorted(acc)
            msgs.append(m)
    finally:
        for r in relay._relayers.values() if hasattr(relay, '_relayers') else ():
            gevent.killall(list(r.pool), block=False)
        for D in hosts.values():
            D.kill()
        for t in ('MX', 'A'):
            ch.table.pop((dom, t), None)
    nf = sum(len(v) for v in case['faults'].values())
    fired = ['%s#%d' % (h, n) for h, st in sorted(fired_by_host.items()) for n in sorted(st)]
    return {'msgs': msgs, 'fired': fired, 'nfaults': nf,
            'log': {'queries': [list(q) for q in ch.queries[nq0:] if q[0].lower().endswith(dom)][:12],
                    'hosts': {h: _conn_log(D) for h, D in hosts.items()}}}


# ------------------------------------------------------------------------------------------------
# oracle
# ------------------------------------------------------------------------------------------------
EXEC = {'smtp': exec_smtp, 'pipe': exec_pipe, 'http': exec_http, 'mx': exec_mx}


def labels(case):
    kind = case['kind']
    if kind == 'smtp':
        proto = 'lmtp' if case['lmtp'] else 'smtp'
        pl = 'pipelining' if case['pipelining'] else 'no-pipelining'
        fam = '+'.join(stage_family(s) for s in case['stage'].split('+'))
        return proto, fam, case['outcome'], pl
    if kind == 'pipe':
        return 'pipe', case['cls'], case['stage'] + '/' + case['outcome'], '-'
    if kind == 'http':
        return 'http', case['stage'], case['outcome'], '-'
    return 'mx', case['stage'], case['outcome'], '-'


# Recognised root causes: (clause, kind-ish, discriminator) -> mechanism.  Anything else is
# 'unclassified/<clause>/...' with enough structure that two unknown causes do not collapse.
def classify(clause, case, m, extra='', crashes=()):
    k, fam, outcome, pl = labels(case)
    res = m['result']
    # coarse outcome label for causes the classifier does not know (keeps their number of names small)
    if case['kind'] == 'smtp':
        oc = case.get('oclass', outcome)
    elif case['kind'] == 'pipe':
        oc = case['stage']
    elif case['kind'] == 'http':
        oc = outcome if case['stage'] == 'connection' else re.sub(r'^(hdr-(?:\d\d\d|none|unparsable)).*$', r'\1', outcome)
    else:
        oc = re.sub(r'[-/].*$', '', outcome)
    if clause == 'type':
        exc = res.get('type', '?')
        if res['end'] == 'raised-other':
            if exc == 'ValueError' and 'ENHANCEDSTATUSCODES' in res.get('repr', ''):
                return 'type/%s/enhanced-status-code-in-the-reply-text->ValueError' % (
                    'smtp+lmtp' if k in ('smtp', 'lmtp', 'mx') else k)
            if k in ('smtp', 'lmtp', 'mx') and exc == 'ValueError' and 'Invalid SMTP reply code' in res.get('repr', ''):
                return 'type/smtp/out-of-range-reply-code->ValueError'
            if k in ('smtp', 'lmtp') and exc == 'UnicodeEncodeError' and case.get('nonascii') is not None:
                return 'type/smtp/non-ascii-address-without-SMTPUTF8->UnicodeEncodeError'
            if k == 'pipe' and exc == 'TypeError' and case['cls'] == 'maildrop':
                return 'type/pipe/maildrop-nonzero-exit->TypeError'
            if k == 'pipe' and exc == 'UnicodeDecodeError' and case['cls'].startswith('pipe-'):
                return 'type/pipe/non-utf8-program-output->UnicodeDecodeError'
            if k == 'pipe' and exc == 'TypeError' and case['cls'] == 'dovecot':
                return 'type/pipe/dovecot-nonzero-exit-with-output->TypeError'
            return 'unclassified/type/%s/%s/%s/raised-%s' % (k, fam, oc, exc)
        if res['end'] == 'returned-error-object':
            if k == 'pipe' and case['cls'] in ('pipe-single', 'maildrop'):
                return 'type/pipe/single-mode-returns-error-object-instead-of-raising'
            return 'unclassified/type/%s/%s/%s/returned-error-object' % (k, fam, oc)
        return 'unclassified/type/%s/%s/%s/%s' % (k, fam, oc, extra or res['end'])
    if clause == 'ends':
        if k in ('smtp', 'lmtp') and case['pipelining'] and any(
                stage_family(f['stage']) == 'eod' and (f['action'][0] == 'stall' or (
                    f['action'][0] == 'raw' and not f['action'][1].endswith(b'\n') and len(f['action']) == 2))
                for f in case['faults']):
            return 'attempt-does-not-end/smtp/eod-reply-never-arrives/pipelining'
        if k == 'http':
            died = sorted(set(crashes))
            if died == ['ValueError'] and 'unparsable-999' in outcome:
                return 'attempt-does-not-end/http/X-Smtp-Reply-out-of-range-code->ValueError'
            if died == ['AttributeError'] and outcome.endswith('-command'):
                return 'attempt-does-not-end/http/X-Smtp-Reply-command-param->AttributeError'
            if died == ['ResponseNotReady'] and case.get('reuse') and m['label'] == 'msg2':
                return 'attempt-does-not-end/http/reused-connection-previous-response-unread->ResponseNotReady'
            if died and all(d in ('ConnectionRefusedError', 'RemoteDisconnected', 'BadStatusLine', 'ConnectionResetError',
                                  'IncompleteRead', 'BrokenPipeError', 'LineTooLong') for d in died) \
                    and case['stage'] == 'connection':
                return 'attempt-does-not-end/http/socket-or-protocol-error-kills-client-greenlet'
            if not died and 'stall' in outcome:
                return 'attempt-does-not-end/http/timeout-swallowed-result-never-set'
            return 'unclassified/attempt-does-not-end/http/%s/%s/%s' % (case['stage'], outcome, '+'.join(died) or '-')
        return 'unclassified/attempt-does-not-end/%s/%s/%s/%s' % (k, fam, oc, pl)
    if clause == 'safety':
        if k in ('smtp', 'lmtp'):
            wc = set(f['stage'] for f in case['faults'] if f['action'][0].startswith('reply') and f['action'][1][0] in '13'
                     and stage_family(f['stage']) in ('rcpt', 'eod'))
            if 'rcpt' + extra in wc:         # this recipient's own RCPT was answered 1xx/3xx
                return 'unsafe-delivered/smtp+lmtp/rcpt-reply-1xx-or-3xx-taken-as-accepted'
            if any(st.startswith('eod') for st in wc):
                return 'unsafe-delivered/smtp+lmtp/eod-reply-1xx-or-3xx-taken-as-accepted'
        if k == 'pipe' and extra.isdigit() and case['cls'] in PIPE_CLASSES:
            behs = case['behs']
            b = behs[0] if case['cls'] in ('pipe-single', 'maildrop') else behs[int(extra)]
            if len(b) > 4 and b[4] and b[4] != 'NONE':
                return 'unsafe-delivered/pipe/child-killed-by-signal-reported-delivered'
        return 'unclassified/unsafe-delivered/%s/%s/%s' % (k, fam, oc)
    if clause == 'class':
        if k == 'http' and outcome.startswith('hdrshape-') and '-text-' in outcome and 'HTTP request failed' in str(res['per']):
            return 'wrong-class/http/X-Smtp-Reply-message-text-makes-the-parse-fail->reported-as-transient'
        if k in ('smtp', 'lmtp') and case['stage'] == 'rcpt-all-mixed':
            return 'wrong-class/smtp+lmtp/every-rcpt-refused-with-differing-classes->all-get-the-first-reply'
        if k == 'http' and outcome.endswith('-command') and "no attribute 'decode'" in str(res['per']):
            return 'wrong-class/http/X-Smtp-Reply-command-param->AttributeError-reported-as-transient'
        return 'unclassified/wrong-class/%s/%s/%s/%s' % (k, fam, oc, extra)
    if clause == 'complete':
        if k == 'http' and 'unparsable-999' in outcome:
            return 'accepted-but-reported-failed/http/X-Smtp-Reply-out-of-range-code'
        return 'unclassified/accepted-but-reported-failed/%s/%s/%s' % (k, fam, oc)
    if clause == 'mx-host':
        return 'unclassified/mx-host-choice/%s' % fam
    return 'unclassified/%s/%s/%s/%s' % (clause, k, fam, outcome)


def judge(case, obs, R=None):
    """-> list of (mechanism, what, witness).  Pure function of (case, obs); R only receives counters."""
    V = []
    k, fam, outcome, pl = labels(case)
    all_fired = len(obs['fired']) >= obs['nfaults']
    single = case.get('single', True)

    def cnt(name, n=1):
        if R is not None:
            R.count(name, n)

    def hit(name, n=1):
        if R is not None:
            R.hit(name, n)
    for mi, m in enumerate(obs['msgs']):
        res, acc, exp = m['result'], set(m['accepted']), m['expect']
        wit = {'message': m['label'], 'recipients': m['rcpts'], 'relay_outcome': res,
               'downstream_accepted': sorted(acc), 'expected': exp, 'script_faults_fired': obs['fired'],
               'downstream_log': obs['log']}
        for extra_key in ('chosen', 'expected_host', 'went_idle'):
            if extra_key in m:
                wit[extra_key] = m[extra_key]
        tag = '%s %s %s %s nrcpt=%d%s %s' % (k, case['stage'], outcome, pl, len(m['rcpts']),
                                            (' reuse=%s' % case['reuse']) if case.get('reuse') else '', m['label'])
        hit('%s-attempt-judged' % k)
        hit('watchdog-armed')
        if mi == 1 and case.get('reuse'):
            hit('reuse-second-message-judged')
        if res['end'] == 'hang':
            V.append((classify('ends', case, m, crashes=obs['log'].get('client_greenlets_died_with', ())),
                      'attempt() still blocked after %.1fs = %dx the configured timeout [%s]'
                      % (res['watchdog_s'], round(1.5 * K), tag), wit))
            continue
        if res['end'] in ('raised-other', 'returned-error-object', 'returned-bad-type'):
            what = {'raised-other': 'attempt() raised %s, not a RelayError: %s',
                    'returned-error-object': 'attempt() RETURNED a %s object instead of raising it: %s',
                    'returned-bad-type': 'attempt() returned a %s: %s'}[res['end']] % (res.get('type'),
                                                                                    res.get('repr'))
            V.append((classify('type', case, m), what + ' [%s]' % tag, wit))
            continue
        per = res['per']
        hit('usable-result-checked')
        for u in res.get('unusable') or ():
            V.append(('unusable-result/%s/%s' % (k, u['what']),
                      'the result for %s cannot be used by the queue: %s (value %s, reply %s) [%s]'
                      % (u['who'], u['what'], u['value'], u['reply'], tag), wit))
        if res.get('missing'):
            V.append((classify('type', case, m, 'mapping-misses-recipient'),
                      'result mapping has no entry for %s [%s]' % (res['missing'], tag), wit))
        reported_bad = False
        for r in m['rcpts']:
            if r not in per:
                continue
            v = per[r]['v']
            if v.startswith('bad'):
                V.append((classify('type', case, m, 'mapping-value-' + per[r]['type']),
                          'per-recipient result for %s is a %s: %s [%s]' % (r, per[r]['type'], per[r].get('repr'), tag),
                          wit))
                reported_bad = True
                continue
            # SAFETY
            hit('delivered-vs-accepted-compared')
            cnt('comparisons/reported-%s/downstream-%s' % ('delivered' if v == 'D' else 'failed',
                                                         'accepted' if r in acc else 'not-accepted'))
            if v == 'D' and r not in acc:
                V.append((classify('safety', case, m, extra=str(m['rcpts'].index(r))),
                          '%s reported delivered (%s) but the downstream never positively accepted it [%s]'
                          % (r, per[r].get('repr', per[r]['type']), tag), wit))
                continue
            e = exp.get(r, '?')
            if not single or e == '?':
                continue
            if not all_fired:
                cnt('fault-not-reached/%s/%s' % (k, fam))
                continue
            if e == 'D':
                hit('complete-judged')
                if r in acc and v != 'D':
                    V.append((classify('complete', case, m),
                              '%s was accepted by the downstream and nothing in the script fails afterwards, but the '
                              'relay reports %s (%s) [%s]' % (r, per[r]['type'], per[r].get('repr'), tag), wit))
                elif r not in acc:
                    V.append(('inconclusive', 'expected-acceptance-did-not-happen/%s/%s/%s' % (k, fam, outcome), wit))
            elif e == 'F':
                hit('failure-required-judged')     # v is T or P here (D without acceptance was caught by SAFETY)
                if v == 'D':
                    V.append(('inconclusive', 'failing-script-but-downstream-accepted/%s/%s/%s' % (k, fam, outcome),
                              wit))
            else:
                hit('class-judged')
                if v == 'D':
                    V.append(('inconclusive', 'failing-script-but-downstream-accepted/%s/%s/%s' % (k, fam, outcome),
                              wit))
                elif v != e:
                    V.append((classify('class', case, m, 'expected-%s-got-%s' % (e, v)),
                              '%s: script demands a %s failure, relay reports %s (%s) [%s]'
                              % (r, {'T': 'transient', 'P': 'permanent'}[e], per[r]['type'], per[r].get('repr'), tag),
                              wit))
        # MX: the host that was contacted
        if case['kind'] == 'mx' and not reported_bad:
            eh = m.get('expected_host')
            hosts = [a[0] for a in m.get('chosen', [])]
            if eh is not None:
                hit('mx-host-choice-checked')
                if hosts[:1] != [eh]:
                    V.append((classify('mx-host', case, m),
                              'attempt number %s must go to %s (%s) but the relay '
                              'connected to %s [%s]' % (m['label'], eh, 'the forced destination' if case.get('force')
                                                        else 'sorted by priority, attempts mod n', hosts, tag), wit))
                elif m['chosen'][0][1] != m.get('expected_port', 25):
                    V.append((classify('mx-host', case, m),
                              'attempt number %s must go to port %s but the relay connected to %s [%s]'
                              % (m['label'], m.get('expected_port'), m['chosen'][0], tag), wit))
            elif hosts and exp and list(exp.values())[0] in ('P', 'T'):
                V.append((classify('mx-host', case, m), 'unroutable / failed lookup but the relay connected to %s [%s]'
                          % (hosts, tag), wit))
    return V


# ------------------------------------------------------------------------------------------------
# case generation
# ------------------------------------------------------------------------------------------------
def nt_key(case):
    k, fam, outcome, pl = labels(case)
    return (k, case['stage'], outcome, pl, case.get('nrcpt'), case.get('cls'), case.get('reuse'),
            (case.get('tls') or {}).get('required'))


def is_nontrivial(case):
    if case['kind'] == 'smtp':
        return bool(case['faults']) or bool(case.get('nontrivial'))
    if case['kind'] == 'pipe':
        return any(b[0] != 0 or b[3] or len(b) > 4 for b in case['behs'])
    if case['kind'] == 'http':
        return not (case['stage'] in ('status200', 'status204') and case['outcome'] in ('hdr-250', 'hdr-none')
                    and not case.get('reuse'))
    return not (case['stage'] == 'mx1')


def all_cases(tier, seed):
    rnd = random.Random('c11-%s-%d' % (tier, seed))
    smtp = gen_smtp_all(rnd, NMULTI[tier], full=(tier == 'thorough'))
    others = gen_pipe_all() + gen_http_all() + gen_mx_all()
    return vary_reply_texts(smtp + others, random.Random('c11-texts-%s-%d' % (tier, seed)))


def gen_cases(tier, seed, shard, nshards):
    cases = all_cases(tier, seed)
    mine = [c for i, c in enumerate(cases) if i % nshards == shard]
    by_kind = collections.OrderedDict()
    for c in mine:
        by_kind.setdefault(c['kind'], []).append(c)
    for kind, lst in by_kind.items():
        n = BATCH[kind]
        for i in range(0, len(lst), n):
            yield {'batch': lst[i:i + n]}


# ------------------------------------------------------------------------------------------------
# run
# ------------------------------------------------------------------------------------------------
def _report(case, obs, V, R):
    for mech, what, wit in V:
        if mech == 'inconclusive':
            R.inconclusive(what)
        else:
            R.violation(mech, what, wit)


def strata(case, obs):
    """Names of the audit strata this (executed) case belongs to -- counted only when the downstream log shows
    that the scripted behaviour really happened."""
    kind, st, oc, out = case['kind'], case['stage'], case['outcome'], []
    fired = bool(obs['fired']) or not obs['nfaults']
    if kind == 'smtp':
        acts = [f['action'] for f in case['faults']]
        tls = case.get('tls') or {}
        if obs.get('reset_seen') and obs.get('tcp'):
            out.append('tcp-reset-by-next-hop')
        if case.get('oclass') == 'ok-variant' and fired:
            out.append('positive-reply-variant')
        if fired and any(a[0] == 'reply-ml' or (a[0] == 'chunks' and a[2][0] == 'reply-ml') for a in acts):
            out.append('multi-line-reply')
        if fired and any(a[0] == 'chunks' for a in acts):
            out.append('segmented-reply')
        if (fired and any(f['stage'] == 'tlshandshake' for f in case['faults'])) or tls.get('strict'):
            out.append('tls-handshake-failure')
        if tls.get('immediately') and (obs.get('tls_seen') or 'tls-' in oc):
            out.append('tls-immediately')
        if st.startswith('tls+') and obs.get('tls_seen') and fired:
            out.append('fault-inside-tls-session')
        if case.get('lenient') and obs.get('empty_data_seen'):
            out.append('empty-message-owed-after-refusal')
        if case.get('no8bitmime'):
            out.append('8bit-message-for-7bit-next-hop')
        if case.get('oclass') == 'attribution' and len(obs['fired']) >= 2:
            out.append('two-recipient-faults-attribution')
        if str(case.get('oclass')).startswith('okvar-eod/') and len(obs['fired']) >= obs['nfaults']:
            out.append('non-250-acceptance-x-end-of-data-outcome')
            if case.get('reuse') and obs.get('reused'):
                out.append('non-250-acceptance-then-second-message-on-the-connection')
    if case.get('texts') and fired:
        out.append('reply-text-variant')
    if kind == 'mx':
        name = {'mx3-fallback': 'mx-fallback-sequence', 'force-mx': 'mx-forced-destination',
                'dns-changes': 'mx-resolver-answer-changes',
                'multi-domain': 'mx-several-domains-through-one-relay'}.get(st)
        if name:
            out.append(name)
    elif kind == 'http':
        if obs.get('tls_seen'):
            out.append('https-session')
        if st == 'https-handshake':
            out.append('https-handshake-failure')
        if re.match(r'^status3\d\d$', st) and obs['log']['requests'] and obs['log']['requests'][0]['responded']:
            out.append('http-3xx-status')
        if st.startswith('interim100'):
            out.append('http-interim-100')
        if oc.startswith('hdrshape-') and obs['log']['requests'] and obs['log']['requests'][0]['responded']:
            out.append('http-reply-header-shape')
        if 'reset' in oc:
            out.append('tcp-reset-by-next-hop')
    elif kind == 'pipe':
        if st.startswith('stdin-not-read') and obs['log']['started']:
            out.append('pipe-stdin-not-read')
        if case.get('text_variant') and obs['log']['started']:
            out.append('pipe-output-text-variant')
    return out


def _account(case, obs, R):
    k, fam, outcome, pl = labels(case)
    for name in strata(case, obs):
        R.hit('stratum/' + name)
    for name in case.get('texts') or ():
        R.observe('reply-text-variant', (k, name))
    R.eval(len(obs['msgs']))
    R.count('cases/' + case['kind'])
    R.count('attempts/' + k, len(obs['msgs']))
    R.observe('stage-x-outcome', (k, fam, outcome))
    R.observe('stage-x-outcome-class', (k, fam, case.get('oclass', outcome)))
    R.observe('configuration', nt_key(case))
    if is_nontrivial(case):
        R.nontrivial(nt_key(case))
    if obs.get('tls_seen'):
        R.hit('tls-negotiated-downstream')
    if obs.get('timeout_hit_early'):
        R.count('pipe-mix/timeout-expired-before-the-sleeping-program-started')
    if obs.get('reused'):
        R.hit('connection-reused/' + case['kind'])
    for m in obs['msgs']:
        R.observe('outcome-shape', (k, m['result']['end'], m['result'].get('shape'),
                                    tuple(sorted(set(p['v'] for p in m['result']['per'].values())))))
        R.count('ends/' + m['result']['end'])


def run_one(case, R, obs=None):
    """Execute alone (or take a screened observation), judge, report."""
    if obs is None:
        obs = EXEC[case['kind']](case, alone=True)
    _account(case, obs, R)
    V = judge(case, obs, R)
    _report(case, obs, V, R)
    return obs, V


def run_case(case, R):
    if 'batch' not in case:
        obs, V = run_one(case, R)
        if is_nontrivial(case):
            R.sample({'case': {k: v for k, v in case.items() if k != 'expect'}, 'expect': case['expect'],
                      'outcomes': [(m['label'], m['result']['end'], {r: p['v'] for r, p in m['result']['per'].items()},
                                    m['accepted']) for m in obs['msgs']]})
        return
    batch = case['batch']
    # the sweep driver counted the batch as one case; account every member, and make each member the
    # recorder's current case while it is judged so that witnesses / replay files hold that member alone
    R.cases += len(batch) - 1
    crashes0 = dict(_G['crashes'])
    slots = [None] * len(batch)

    def work(i, sub):
        try:
            slots[i] = ('ok', EXEC[sub['kind']](sub))
        except Exception as e:            # harness problem, never a verdict
            import traceback
            slots[i] = ('err', traceback.format_exc(limit=5)[-400:])
    gs = [gevent.spawn(work, i, sub) for i, sub in enumerate(batch)]
    gevent.joinall(gs)
    for i, sub in enumerate(batch):
        R._case = sub
        st, obs = slots[i] if slots[i] else ('err', 'no result')
        if st != 'ok':
            R.inconclusive('harness-exception: ' + str(obs)[-300:])
            continue
        V1 = judge(sub, obs, None)
        if not V1:
            _account(sub, obs, R)
            judge(sub, obs, R)
            if is_nontrivial(sub) and (sub.get('reuse') or sub['kind'] != 'smtp' or i % 7 == 0):
                R.sample({'case': {k: v for k, v in sub.items() if k != 'expect'}, 'expect': sub['expect'],
                          'outcomes': [(m['label'], m['result']['end'],
                                        {r: p['v'] for r, p in m['result']['per'].items()}, m['accepted'])
                                       for m in obs['msgs']]})
            continue
        # something to report: the isolated re-execution is authoritative -- until the same mechanism has been
        # confirmed alone CONFIRM_EACH times in this shard; further batch sightings of it are then reported as seen
        conf = _G.setdefault('confirmed', collections.Counter())
        mechs1 = set(mech for mech, _, _ in V1)
        if 'inconclusive' not in mechs1 and all(conf[mech] >= CONFIRM_EACH for mech in mechs1):
            R.count('batch-sightings-of-confirmed-mechanisms')
            _account(sub, obs, R)
            _report(sub, obs, judge(sub, obs, R), R)
            continue
        R.count('isolated-confirmations')
        try:
            obs2, V2 = run_one(sub, R)
        except Exception:
            import traceback
            R.inconclusive('harness-exception: ' + traceback.format_exc(limit=5)[-300:])
            continue
        for mech in set(mech for mech, _, _ in V2):
            conf[mech] += 1
        def names(V):
            return set((mech + ':' + '/'.join(what.split('/')[:2])) if mech == 'inconclusive' else mech for mech, what, _ in V)
        lost = names(V1) - names(V2)
        for mech in sorted(lost):
            # The isolated execution is the verdict on this case.  A batch-only sighting that a late timer can
            # explain (watchdog, a relay timeout firing on a busy hub => transient instead of the scripted
            # outcome) is a false positive of the screen: counted.  One that timing cannot explain (delivered
            # without acceptance, wrong exception / result type) is kept as inconclusive.
            part = mech.split('/')
            clause = part[1] if part[0] == 'unclassified' else part[0]
            R.count('screen-only-sighting/' + mech)
            if clause.startswith(('unsafe-delivered', 'type')):
                R.inconclusive('seen-in-batch-not-reproduced-alone/' + clause)
    for name, n in _G['crashes'].items():
        d = n - crashes0.get(name, 0)
        if d:
            R.count('relay-greenlet-died-with/' + name, d)
