"""C12 -- a queued message is attempted when due, never early, never forgotten; flush returns.

Real Queue under QueueLab with a virtual clock, so due times are compared exactly.
Oracle (offline over the timed log):
  early              attempt_start(m) at t < due(m) with no flush since due(m) was set
  due-not-attempted  full quiescence with now >= due(m), m stored and known to the queue,
                     no attempt started since due(m) was set
  forgotten          drained history (every timer fired, nothing parked): still stored
  flush-blocked      flush() has not returned at the next full quiescence
  flush-did-not-attempt  a message waiting at flush time not attempted by the next full quiescence
"""
import random

from vf import queuelab as L
from vf import qlchecks as C

PROPERTY = 'C12'
LEVEL = 'exploration'
LEVEL_TEXT = ('Real slimta Queue scheduler loop (timetable, wake event, lock, bounded/unbounded pools) on dict, '
              'disk, redis and cloud backends under a virtual clock and a seeded controlled schedule: enqueue, '
              'relay completions with transient failures, timer expiry (incl. backoff 0 and equal due times), '
              'flush(), start-up load of pre-existing messages, wait() announcements. Timing clauses are exact '
              '(virtual time); liveness is restated as bounded progress at full quiescence. Held = held on the '
              'schedules reported, not all schedules.')
LEVEL_NOTE = ('Trusted: virtual clock shim (time() and timed Event.wait of slimta.queue only; set/clear/untimed waits '
              'and the semaphore are gevent\'s own), quiescence detection, scripted relay, backend doubles. '
              '"due" is read at the storage boundary (write / set_timestamp arguments).')
TECHNIQUE = 'runtime monitoring: timed trace on a virtual clock judged by an exact due-time / bounded-progress oracle under a controlled greenlet schedule'
RULE = ('case = one seeded schedule (config + PRNG seed => decision list) over backend x pools x backoff table x '
        'flush/load/announce mix. non-trivial = schedule with >= 1 transient failure followed by a timer expiry, or a '
        'flush / start-up load / wait() announcement while >= 1 message is waiting; distinct by (backend, outcome-shape, '
        'kinds of scheduler actions used, pool config)')
ASSUMPTIONS = ['a message that waits for a pool slot the harness itself is occupying is never judged (full quiescence only)',
               'liveness restated: after every timer has been fired and nothing is in flight nothing may remain stored']
REQUIRED_HITS = ['attempt-outcomes-observed', 'histories-judged', 'timer-expiries', 'full-quiescence-checkpoints']
SHARDS = {'quick': 12, 'thorough': 16}
BUDGET = {'quick': 70, 'thorough': 800}

BACKENDS = C.BACKENDS_ALL


def gen_cases(tier, seed, shard, nshards):
    rnd = random.Random('c12-%d-%d' % (seed, shard))
    plan = C.backend_plan(9000 if tier == 'quick' else 250000, BACKENDS)
    for be in BACKENDS:
        for i in range(max(1, plan[be] // nshards)):
            cfg = {'backend': be,
                   'profile': rnd.choice([['temp', 'temp', 'ok'], ['temp', 'ok', 'map'], ['temp', 'exc', 'ok', 'perm'],
                                          ['temp', 'temp', 'temp', 'ok']]),
                   'rcpt_profile': ['ok', 'temp', 'temp'],
                   'backoffs': rnd.choice([[0, 5, None], [5, 5, 5, None], [10, 0, None], [7, 7, 7, 7, None],
                                           [0, 0, 0, None], [3, 0, 9, None], [5, None]]),
                   'rcpts': (1, 3), 'nmsg': rnd.randint(1, 4),
                   'store_pool': rnd.choice([None, None, None, None, 1, 2, 3]),
                   'relay_pool': rnd.choice([None, None, None, None, 1, 2]),
                   'gate_p': rnd.choice([0.0, 0.2, 0.4]), 'flush_p': rnd.choice([0, 0.15, 0.4]),
                   'synth_wait': rnd.random() < 0.5, 'announce_p': 0.3, 'extwrite_p': rnd.choice([0, 0.3]),
                   'prepop': rnd.choice([0, 0, 2, 4]), 'race_start': rnd.random() < 0.2,
                   'bounce_none_p': 1.0,     # bounces are C13's business; keep the timetable about the originals
                   'steps': rnd.choice([25, 45])}
            yield {'cfg': cfg, 'seed': rnd.randrange(1 << 40)}


def _hits(lab, H, R):
    R.hit('timer-expiries', sum(1 for d in lab.decisions if d[0] == 'advance' and d[1] is not None))
    R.hit('full-quiescence-checkpoints', sum(1 for e in lab.events if e[1] == 'fullq'))
    R.count('flush-calls', sum(1 for e in lab.events if e[1] == 'flush_call'))
    R.count('flush-returns', sum(1 for e in lab.events if e[1] == 'flush_ret'))
    R.count('load-entries', sum(1 for e in lab.events if e[1] == 'store' and e[2] == 'load_entry'))
    R.count('wait-announcements-consumed', sum(1 for e in lab.events if e[1] == 'store' and e[2] == 'wait'))


def _nontrivial(lab, H):
    temp_then_timer = False
    seen_temp = False
    for e in lab.events:
        if e[1] == 'attempt_end' and any(c in 'TX' for c, _ in e[5].values()):
            seen_temp = True
    if seen_temp and any(d[0] == 'advance' and d[1] is not None for d in lab.decisions):
        temp_then_timer = True
    acts = set(d[0] for d in lab.decisions)
    special = acts & {'flush', 'announce', 'extwrite'}
    if lab.cfg.get('prepop'):
        special.add('load')
    if temp_then_timer or special:
        return (C.shape_of(lab), tuple(sorted(special)), temp_then_timer)
    return None


def _classify(lab, H, kind, m, d):
    be = lab.cfg.get('backend')
    crash = L.crash_tag(lab)
    rp = lab.cfg.get('relay_pool') is not None
    id = H.sid(d.get('id') or H.m2id.get(m)) if (d.get('id') or H.m2id.get(m)) else None
    # ---- recognised root causes (each needs its own positive evidence in the trace)
    if m is not None and C.outran_enqueue(lab, H, m):
        return 'self-announcement-outran-enqueue/%s' % be
    if kind in ('forgotten', 'due-not-attempted', 'flush-blocked', 'flush-did-not-attempt') \
            and C.pool_cycle_deadlock(lab):
        return 'store-pool<->relay-pool-cycle-deadlock'
    if kind in ('early', 'due-not-attempted') and id is not None and crash == 'no-crash':
        upto = lab.events.index(d['attempt']) if kind == 'early' else len(lab.events)
        if C.stale_notice(lab, H, id, upto):
            return 'stale-wait-announcement-shadows-retry-entry'
    # ---- anything else: name it by what was observed
    sp = lab.cfg.get('store_pool') is not None
    return '%s/%s/%s/%s-store-pool%s' % (kind, be, crash, 'bounded' if sp else 'unbounded',
                                         ',bounded-relay-pool' if rp else '')


def run_case(case, R):
    C.run_lab_case(case, R, L.judge_c12, _classify, _nontrivial, _hits)


def shard_cleanup():
    C.cleanup()
