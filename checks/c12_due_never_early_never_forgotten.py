"""C12 -- a queued message is attempted when due, never early, never forgotten; flush returns.

Real Queue under QueueLab with a virtual clock, so due times are compared exactly.
Oracle (offline over the timed log):
  early              attempt_start(m) at t < due(m) with no flush since due(m) was set
  due-not-attempted  full quiescence with now >= due(m), m stored and known to the queue,
                     no attempt started since due(m) was set
  forgotten          drained history (every timer fired, nothing parked): still stored
  flush-blocked      flush() has not returned at the next full quiescence
  flush-did-not-attempt  a message waiting at flush time not attempted by the next full quiescence (flush called
                     at full quiescence; or -- histories that gate load() only -- while load() is streaming, for ids
                     already listed, never attempted and present in the queue's timetable at the call)
  due-earlier/later-than-backoff-choice  the due time written with set_timestamp lies outside
                     [end of the failed attempt + wait, instant of the write + wait] (later only if in the future)
"""
import random

from vf import queuelab as L
from vf import qlchecks as C

PROPERTY = 'C12'
LEVEL = 'exploration'
LEVEL_TEXT = ('Real slimta Queue scheduler loop (timetable, wake event, lock, bounded/unbounded pools) on dict, '
              'disk, redis and cloud backends under a virtual clock and a seeded controlled schedule: enqueue, '
              'relay completions with transient failures, timer expiry (incl. backoff 0 and equal due times), '
              'flush(), start-up load of pre-existing messages, wait() announcements; timers that fire late (clock '
              'already past several due times); fractional, negative and very large backoff values; flush() while '
              'load() is still streaming; 20..30 messages due at the same instant under bounded pools. Timing '
              'clauses are exact '
              '(virtual time); liveness is restated as bounded progress at full quiescence. Held = held on the '
              'schedules reported, not all schedules.')
LEVEL_NOTE = ('Trusted: virtual clock shim (time() and timed Event.wait of slimta.queue only; set/clear/untimed waits '
              'and the semaphore are gevent\'s own), quiescence detection, scripted relay, backend doubles. '
              '"due" is read at the storage boundary (write / set_timestamp arguments).')
TECHNIQUE = 'runtime monitoring: timed trace on a virtual clock judged by an exact due-time / bounded-progress oracle under a controlled greenlet schedule'
RULE = ('case = one seeded schedule (config + PRNG seed => decision list) over backend x pools x backoff table x '
        'flush/load/announce mix. non-trivial = schedule with >= 1 transient failure followed by a timer expiry, or a '
        'flush / start-up load / wait() announcement while >= 1 message is waiting; distinct by (backend, outcome-shape, '
        'kinds of scheduler actions used, pool config)')
ASSUMPTIONS = ['a message that waits for a pool slot the harness itself is occupying is never judged (full quiescence only)',
               'liveness restated: after every timer has been fired and nothing is in flight nothing may remain stored']
REQUIRED_HITS = ['attempt-outcomes-observed', 'histories-judged', 'timer-expiries', 'full-quiescence-checkpoints',
                 'flush-while-load-streaming-judged', 'announcement-of-listed-id-while-load-streaming',
                 'burst-20-equal-due-bounded-pool', 'big-backlog-histories-judged', 'late-timer-steps',
                 'non-integer-or-negative-waits']
SHARDS = {'quick': 12, 'thorough': 16}
BUDGET = {'quick': 70, 'thorough': 800}

BACKENDS = C.BACKENDS_ALL


def gen_cases(tier, seed, shard, nshards):
    rnd = random.Random('c12-%d-%d' % (seed, shard))
    plan = C.backend_plan(18000 if tier == 'quick' else 250000, BACKENDS)
    # the small deciding strata come first: a budget cut on a loaded machine must not starve them
    # ---- flush() while load() is still streaming: only the listing is gated (between two entries), so that the
    # set of messages certainly waiting at flush time is known although the harness holds something back
    nfl = (1300 if tier == 'quick' else 30000)
    for be in ('disk', 'redis', 'cloud', 'cloud-lenient', 'cloud-mq'):
        for i in range(max(1, int(nfl / 5.0 / C.WEIGHT[be]) // nshards)):
            cfg = {'backend': be, 'stratum': 'flush-in-load',
                   'profile': rnd.choice([['temp', 'temp', 'ok'], ['temp', 'ok']]), 'rcpt_profile': ['ok', 'temp'],
                   'backoffs': rnd.choice([[5, 5, None], [0, 5, None], [3, None]]),
                   'rcpts': (1, 2), 'nmsg': rnd.randint(0, 2), 'prepop': rnd.randint(4, 10),
                   'prepop_offsets': rnd.choice([[5.0, 5.0, 10.0, 60.0], [-1.0, 5.0, 60.0], [60.0]]),
                   'store_pool': rnd.choice([None, None, 1, 2, 3]), 'relay_pool': rnd.choice([None, None, None, 1, 2]),
                   'gate_p': rnd.choice([0.5, 0.8]), 'gate_ops': ['load'], 'flush_p': 1.0, 'race_start': True,
                   'synth_wait': rnd.random() < 0.3, 'announce_p': 0.2, 'bounce_none_p': 1.0, 'steps': 30}
            yield {'cfg': cfg, 'seed': rnd.randrange(1 << 40)}
    # ---- a stored message read early by the start-up listing ALSO reaches the queue by another route (wait()
    # announcement of the same id) while the listing still streams, fails transiently and is re-queued far in the
    # future before the listing ends; no flush (a flush would excuse an early attempt). Only the listing is gated.
    nal = (1300 if tier == 'quick' else 30000)
    for be in ('disk', 'redis', 'cloud', 'cloud-lenient', 'cloud-mq'):
        for i in range(max(1, int(nal / 5.0 / C.WEIGHT[be]) // nshards)):
            cfg = {'backend': be, 'stratum': 'announce-in-load',
                   'profile': rnd.choice([['temp'], ['temp', 'temp', 'exc']]), 'rcpt_profile': ['temp'],
                   'backoffs': rnd.choice([[300, 300, None], [50, 500, None], [120, None]]),
                   'rcpts': (1, 2), 'nmsg': rnd.randint(0, 1), 'prepop': rnd.randint(4, 9),
                   'prepop_offsets': rnd.choice([[-100.0, -1.0], [-1.0, -1.0, 3600.0], [-5.0]]),
                   'store_pool': rnd.choice([None, None, None, 2, 3]), 'relay_pool': rnd.choice([None, None, None, 2]),
                   'gate_p': rnd.choice([0.6, 0.9]), 'gate_ops': ['load'], 'flush_p': 0, 'race_start': True,
                   'synth_wait': True, 'announce_p': 0.9, 'bounce_none_p': 1.0, 'steps': 40,
                   'hold_clock_in_load': rnd.random() < 0.8}
            yield {'cfg': cfg, 'seed': rnd.randrange(1 << 40)}
    # ---- a large start-up backlog (hundreds of stored messages, beyond any batching / yielding threshold of the
    # loader) with enqueues and due messages being delivered and removed while the listing is still running
    nbb = (36 if tier == 'quick' else 480)
    for be in ('dict', 'dict', 'dict', 'cloud-lenient'):
        for i in range(max(1, nbb // 4 // nshards)):
            cfg = {'backend': be, 'stratum': 'big-backlog',
                   'profile': rnd.choice([['ok', 'ok', 'temp'], ['ok']]), 'rcpt_profile': ['ok', 'temp'],
                   'backoffs': rnd.choice([[5, None], [0, 5, None]]),
                   'rcpts': (1, 1), 'nmsg': rnd.randint(1, 3), 'prepop': rnd.choice([258, 270, 300]),
                   'prepop_offsets': rnd.choice([[-1.0, 60.0, 60.0, 60.0], [60.0], [-1.0, -1.0, 3600.0]]),
                   'store_pool': rnd.choice([None, None, 4]), 'relay_pool': rnd.choice([None, None, 8]),
                   'gate_p': 0.0, 'flush_p': rnd.choice([0, 0.2]), 'race_start': True,
                   'synth_wait': rnd.random() < 0.3, 'announce_p': 0.2, 'bounce_none_p': 1.0,
                   'steps': 25, 'drain_rounds': 1200}
            yield {'cfg': cfg, 'seed': rnd.randrange(1 << 40)}
    # ---- many messages due at the same instant, bounded pools: _check_ready / flush() block in Pool.spawn
    # with most of the cut still to hand over while finished attempts re-queue
    nbu = (900 if tier == 'quick' else 20000)
    for be in BACKENDS:
        for i in range(max(1, int(nbu / 6.0 / (6 * C.WEIGHT[be])) // nshards)):
            n = rnd.randint(20, 30)
            cfg = {'backend': be, 'stratum': 'burst',
                   'profile': rnd.choice([['temp', 'temp', 'ok'], ['temp', 'ok', 'ok']]), 'rcpt_profile': ['ok', 'temp'],
                   'backoffs': rnd.choice([[5, 5, None], [0, 5, None], [7, None]]),
                   'rcpts': (1, 1), 'nmsg': rnd.choice([0, 0, 3]), 'prepop': n,
                   'prepop_offsets': rnd.choice([[5.0], [0.0], [-1.0], [5.0, 5.0, 5.0, 6.0]]),
                   'gate_p': rnd.choice([0.0, 0.2]), 'flush_p': rnd.choice([0, 0.2]),
                   'overshoot_p': rnd.choice([0, 0.3]), 'bounce_none_p': 1.0, 'steps': 90, 'drain_rounds': 600}
            # mostly one bounded pool: with both bounded and this many messages the recorded pool-cycle
            # deadlock is nearly certain and would be all such a history can show
            mode = rnd.choice(['store', 'store', 'relay', 'relay', 'both'])
            cfg['store_pool'] = rnd.choice([1, 2, 3, 5]) if mode in ('store', 'both') else None
            cfg['relay_pool'] = rnd.choice([1, 2, 4]) if mode in ('relay', 'both') else None
            yield {'cfg': cfg, 'seed': rnd.randrange(1 << 40)}
    # ---- bulk: seeded schedules
    for be in BACKENDS:
        for i in range(max(1, plan[be] // nshards)):
            cfg = {'backend': be,
                   'profile': rnd.choice([['temp', 'temp', 'ok'], ['temp', 'ok', 'map'], ['temp', 'exc', 'ok', 'perm'],
                                          ['temp', 'temp', 'temp', 'ok']]),
                   'rcpt_profile': ['ok', 'temp', 'temp'],
                   'backoffs': rnd.choice([[0, 5, None], [5, 5, 5, None], [10, 0, None], [7, 7, 7, 7, None],
                                           [0, 0, 0, None], [3, 0, 9, None], [5, None],
                                           # a backoff function may return any number
                                           [0.25, 1.0 / 3, 0.1, None], [-3, 5, -0.5, None], [1e9, 0.5, 2 ** 40, None],
                                           [2.5, 2.5, 2.5, None]]),
                   'rcpts': (1, 3), 'nmsg': rnd.randint(1, 4),
                   'store_pool': rnd.choice([None, None, None, None, 1, 2, 3]),
                   'relay_pool': rnd.choice([None, None, None, None, 1, 2]),
                   'gate_p': rnd.choice([0.0, 0.2, 0.4]), 'flush_p': rnd.choice([0, 0.15, 0.4]),
                   'synth_wait': rnd.random() < 0.5, 'announce_p': 0.3, 'extwrite_p': rnd.choice([0, 0.3]),
                   'prepop': rnd.choice([0, 0, 2, 4]), 'race_start': rnd.random() < 0.2,
                   'prepop_offsets': rnd.choice([None, [-100.0, -1.0, 0.0, 5.0, 5.0, 10.0, 0.1, 1.0 / 3, 4.999]]),
                   'overshoot_p': rnd.choice([0, 0.3, 0.6]),
                   'bounce_none_p': 1.0,     # bounces are C13's business; keep the timetable about the originals
                   'pool_objects': rnd.random() < 0.25,
                   'steps': rnd.choice([25, 45])}
            if cfg['prepop_offsets'] is None:
                del cfg['prepop_offsets']
            yield {'cfg': cfg, 'seed': rnd.randrange(1 << 40)}


def _hits(lab, H, R):
    R.hit('timer-expiries', sum(1 for d in lab.decisions if d[0] == 'advance' and d[1] is not None))
    R.hit('full-quiescence-checkpoints', sum(1 for e in lab.events if e[1] == 'fullq'))
    # flush() called between a load() entry and the end of the listing, in a history where that is judged
    loading, n, nent = False, 0, 0
    for e in lab.events:
        if e[1] == 'store' and e[2] == 'load_entry':
            loading = True
        elif e[1] == 'store' and e[2] == 'load_done':
            loading = False
        elif e[1] == 'flush_call' and loading and not e[3] and lab.cfg.get('gate_ops') == ['load']:
            n += 1
            nent += len(e[4] or ()) if len(e) > 4 else 0
    R.hit('flush-while-load-streaming-judged', n)
    if lab.cfg.get('stratum') == 'big-backlog':
        R.hit('big-backlog-histories-judged')
        R.count('big-backlog-load-entries', sum(1 for e in lab.events if e[1] == 'store' and e[2] == 'load_entry'))
    # a wait() announcement of an id the start-up listing has already yielded, consumed before the listing ended
    listed, loading, nann = set(), False, 0
    for e in lab.events:
        if e[1] == 'store' and e[2] == 'load_entry':
            loading = True
            listed.add(H.sid(e[3]))
        elif e[1] == 'store' and e[2] == 'load_done':
            loading = False
        elif e[1] == 'store' and e[2] == 'wait' and loading:
            nann += sum(1 for x in e[3] if H.sid(x[1]) in listed)
    R.hit('announcement-of-listed-id-while-load-streaming', nann)
    R.count('timetable-entries-at-flush-while-load-streaming', nent)
    # largest group of stored messages sharing one due instant, with at least one bounded pool
    import collections
    due = {}
    big = 0
    for e in lab.events:
        if e[1] == 'prepop':
            due[H.sid(e[3])] = e[4]
        elif e[1] == 'store' and e[2] == 'write':
            due[H.sid(e[5])] = e[4]
        elif e[1] == 'store' and e[2] == 'set_timestamp':
            due[H.sid(e[3][0])] = e[3][1]
        elif e[1] == 'store' and e[2] == 'remove':
            due.pop(H.sid(e[3][0]), None)
        elif e[1] == 'attempt_start' and due:
            big = max(big, max(collections.Counter(due.values()).values()))
    if big >= 20 and (lab.cfg.get('store_pool') is not None or lab.cfg.get('relay_pool') is not None):
        R.hit('burst-20-equal-due-bounded-pool')
    if big >= 20:
        R.count('histories-with-20+-messages-due-at-one-instant')
    R.hit('non-integer-or-negative-waits', sum(1 for e in lab.events if e[1] == 'backoff' and e[4] is not None
                                                 and (e[4] != int(e[4]) or e[4] < 0 or e[4] >= 1e9)))
    R.hit('late-timer-steps', sum(1 for d in lab.decisions if d[0] == 'overshoot'))
    R.count('flush-calls', sum(1 for e in lab.events if e[1] == 'flush_call'))
    R.count('flush-returns', sum(1 for e in lab.events if e[1] == 'flush_ret'))
    R.count('load-entries', sum(1 for e in lab.events if e[1] == 'store' and e[2] == 'load_entry'))
    R.count('wait-announcements-consumed', sum(1 for e in lab.events if e[1] == 'store' and e[2] == 'wait'))


def _nontrivial(lab, H):
    temp_then_timer = False
    seen_temp = False
    for e in lab.events:
        if e[1] == 'attempt_end' and any(c in 'TX' for c, _ in e[5].values()):
            seen_temp = True
    if seen_temp and any(d[0] == 'advance' and d[1] is not None for d in lab.decisions):
        temp_then_timer = True
    acts = set(d[0] for d in lab.decisions)
    special = acts & {'flush', 'announce', 'extwrite'}
    if lab.cfg.get('prepop'):
        special.add('load')
    if temp_then_timer or special:
        return (C.shape_of(lab), tuple(sorted(special)), temp_then_timer)
    return None


def _classify(lab, H, kind, m, d):
    be = lab.cfg.get('backend')
    crash = L.crash_tag(lab)
    rp = lab.cfg.get('relay_pool') is not None
    id = H.sid(d.get('id') or H.m2id.get(m)) if (d.get('id') or H.m2id.get(m)) else None
    # ---- recognised root causes (each needs its own positive evidence in the trace)
    if m is not None and C.outran_enqueue(lab, H, m):
        return 'self-announcement-outran-enqueue/%s' % be
    if kind in ('forgotten', 'due-not-attempted', 'flush-blocked', 'flush-did-not-attempt') \
            and C.pool_cycle_deadlock(lab):
        return 'store-pool<->relay-pool-cycle-deadlock'
    if kind in ('early', 'due-not-attempted') and id is not None and crash == 'no-crash':
        upto = lab.events.index(d['attempt']) if kind == 'early' else len(lab.events)
        if C.stale_notice(lab, H, id, upto):
            return 'stale-wait-announcement-shadows-retry-entry'
    # ---- anything else: name it by what was observed
    sp = lab.cfg.get('store_pool') is not None
    return '%s/%s/%s/%s-store-pool%s' % (kind, be, crash, 'bounded' if sp else 'unbounded',
                                         ',bounded-relay-pool' if rp else '')


def run_case(case, R):
    C.run_lab_case(case, R, L.judge_c12, _classify, _nontrivial, _hits)


def shard_cleanup():
    C.cleanup()
