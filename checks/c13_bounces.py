"""C13 -- failed mail yields exactly one bounce per distinct failure reply; bounces never loop.

Real Queue + real Bounce under QueueLab. Oracle: reference grouping computed from the
relay probe's own outcome log (one expected bounce per (failure event, reply) group, to the
original sender, naming exactly that group's recipients), compared as multisets with the
bounces the Queue produced; content checks on what reached bounce_queue.enqueue (null
sender, addressee, reply quoted, recipients named, original header block -- and body unless
headers-only -- embedded byte-identically); no bounce for a null-sender message (so no
bounce of a bounce); bounded message creation.
"""
import random

from vf import queuelab as L
from vf import qlchecks as C

PROPERTY = 'C13'
LEVEL = 'exploration'
LEVEL_TEXT = ('Real slimta Queue + Bounce on all backends through failure-heavy seeded histories: per-recipient '
              'permanent failures with equal and different replies, whole-message permanent failures, retry '
              'exhaustion with grouped transient replies and after unexpected exceptions, bounces that themselves '
              'fail or exhaust, 8-bit bodies, up to 20 recipients, bounce factories returning None, headers-only '
              'bounces, a separate bounce queue. Expected bounces are derived from what the relay probe reported, '
              'independently of the Queue\'s grouping code. Held = held on the histories reported.')
LEVEL_NOTE = 'Trusted: relay probe outcome log, the reference grouping (40 lines), virtual clock, backend doubles.'
TECHNIQUE = 'runtime monitoring: multiset comparison of observed bounce envelopes against a reference grouping of the recorded failure events, plus content and no-loop invariants'
RULE = ('case = one seeded failure-heavy history. non-trivial = history with >= 2 distinct failure replies in one '
        'failure event, or a bounce that itself fails; distinct by (backend, outcome-shape, bounce configuration)')
ASSUMPTIONS = ['"one bounce per distinct failure reply" is judged per failure event (one attempt\'s permanent failures, '
               'or one exhaustion), as the Queue has no memory across events']
REQUIRED_HITS = ['attempt-outcomes-observed', 'histories-judged', 'bounces-observed']
SHARDS = {'quick': 12, 'thorough': 16}
BUDGET = {'quick': 70, 'thorough': 800}

BACKENDS = C.BACKENDS_ALL


def gen_cases(tier, seed, shard, nshards):
    rnd = random.Random('c13-%d-%d' % (seed, shard))
    plan = C.backend_plan(8000 if tier == 'quick' else 220000, BACKENDS)
    for be in BACKENDS:
        for i in range(max(1, plan[be] // nshards)):
            big = rnd.random() < 0.1
            cfg = {'backend': be,
                   'profile': rnd.choice([['perm', 'map', 'map', 'temp', 'exc'], ['map', 'seq', 'map'],
                                          ['temp', 'temp', 'map'], ['perm', 'seq', 'exc']]),
                   'rcpt_profile': rnd.choice([['perm', 'perm', 'temp', 'ok'], ['perm', 'temp'], ['perm', 'perm', 'ok'],
                                               ['temp', 'temp', 'ok']]),
                   'nreplies': rnd.choice([1, 2, 3]),
                   'bounce_profile': rnd.choice([['ok'], ['perm', 'temp', 'ok'], ['perm', 'perm'], ['temp', 'temp', 'exc']]),
                   'backoffs': rnd.choice([[None], [0, None], [0, 0, None], [3, None]]),
                   'rcpts': (12, 20) if big else (1, 5), 'nmsg': rnd.randint(1, 2), 'null_sender_p': 0.15,
                   'store_pool': rnd.choice([None, None, None, 2]), 'relay_pool': rnd.choice([None, None, None, 2]),
                   'gate_p': rnd.choice([0.0, 0.25]),
                   'bounce_none_p': rnd.choice([0, 0, 0.3]), 'headers_only': rnd.random() < 0.25,
                   'sep_bounce_queue': rnd.choice([False, False, False, False, False, 'relay', 'relay', 'store-only']),
                   'body': rnd.choice([None, b'caf\xc3\xa9 \xff\xfe 8-bit body\r\n.\r\nline\r\n', b'']),
                   'ndom': rnd.choice([1, 3]), 'steps': rnd.choice([20, 30])}
            yield {'cfg': cfg, 'seed': rnd.randrange(1 << 40)}


def _hits(lab, H, R):
    R.hit('bounces-observed', sum(1 for e in lab.events if e[1] == 'bounce_enqueued'))
    R.count('bounce-factory-calls', sum(1 for e in lab.events if e[1] == 'bounce_factory'))
    R.count('bounces-that-failed', sum(1 for e in lab.events if e[1] == 'attempt_end' and e[2].startswith('b')
                                       and any(c != 'D' for c, _ in e[5].values())))


def _nontrivial(lab, H):
    multi = False
    for e in lab.events:
        if e[1] == 'attempt_end' and e[4] in ('map', 'seq') and not e[2].startswith('b'):
            reps = set(rep for c, rep in e[5].values() if c == 'P')
            if len(reps) >= 2:
                multi = True
    failing_bounce = any(e[1] == 'attempt_end' and e[2].startswith('b') and any(c != 'D' for c, _ in e[5].values())
                         for e in lab.events)
    if multi or failing_bounce:
        return (C.shape_of(lab), bool(lab.cfg.get('headers_only')), bool(lab.cfg.get('sep_bounce_queue')),
                multi, failing_bounce)
    return None


def _classify(lab, H, kind, m, d):
    be = lab.cfg.get('backend')
    crash = L.crash_tag(lab)
    if kind == 'bounce-not-handed-to-configured-bounce-queue':
        return 'bounce-enqueued-on-delivery-queue-although-separate-bounce-queue-configured'
    if m is not None and C.outran_enqueue(lab, H, m):
        return 'self-announcement-outran-enqueue/%s' % be
    if C.pool_cycle_deadlock(lab):
        return 'store-pool<->relay-pool-cycle-deadlock'
    last = None
    for e in lab.events:
        if e[1] == 'attempt_end' and e[2] == m:
            last = e[4]
    return '%s/%s/%s/last-outcome=%s' % (kind, be, crash, last)


def run_case(case, R):
    C.run_lab_case(case, R, L.judge_c13, _classify, _nontrivial, _hits)


def shard_cleanup():
    C.cleanup()
