"""C13 -- failed mail yields exactly one bounce per distinct failure reply; bounces never loop.

Real Queue + real Bounce under QueueLab. Oracle: reference grouping computed from the
relay probe's own outcome log (one expected bounce per (failure event, reply) group, to the
original sender, naming exactly that group's recipients), compared as multisets with the
bounces the Queue produced; content checks on what reached bounce_queue.enqueue (null
sender, addressee, reply quoted, recipients named, original header block -- and body unless
headers-only -- embedded byte-identically: the bounce is parsed, the original must be the whole
content of its last part; with a harness-chosen custom template the whole body is compared with an
independent rendering); over the whole history a recipient is named in at most one bounce of its
message and never once the relay probe recorded it delivered; no bounce for a null-sender message
(so no bounce of a bounce); bounded message creation.
"""
import random

from vf import queuelab as L
from vf import qlchecks as C

PROPERTY = 'C13'
LEVEL = 'exploration'
LEVEL_TEXT = ('Real slimta Queue + Bounce on all backends through failure-heavy seeded histories: per-recipient '
              'permanent failures with equal and different replies, whole-message permanent failures, retry '
              'exhaustion with grouped transient replies and after unexpected exceptions, bounces that themselves '
              'fail or exhaust, 8-bit bodies, up to 20 recipients, bounce factories returning None, headers-only '
              'bounces, a separate bounce queue. Expected bounces are derived from what the relay probe reported, '
              'independently of the Queue\'s grouping code. A content stratum varies the original (8-bit / NUL / '
              'dot-leading / bare-LF bodies, 3000-byte lines, no trailing newline, empty body; folded, 8-bit and '
              '1200-byte header fields), the reply text (braces that look like template keys, non-ASCII), non-ASCII '
              'recipient addresses, headers-only both ways and custom header/footer templates given as text or '
              'bytes with a custom recipient join: with the default template the bounce is parsed (report parts name '
              'exactly the failed recipients once each and quote the reply; the last part is exactly the original '
              'header block, plus body unless headers-only); with a harness-chosen template the whole bounce body '
              'is compared byte for byte with an independent rendering. Over the whole history a recipient is '
              'named in at most one bounce of its message and never after the relay probe recorded it delivered. '
              'Held = held on the histories reported.')
LEVEL_NOTE = 'Trusted: relay probe outcome log, the reference grouping (40 lines), virtual clock, backend doubles.'
TECHNIQUE = 'runtime monitoring: multiset comparison of observed bounce envelopes against a reference grouping of the recorded failure events, plus content and no-loop invariants'
RULE = ('case = one seeded failure-heavy history. non-trivial = history with >= 2 distinct failure replies in one '
        'failure event, or a bounce that itself fails; distinct by (backend, outcome-shape, bounce configuration)')
ASSUMPTIONS = ['"one bounce per distinct failure reply" is judged per failure event (one attempt\'s permanent failures, '
               'or one exhaustion), as the Queue has no memory across events']
REQUIRED_HITS = ['attempt-outcomes-observed', 'histories-judged', 'bounces-observed',
                 'bounce-content-judged/default-template', 'bounce-content-judged/custom-template',
                 'bounce-content-judged/headers-only', 'bounce-content-judged/8bit-or-odd-original']
SHARDS = {'quick': 12, 'thorough': 16}
BUDGET = {'quick': 70, 'thorough': 800}

BACKENDS = C.BACKENDS_ALL


def gen_cases(tier, seed, shard, nshards):
    rnd = random.Random('c13-%d-%d' % (seed, shard))
    plan = C.backend_plan(20000 if tier == 'quick' else 220000, BACKENDS)
    # the content stratum comes first: a budget cut on a loaded machine must not starve it
    for case in _content_cases(tier, random.Random('c13c-%d-%d' % (seed, shard)), nshards):
        yield case
    for be in BACKENDS:
        for i in range(max(1, plan[be] // nshards)):
            big = rnd.random() < 0.1
            cfg = {'backend': be,
                   'profile': rnd.choice([['perm', 'map', 'map', 'temp', 'exc'], ['map', 'seq', 'map'],
                                          ['temp', 'temp', 'map'], ['perm', 'seq', 'exc']]),
                   'rcpt_profile': rnd.choice([['perm', 'perm', 'temp', 'ok'], ['perm', 'temp'], ['perm', 'perm', 'ok'],
                                               ['temp', 'temp', 'ok']]),
                   'nreplies': rnd.choice([1, 2, 3]),
                   # results that say nothing about some recipient: the queue makes up the reply itself
                   'map_omit_p': rnd.choice([0, 0, 0.4]), 'seq_len_p': rnd.choice([0, 0, 0.3]),
                   'bounce_profile': rnd.choice([['ok'], ['perm', 'temp', 'ok'], ['perm', 'perm'], ['temp', 'temp', 'exc']]),
                   'backoffs': rnd.choice([[None], [0, None], [0, 0, None], [3, None], 'default']),
                   'rcpts': (12, 20) if big else (1, 5), 'nmsg': rnd.randint(1, 3), 'null_sender_p': 0.15,
                   'store_pool': rnd.choice([None, None, None, 2]), 'relay_pool': rnd.choice([None, None, None, 2]),
                   'gate_p': rnd.choice([0.0, 0.25]),
                   'bounce_none_p': rnd.choice([0, 0, 0.3]), 'headers_only': rnd.random() < 0.25,
                   'sep_bounce_queue': rnd.choice([False, False, False, False, False, 'relay', 'relay', 'store-only']),
                   'body': rnd.choice([None, b'caf\xc3\xa9 \xff\xfe 8-bit body\r\n.\r\nline\r\n', b'']),
                   'ndom': rnd.choice([1, 3]), 'steps': rnd.choice([20, 30])}
            yield {'cfg': cfg, 'seed': rnd.randrange(1 << 40)}


BODIES = [None, b'', b'x', b'no trailing newline', b'a\nb\n', b'\r\n\r\n', b'.\r\n..\r\n.', b'\x00\xff\xfe\r\n',
          b'L' * 3000 + b'\r\n', b'caf\xc3\xa9 \xff\xfe 8-bit body\r\n.\r\nline\r\n',
          b'--boundary_=00000000000000000000000000000000--\r\nContent-Type: message/rfc822\r\n\r\n- r0.m0@d0.test\r\n']
HDRS = [None, b'X-8bit: caf\xc3\xa9 \xff\r\n', b'X-Fold: a\r\n folded\r\n\tmore\r\n', b'X-Long: ' + b'y' * 1200 + b'\r\n',
        b'X-Words: ' + b'w ' * 300 + b'\r\n', b'Content-Type: text/plain; charset="utf-8"\r\nContent-Transfer-Encoding: 8bit\r\n']


def _content_cases(tier, rnd, nshards):
    n = (2400 if tier == 'quick' else 60000) // nshards
    for i in range(max(1, n)):
        tpl = rnd.choice([None, None, None, 'text', 'bytes', 'nofooter'])
        cfg = {'backend': rnd.choice(['dict', 'dict', 'cloud', 'cloud-lenient', 'cloud-mq'] + (['disk'] if i % 12 == 0 else [])),
               'stratum': 'content',
               'profile': rnd.choice([['perm', 'map', 'map', 'temp'], ['map', 'seq'], ['perm', 'temp']]),
               'rcpt_profile': rnd.choice([['perm', 'perm', 'temp', 'ok'], ['perm', 'temp'], ['perm', 'ok']]),
               'nreplies': rnd.choice([1, 2, 3]), 'bounce_profile': ['ok'],
               'backoffs': rnd.choice([[None], [0, None]]),
               'rcpts': (12, 20) if rnd.random() < 0.1 else (1, 5), 'nmsg': rnd.randint(1, 2), 'null_sender_p': 0.05,
               'headers_only': rnd.random() < 0.5, 'body': rnd.choice(BODIES), 'extra_hdr': rnd.choice(HDRS),
               'bounce_tpl': tpl, 'reply_style': rnd.choice([None, 'hostile']),
               'rcpt_style': rnd.choice([None, 'utf8']) if tpl is None else None,
               'dup_rcpts': 1 if rnd.random() < 0.1 else 0,
               'sep_bounce_queue': rnd.choice([False, False, 'relay']), 'ndom': rnd.choice([1, 3]), 'steps': 18}
        yield {'cfg': cfg, 'seed': rnd.randrange(1 << 40)}


def _hits(lab, H, R):
    nb = sum(1 for e in lab.events if e[1] == 'bounce_enqueued' and e[2] is not None)
    if nb:
        cfg = lab.cfg
        R.hit('bounce-content-judged/%s-template' % ('custom' if cfg.get('bounce_tpl') else 'default'), nb)
        if cfg.get('headers_only'):
            R.hit('bounce-content-judged/headers-only', nb)
        if cfg.get('body') is not None or cfg.get('extra_hdr'):
            R.hit('bounce-content-judged/8bit-or-odd-original', nb)
        for k in ('reply_style', 'rcpt_style', 'bounce_tpl'):
            if cfg.get(k):
                R.count('bounces/%s=%s' % (k, cfg[k]), nb)
    R.hit('bounces-observed', sum(1 for e in lab.events if e[1] == 'bounce_enqueued'))
    R.count('bounce-factory-calls', sum(1 for e in lab.events if e[1] == 'bounce_factory'))
    R.count('bounces-that-failed', sum(1 for e in lab.events if e[1] == 'attempt_end' and e[2].startswith('b')
                                       and any(c != 'D' for c, _ in e[5].values())))


def _nontrivial(lab, H):
    multi = False
    for e in lab.events:
        if e[1] == 'attempt_end' and e[4] in ('map', 'seq') and not e[2].startswith('b'):
            reps = set(rep for c, rep in e[5].values() if c == 'P')
            if len(reps) >= 2:
                multi = True
    failing_bounce = any(e[1] == 'attempt_end' and e[2].startswith('b') and any(c != 'D' for c, _ in e[5].values())
                         for e in lab.events)
    if multi or failing_bounce:
        return (C.shape_of(lab), bool(lab.cfg.get('headers_only')), bool(lab.cfg.get('sep_bounce_queue')),
                multi, failing_bounce)
    return None


def _classify(lab, H, kind, m, d):
    be = lab.cfg.get('backend')
    crash = L.crash_tag(lab)
    if kind == 'bounce-not-handed-to-configured-bounce-queue':
        return 'bounce-enqueued-on-delivery-queue-although-separate-bounce-queue-configured'
    if m is not None and C.outran_enqueue(lab, H, m):
        return 'self-announcement-outran-enqueue/%s' % be
    if C.pool_cycle_deadlock(lab):
        return 'store-pool<->relay-pool-cycle-deadlock'
    last = None
    for e in lab.events:
        if e[1] == 'attempt_end' and e[2] == m:
            last = e[4]
    return '%s/%s/%s/last-outcome=%s' % (kind, be, crash, last)


def run_case(case, R):
    C.run_lab_case(case, R, L.judge_c13, _classify, _nontrivial, _hits)


def shard_cleanup():
    C.cleanup()
