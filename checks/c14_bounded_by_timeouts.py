"""C14 -- no peer can hold a server session or a delivery attempt beyond its configured timeouts.

Every case runs the REAL slimta code against a peer that stops cooperating at one stall point:

  server   slimta.smtp.server.Server.handle() on one end of a gevent socketpair (real TLS where the stall
           point needs it); the harness is the client and goes silent / leaves a line unfinished /
           trickles at the stall point.
  edge     the same through slimta.edge.smtp.SmtpEdge.handle(), i.e. including what the edge does after
           Server.handle() returns (closing the session).
  relay    StaticSmtpRelay / StaticLmtpRelay (connect/command/data timeout = T) against the scripted next
           hop vf.c14_downstream.Downstream14 that stalls / sends half a reply line / trickles a reply at
           one stage (connect .. quit, TLS handshakes, PIPELINING on/off, 1-2 recipients).
  pipe     PipeRelay / MaildropRelay / DovecotLdaRelay (timeout=T) with a /bin/sh stub that never ends.
  http     HttpRelay (timeout=T) against a loopback gevent StreamServer that never answers / answers half; and
           connection re-use (idle_timeout set): message 1 answered with complete headers and a body that is
           complete / never finished / trickled / short-then-closed, then message 2 on the same connection with the
           server answering / silent / trickling.
  re-use   SMTP/LMTP with idle_timeout: message 1 succeeds, the next hop goes silent at MAIL / end-of-data of
           message 2 on the same connection, or sends half a line unasked while idle (_check_server_timeout probe).
           A re-use case in which a second connection was opened is 'stall-stage-not-reached', never a verdict.
  probe    the same probe before the FIRST MAIL (idle_timeout None and set): after the EHLO/LHLO reply was consumed
           the next hop pushes, as a segment of its own, an unsolicited reply it never finishes ('421 ... clos'
           without CRLF; '421-' continuation lines without a last line).  Judged only if the probe's
           has_reply_waiting() saw the fragment (an observer wrapped around the client's _check_server_timeout
           notes that); if a later read got it: 'stall-stage-not-reached', re-run, never a verdict.

Audit strata (send side, other blocking points, which timeout governs):
  write    a client that does not READ: Server on a socketpair whose server end has a 4 KB SO_SNDBUF (and over TLS,
           and SmtpEdge behind a real loopback TCP listener with small buffers); the harness pipelines NOOPs in one
           segment and never reads, so the flush of a reply blocks in send(); calibrated variants make the blocked
           write the 421 after a command timeout, the 354 to DATA, the 250 after end-of-data.  Where the session is
           parked (IO.raw_send / IO.raw_recv) is read off its greenlet frame.  Only 'the session ends' is demanded
           (a 421 cannot be delivered).  Control: a reader that is merely slow (T/2) gets its 221.
  proxy    OBSERVED, NOT JUDGED (counters unjudged/edge-proxy/<version>/<pattern>/<outcome>): (ProxyProtocolV1 | V2 |
           ProxyProtocol, SmtpEdge)(command_timeout=T).handle() whose PROXY header never comes / stops half-way /
           trickles.  The header is read before any SMTP session exists and no configured timeout is documented to
           govern it, so the property (server *session*, relay attempts) demands nothing here.  Judged control: header
           in two halves T/2 apart, then EHLO, must succeed.
  wsgi     OBSERVED, NOT JUDGED (unjudged/edge-wsgi/...): WsgiEdge behind its gevent.pywsgi server, request headers
           with a Content-Length whose body never arrives; WsgiEdge takes no timeout argument.
  relay    next hop that stops reading the message after 354 (300 KB through a 4 KB SO_SNDBUF socketpair; thorough
           also 4 MB through default buffers): the client is seen blocked in IO.raw_send before the chain starts;
           EHLO -> 500 -> HELO stalled; every recipient refused yet DATA answered 354 (end of the empty message
           stalled); LMTP RSET after a per-recipient failure; idle_timeout=T itself (client gone after idle T plus a
           QUIT that is or is not answered; HTTP: idle connection closed).
  tls-idle encrypted re-used connection (STARTTLS, and tls_immediately): message 1 is delivered, then -- at the instant the
           client starts its has_reply_waiting() probe for message 2, the one client call the relay makes outside any
           Timeout scope -- the next hop writes BELOW the TLS layer (it does its TLS with ssl.MemoryBIO/SSLObject on the
           raw socket, vf.c14_downstream.BioTlsSocket): part of a record header / a header only / header + part of the
           body of an application-data record, 1-4 bytes of garbage, a clear-text line (not a record), or one complete
           valid NON-application record (a TLS 1.3 post-handshake CertificateRequest, which the client's TLS layer
           consumes and answers without handing anything up) -- then silence.  Attempt 2 must end with a transient
           failure within the chain.  'fd readable' is not 'application data available' on TLS.
  default  relay given NO TLS context (the default of StaticSmtpRelay / StaticLmtpRelay): SMTP and LMTP, STARTTLS and
  context  tls_immediately, next hop silent after 220 / after accept, trickling ServerHello bytes, or completing the
           handshake with the (untrusted) test certificate.  Each case is ONE attempt in a CHILD PROCESS
           (vf/c14_default_ctx_child.py, judged inside by the same timer chain): a handshake on a non-cooperative SSL
           socket freezes the whole process, so only the parent's subprocess timeout can see it -- child killed while
           the same scenario with an explicit vf.tls context finishes => 'whole-process-stalled'; both slow =>
           inconclusive.  Two explicit-context cases run always, as controls of the child harness.
  single   Server / SmtpEdge (and the relays) configured with command_timeout ONLY (data_timeout left out: documented
  timeout  to default to the command timeout): stalls / trickles inside DATA and after end-of-data judged as usual.
           Mirror (data_timeout only): DATA phase judged; the command phase has nothing configured to bound it --
           observed (unjudged/<driver>-data-timeout-only/...), never judged.
  split    'which timeout governs': only the timeout documented for the stalled step is T, the others are 1000 s
           (relay: connect -> connect_timeout; command replies, STARTTLS handshake, AUTH -> command_timeout;
           message send and end-of-data reply -> data_timeout; banner and immediate-TLS handshake: connect and
           command both T, the documentation does not say; server: DATA phase -> data_timeout, else command_timeout).
  http     request body (6 MB) to a server that never reads; connect() that never completes (accept queue full,
           SYNs dropped); https: server never handshakes / handshakes, reads the request, then goes deaf.  After
           every judged attempt the client greenlet (pool_size=1: the only pool slot) must be gone too.
  pipe     stub that reads the message, exits 0 at once, and leaves a grandchild holding its stdout / stderr.
  mx-dns   MxSmtpRelay whose MX query is never answered, through a c-ares-like stub channel (DNSResolver.channel)
           with its own timeout: slimta's DNSResolver._wait_channel has to drive timeout() -> process_fd().  The
           relay's three timeouts do not govern this step; the resolver's does (real clock: the harness polls on
           for up to 5 s after the chain before saying 'blocked').  Control: answer after half the resolver timeout.

Load.  Durations are scaled, verdicts are not: a batch starts with all durations x1 / x2 / x4 depending on runnable
tasks per core (os.getloadavg), every case that did not get to its stall point ('stall-stage-not-reached': a bounded
step BEFORE it expired, or a harness socket call failed because the session was already gone) is re-run up to 4
times with durations doubled again each time and in ever smaller groups; only then inconclusive.

Verdict "still blocked" -- why it is not a wall-clock verdict.  slimta's gevent Timeouts and the harness'
sleeps are timers of the same single-threaded libev hub; libev fires timers in deadline order and gevent
switches into the target greenlet from the timer callback.  The harness starts waiting only once the stall
has begun (the scripted peer has reached its stall point, so the timeout guarding that step -- if there is
one -- is already armed) and then sleeps a CHAIN of 4 sleeps of 1.25*T (= K*T, K = 5), followed by a few
1 ms sleeps (loop iterations for already-scheduled wake-ups).  A timeout <= T that was armed before a chain
link started has fired when that link ends, on any machine load; a bounded follow-up step that is armed
then (the relay's QUIT in _disconnect, the RSET after a 5xx) is covered by the next link.  The code under
test chains at most 2 such steps; the chain has 4 links.  "Still blocked" after the chain therefore means
"blocked in a step around which no timeout <= T is armed" -- the defect -- not "slow".  A real-time
watchdog (60 s) only ever yields inconclusive.

Trickle: the peer sends 1 byte per T/4 (or a complete line per T/2); after N bytes with N*delta >= K*T
(each sleep again a timer of the same hub, armed after the guarding timeout) the session / attempt must
have ended: a timeout that is re-armed per received piece instead of counting over the whole step is
caught, the documented cumulative behaviour passes.

Controls (must SUCCEED): every reply of the next hop (and every client command, server side) is delayed by
T/2.  Guards against false alarms and against a per-attempt instead of per-step budget.  A failure of a
control is only a violation if a lag monitor shows the hub was responsive (loop lag < T/16) during the run;
a failing control is first re-run alone; otherwise inconclusive.

Events that refute: session / attempt / relay client greenlet still blocked after the chain
('still-blocked', 'client-greenlet-still-blocked', 'trickle-not-cut-off'); server session ended without a
421 as its last reply ('no-421-before-close'; not demanded when the stall is inside a TLS handshake, where
no reply can be framed); a bounded relay attempt that ends with anything else than TransientRelayError
('wrong-error-class'); a control that fails on a responsive hub ('slow-but-within-timeout-failed').
"""
import os
import sys
import stat
import time
import base64
import random
import signal
import weakref

import gevent
from gevent import socket
from gevent.event import Event
from gevent.server import StreamServer

from vf import tls
from vf.c14_downstream import Downstream14

import slimta.smtp.server as _server_mod
import slimta.relay.smtp.client as _rclient_mod
import slimta.relay.smtp.lmtpclient as _lclient_mod
import slimta.relay.pipe as _pipe_mod
import slimta.edge.smtp as _edge_mod
import slimta.util.proxyproto as _pp_mod
import slimta.util.dns as _dns_mod
import pycares.errno as _cares_errno
from slimta.smtp.server import Server
from slimta.edge.smtp import SmtpEdge
from slimta.relay import TransientRelayError
from slimta.relay.smtp.static import StaticSmtpRelay, StaticLmtpRelay
from slimta.relay.smtp.mx import MxSmtpRelay
from slimta.relay.pipe import PipeRelay, MaildropRelay, DovecotLdaRelay
from slimta.relay.http import HttpRelay
from slimta.envelope import Envelope

PROPERTY = 'C14'
LEVEL = 'fault_enumeration'
LEVEL_TEXT = ('Designed enumeration of stall points x stall patterns (silent, unfinished line, byte trickle, line '
              'trickle, half a TLS record, peer that stops READING with real kernel buffers) on the real Server / '
              'SmtpEdge (socketpair, real TLS, loopback TCP), PROXY-protocol edges, the real '
              'StaticSmtpRelay / StaticLmtpRelay (18 stages x PIPELINING on/off x 1-2 recipients, scripted next '
              'hop; once with all three timeouts T, once with only the governing one), MxSmtpRelay with a resolver '
              'that never answers, PipeRelay family (never-ending child, grandchild holding the pipes) and HttpRelay '
              '(http and https loopback server that never accepts / reads / answers / says goodbye), '
              'for T in {0.05, 0.1[, 0.2]} s; thorough adds double stalls (second attempt on a new or re-used '
              'connection).  Held = every enumerated stall ended within the K*T timer chain; not a proof for '
              'stall points that are not enumerated (custom handlers, other extensions).')
LEVEL_NOTE = ('Trusted: the timer-chain argument (libev fires timers in deadline order; gevent.sleep re-reads the '
              'clock), vf.downstream / vf.c14_downstream (scripted next hop), the harness client (~80 lines), the '
              'lag monitor used only to excuse failing must-succeed controls.')
TECHNIQUE = 'runtime monitoring: fault enumeration (stall / trickle at every blocking step) with a hub-ordered timer-chain oracle'
RULE = ('case = (side, stage, pattern, PIPELINING, #recipients, tls, T): one real session / delivery attempt whose '
        'peer stalls at that stage with that pattern; all cases of a shard run concurrently (staggered start) as '
        'greenlets of one hub. Every case is non-trivial (each has a stall, or is a must-succeed control with T/2 '
        'delays at every step); distinct = distinct (side, smtp|lmtp, stage, pattern, pipelining, nrcpt, tls, idle_timeout set?, second-stall, T). '
        'The seed varies the order (interleaving), where a reply / command line is cut, which partial-reply cases '
        'get a second recipient, and the envelope addresses. mechanism = side/stage/pattern[/pipelining]/clause, '
        'except that a greenlet stuck in IO.close() is classified by that step (stage close, pattern '
        'tls-peer-silent). A case whose session fails BEFORE the stall point (load) is re-run once, then '
        'inconclusive.')
ASSUMPTIONS = ['timers of one libev hub fire in deadline order and gevent.sleep() arms its timer relative to the '
               'current clock (gevent.sleep calls loop.update_now()); Timeout.start() uses the same or an older '
               'loop time',
               'the code under test chains at most 3 timeout-bounded steps after a stall begins (observed: 2: the '
               'stalled step, then QUIT / RSET+QUIT share one chain link each); the chain has 4 links',
               'a stall inside a TLS handshake cannot be answered with a 421 (nothing can be framed): only "the '
               'session ends" is demanded there',
               'bare Server cases: the harness closes the socket after Server.handle() returns (as an edge '
               'would); edge cases run SmtpEdge.handle() unmodified with PtrLookup stubbed',
               'base cases: all three relay timeouts (connect, command, data) are T; "split" cases: only the timeout '
               'documented to govern the stalled step is T (banner / immediate-TLS handshake: connect and command), '
               'the others 1000 s',
               'send-side stalls: AF_UNIX / loopback TCP kernel buffers with SO_SNDBUF 4096; "blocked in send" is '
               'read off the greenlet frame (IO.raw_send); the calibrated variants (421 / 354 / 250 write) rely on '
               'per-write buffer accounting being the same for two sessions of one process, and report '
               'stall-stage-not-reached otherwise',
               'mx-dns: the stub channel implements c-ares\' contract (timeout() / process_fd() / getsock()) with the '
               'real clock; pycares 5.0 itself cannot be driven by slimta (Channel.query signature)',
               'diagnostic only: the name `Timeout` in slimta.smtp.server, slimta.relay.smtp.client/lmtpclient, '
               'slimta.relay.pipe is bound to a recording subclass of gevent.Timeout (set VERIF_C14_NOTRACE=1 to '
               'run without it)']
REQUIRED_HITS = ['http-reuse-judged', 'relay-reuse-judged', 'relay-probe-judged', 'server-stall-judged', 'server-421-checked', 'server-trickle-judged', 'edge-stall-judged',
                 'relay-stall-judged', 'relay-trickle-judged', 'relay-error-class-checked',
                 'relay-client-greenlet-checked', 'pipe-stall-judged', 'http-stall-judged',
                 'control-succeeded', 'server-write-stall-judged', 'relay-send-stall-judged',
                 'idle-expiry-judged', 'relay-tls-idle-probe-judged', 'default-context-judged', 'server-single-timeout-judged', 'http-client-greenlet-checked', 'mx-dns-stall-judged', 'split-timeouts-judged']
SHARDS = {'quick': 4, 'thorough': 16}
BUDGET = {'quick': 50, 'thorough': 600}

K = 5
CHAIN_LINKS = 4
SETTLE = 6
WATCHDOG = 60.0        # whole batch
STAGGER = 0.006
STEP_WATCHDOG = 30.0   # a single harness wait (reply expected, stall point reached)
RERUNS = 4             # a case whose session failed BEFORE its stall point (load) is re-run this often
TS = {'quick': [0.05, 0.1], 'thorough': [0.05, 0.1, 0.2]}
TS_SLOW = {'quick': [0.2], 'thorough': [0.2, 0.4]}

# ---------------------------------------------------------------- diagnostics: which timeout scopes are active

_SCOPES = weakref.WeakKeyDictionary()     # greenlet -> list of [id, seconds, function that armed it]


class ScopeTimeout(gevent.Timeout):
    """gevent.Timeout that notes, per greenlet, which scopes are currently armed (witness only)."""

    def start(self):
        if self.seconds is not None and not self.pending:
            try:
                fr = sys._getframe(1)
                while fr is not None and fr.f_code.co_filename.endswith(('timeout.py', 'c14_bounded_by_timeouts.py')):
                    fr = fr.f_back
                name = '%s:%s' % (os.path.basename(fr.f_code.co_filename), fr.f_code.co_name) if fr else '?'
                _SCOPES.setdefault(gevent.getcurrent(), []).append([id(self), self.seconds, name])
            except Exception:
                pass
        gevent.Timeout.start(self)

    def close(self):
        try:
            lst = _SCOPES.get(gevent.getcurrent())
            if lst:
                lst[:] = [e for e in lst if e[0] != id(self)]
        except Exception:
            pass
        gevent.Timeout.close(self)


if not os.environ.get('VERIF_C14_NOTRACE'):
    for _m in (_server_mod, _rclient_mod, _lclient_mod, _pipe_mod):
        if getattr(_m, 'Timeout', None) is gevent.Timeout:
            _m.Timeout = ScopeTimeout


class _NoPtr(object):
    def __init__(self, ip):
        pass

    def start(self):
        pass

    def finish(self, runtime=None):
        return None


_edge_mod.PtrLookup = _NoPtr


def scopes_of(g):
    return [[s, n] for _, s, n in _SCOPES.get(g, [])]


def where_blocked(g):
    """slimta frames (outermost first) of a suspended greenlet."""
    out = []
    fr = getattr(g, 'gr_frame', None)
    while fr is not None:
        fn = fr.f_code.co_filename
        if '/slimta/' in fn:
            out.append('%s:%s:%d' % (fn.split('/slimta/', 1)[1], fr.f_code.co_name, fr.f_lineno))
        fr = fr.f_back
    return out[::-1]


# ---------------------------------------------------------------- the timer chain

def chain_sleep(T):
    for _ in range(CHAIN_LINKS):
        gevent.sleep(K * T / CHAIN_LINKS)
    settle()


def settle():
    for _ in range(SETTLE):
        gevent.sleep(0.001)


class LagMonitor(object):
    """Samples how late a short periodic timer fires (hub responsiveness); only used to excuse controls."""

    def __init__(self, tick=0.005):
        self.tick = tick
        self.samples = []
        self.g = None

    def start(self):
        self.g = gevent.spawn(self._run)

    def _run(self):
        while True:
            t0 = time.monotonic()
            gevent.sleep(self.tick)
            self.samples.append((t0, time.monotonic() - t0 - self.tick))

    def stop(self):
        if self.g is not None:
            self.g.kill()

    def max_since(self, t):
        return max([lag for (ts, lag) in self.samples if ts >= t - self.tick] or [0.0])


class Result(object):
    def __init__(self):
        self.failed = []        # (clause, what)
        self.hits = []
        self.detail = {}
        self.inconc = None
        self.obs = []           # (kind, key)
        self.counts = []


# ---------------------------------------------------------------- server side

def _b64(s):
    return base64.b64encode(s)


_EHLO = [('r', '220'), ('s', b'EHLO c14.test\r\n'), ('r', '250')]
_MAIL = _EHLO + [('s', b'MAIL FROM:<s@c14.test>\r\n'), ('r', '250')]
_RCPT = _MAIL + [('s', b'RCPT TO:<r@c14.test>\r\n'), ('r', '250')]
_DATA = _RCPT + [('s', b'DATA\r\n'), ('r', '354')]
_BODY = b'Subject: c14\r\n\r\nline one\r\n'
_EOD = _DATA + [('s', _BODY + b'.\r\n'), ('r', '250')]
_TLS = _EHLO + [('s', b'STARTTLS\r\n'), ('r', '220'), ('tls',)]
_TLS_EHLO = _TLS + [('s', b'EHLO c14.test\r\n'), ('r', '250')]
_CLIENTHELLO_FRAGMENT = b'\x16\x03\x01\x02\x00\x01\x00\x01\xfc\x03\x03'

# stage -> (config, prefix, patterns)
SERVER_STAGES = {
    'tls-immediate-handshake': ({'tls': 'immediate'}, [], ['silent', 'partial-clienthello']),
    'tls-immediate-banner': ({'tls': 'immediate'}, [('tls',), ('r', '220')], ['silent']),
    'banner': ({}, [('r', '220')], ['silent', 'partial-line']),
    'ehlo': ({}, _EHLO, ['silent', 'partial-line', 'glued-partial-line', 'trickle-bytes']),
    'mail': ({}, _MAIL, ['silent', 'partial-line', 'glued-partial-line']),
    'rcpt': ({}, _RCPT, ['silent', 'partial-line', 'glued-partial-line']),
    'data': ({}, _DATA, ['silent', 'silent-partial-body', 'silent-after-line', 'partial-eod', 'trickle-bytes',
                         'trickle-lines']),
    'eod': ({}, _EOD, ['silent', 'partial-line', 'glued-partial-line']),
    'rset': ({}, _EOD + [('s', b'RSET\r\n'), ('r', '250')], ['silent']),
    # PLAIN / LOGIN are only accepted on an encrypted session; CRAM-MD5 also in clear text
    'auth-login-challenge': ({'auth': True, 'tls': 'starttls'}, _TLS_EHLO + [('s', b'AUTH LOGIN\r\n'), ('r', '334')],
                             ['silent', 'partial-line', 'trickle-bytes']),
    'auth-login-password': ({'auth': True, 'tls': 'starttls'},
                            _TLS_EHLO + [('s', b'AUTH LOGIN\r\n'), ('r', '334'),
                                         ('s', _b64(b'user') + b'\r\n'), ('r', '334')], ['silent']),
    'auth-plain-challenge': ({'auth': True, 'tls': 'starttls'}, _TLS_EHLO + [('s', b'AUTH PLAIN\r\n'), ('r', '334')],
                             ['silent', 'partial-line']),
    'auth-crammd5-challenge': ({'auth': [b'CRAM-MD5']}, _EHLO + [('s', b'AUTH CRAM-MD5\r\n'), ('r', '334')],
                               ['silent', 'partial-line', 'trickle-bytes']),
    'starttls-handshake': ({'tls': 'starttls'}, _EHLO + [('s', b'STARTTLS\r\n'), ('r', '220')],
                           ['silent', 'partial-clienthello']),
    'tls-ehlo': ({'tls': 'starttls'}, _TLS_EHLO, ['silent', 'partial-line', 'glued-partial-line']),
    'tls-data': ({'tls': 'starttls'}, _TLS_EHLO + _DATA[3:], ['silent-partial-body', 'trickle-bytes']),
}
HANDSHAKE_STAGES = ('tls-immediate-handshake', 'starttls-handshake')
DATA_GOVERNED_SERVER_STAGES = ('data', 'tls-data')      # the stall is inside the DATA phase: data_timeout
EDGE_STAGES = [('ehlo', 'silent'), ('data', 'silent-partial-body'), ('data', 'trickle-bytes'), ('tls-ehlo', 'silent'),
               ('tls-data', 'silent-partial-body'), ('tls-immediate-banner', 'silent')]


class _Handlers(object):
    pass


class _NullQueue(object):
    def enqueue(self, envelope):
        return [(envelope, 'c14-id')]


class ClientSide(object):
    """The harness' SMTP client end: reads whole replies, knows nothing of slimta."""

    def __init__(self, sock):
        self.sock = sock
        self.buf = b''
        self.all = b''
        self.eof = False

    def read_reply(self):
        while True:
            lines = self.buf.split(b'\n')
            for i, ln in enumerate(lines[:-1]):
                s = ln.lstrip(b'\r')
                if len(s) >= 4 and s[:3].isdigit() and s[3:4] == b' ':
                    rest = b'\n'.join(lines[i + 1:])
                    self.buf = rest
                    return s[:3].decode()
            d = self.sock.recv(4096)
            if not d:
                self.eof = True
                return None
            self.buf += d
            self.all += d

    def drain(self, quiet=0.25):
        """Collect what was written until EOF / error / nothing for `quiet` seconds."""
        while not self.eof:
            d = None
            with gevent.Timeout(quiet, False):
                try:
                    d = self.sock.recv(4096)
                except (OSError, IOError):
                    d = b''
            if d is None:
                return
            if not d:
                self.eof = True
                return
            self.buf += d
            self.all += d

    def last_code(self):
        codes = []
        for ln in self.all.split(b'\n'):
            s = ln.strip(b'\r')
            if len(s) >= 4 and s[:3].isdigit() and s[3:4] in (b' ', b'-'):
                codes.append(s[:3].decode())
        return codes[-1] if codes else None


def _fragment(sub, rnd, stage):
    if stage.startswith('auth'):
        return _b64(b'\x00user\x00secret')[:rnd.randrange(1, 12)]
    line = rnd.choice([b'NOOP', b'MAIL FROM:<s@c14.test>', b'RCPT TO:<r@c14.test>', b'EHLO c14.test', b'QUIT', b'DATA'])
    return line[:rnd.randrange(1, len(line) + 1)]


def run_server_case(sub):
    res = Result()
    T = sub['T']
    stage, pattern, driver = sub['stage'], sub['pattern'], sub['side']
    cfg, prefix, _ = SERVER_STAGES[stage]
    rnd = random.Random(sub.get('rs', 0))
    a, b = socket.socketpair()
    ctx = tls.server_context() if cfg.get('tls') else None
    imm = cfg.get('tls') == 'immediate'
    st = {}
    ct = dt = T
    if sub.get('split'):
        # only the timeout that is documented to govern the stalled step is T, the other one is out of reach
        ct, dt = (BIG, T) if stage in DATA_GOVERNED_SERVER_STAGES else (T, BIG)
    only = sub.get('only')
    if only == 'command':
        ct, dt = T, None        # the common configuration: data_timeout left out -> it defaults to command_timeout
    elif only == 'data':
        ct, dt = None, T        # mirror: no command timeout configured (command phase unbounded BY DESIGN: observed only)
    if driver == 'edge':
        edge = SmtpEdge(None, _NullQueue(), auth=cfg.get('auth', False), context=ctx, tls_immediately=imm,
                        command_timeout=ct, data_timeout=dt, hostname='c14.test')

        def run():
            try:
                edge.handle(a, ('127.0.0.1', 4321))
                st['end'] = 'returned'
            except gevent.GreenletExit:
                st['end'] = 'killed'
            except BaseException as e:
                st['end'] = 'exception:' + type(e).__name__
    else:
        srv = Server(a, _Handlers(), address=('127.0.0.1', 4321), auth=cfg.get('auth', False), context=ctx,
                     tls_immediately=imm, command_timeout=ct, data_timeout=dt)

        def run():
            try:
                try:
                    srv.handle()
                    st['end'] = 'returned'
                except gevent.GreenletExit:
                    st['end'] = 'killed'
                except BaseException as e:
                    st['end'] = 'exception:' + type(e).__name__
            finally:
                try:
                    srv.io.socket.close()       # what an edge does next (without the TLS goodbye)
                except Exception:
                    pass
    g = gevent.spawn(run)
    cl = ClientSide(b)
    try:
        wd = gevent.Timeout(STEP_WATCHDOG)
        wd.start()
        if pattern == 'glued-partial-line':
            # the start of the next line arrives in the same segment as the end of the previous
            # unit (command or end-of-data), then the client goes silent
            prefix = list(prefix)
            last_s = max(i for i, op in enumerate(prefix) if op[0] == 's')
            glued = _fragment(sub, rnd, stage)
            prefix[last_s] = ('s', prefix[last_s][1] + glued)
            res.detail['fragment_glued_to_previous_unit'] = glued
        try:
            for op in prefix:
                if op[0] == 'r':
                    code = cl.read_reply()
                    if code != op[1]:
                        res.inconc = 'stall-stage-not-reached: expected %s got %s at %s' % (op[1], code, stage)
                        return res
                elif op[0] == 's':
                    cl.sock.sendall(op[1])
                elif op[0] == 'tls':
                    cl.sock = tls.client_context().wrap_socket(cl.sock)
        except gevent.Timeout as t:
            if t is not wd:
                raise
            res.inconc = 'watchdog: no reply while driving the session to stage %s' % stage
            return res
        except (OSError, IOError) as e:
            # e.g. the server's (bounded) handshake / command timeout hit a step BEFORE the stall point under load
            res.inconc = 'stall-stage-not-reached: %s while driving the session to stage %s' % (type(e).__name__, stage)
            return res
        finally:
            wd.close()

        # ---- the stall begins
        sent = 0
        accepted = None
        if pattern in ('trickle-bytes', 'trickle-lines'):
            if pattern == 'trickle-bytes':
                delta, n, unit = T / 4.0, 4 * K, (b'A' if stage.startswith('auth') else b'x')
            else:
                delta, n, unit = T / 2.0, 2 * K, b'a trickled line\r\n'
            for i in range(n):
                if 'end' in st and accepted is None:
                    accepted = sent
                try:
                    cl.sock.sendall(unit)
                    sent += 1
                except (OSError, IOError):
                    if accepted is None:
                        accepted = sent
                gevent.sleep(delta)
            settle()
        else:
            frag = None
            if pattern == 'partial-line':
                frag = _fragment(sub, rnd, stage)
            elif pattern == 'partial-clienthello':
                frag = _CLIENTHELLO_FRAGMENT
            elif pattern == 'silent-partial-body':
                frag = _BODY + b'an unfinished li'
            elif pattern == 'silent-after-line':
                frag = _BODY
            elif pattern == 'partial-eod':
                frag = _BODY + b'.\r'
            if frag:
                cl.sock.sendall(frag)
                res.detail['fragment_sent'] = frag
            chain_sleep(T)
        ended = 'end' in st
        cl.drain()
        last = cl.last_code()
        res.detail.update({'T': T, 'stage': stage, 'pattern': pattern, 'driver': driver,
                           'command_timeout': ct, 'data_timeout': dt, 'session_greenlet_ended': ended, 'session_end': st.get('end'),
                           'harness_slept_at_least': K * T, 'last_reply_code_seen': last,
                           'client_saw_eof': cl.eof, 'replies_tail': cl.all[-160:]})
        res.obs.append(('server-end', (driver, stage, pattern, st.get('end'), last)))
        trick = pattern.startswith('trickle')
        if only == 'data' and stage not in DATA_GOVERNED_SERVER_STAGES:
            # nothing is configured to bound this step: observed, never judged
            res.counts.append(('unjudged/%s-data-timeout-only/%s/%s/%s' % (driver, stage, pattern,
                                                                          'ended' if ended else 'still-waiting'), 1))
            return res
        if only:
            res.hits.append('server-single-timeout-judged')
        res.hits.append('edge-stall-judged' if driver == 'edge' else 'server-stall-judged')
        if sub.get('split'):
            res.hits.append('split-timeouts-judged')
        if trick:
            res.hits.append('server-trickle-judged')
            res.detail['trickle_units_sent'] = sent
            res.detail['trickle_units_before_session_ended'] = accepted
            res.obs.append(('trickle-cut-off-after', (stage, pattern, accepted)))
        if not ended:
            res.detail['blocked_at'] = where_blocked(g)
            res.detail['active_timeout_scopes_in_blocked_greenlet'] = scopes_of(g)
            if trick:
                res.failed.append(('trickle-not-cut-off',
                                   'session still open after %d trickled %s (%.2gs apart, total >= %d*T, T=%gs)'
                                   % (sent, 'bytes' if pattern == 'trickle-bytes' else 'lines', delta, K, T)))
            else:
                res.failed.append(('still-blocked',
                                   'session greenlet still blocked after the harness slept %d*T (T=%gs) since the '
                                   'client went silent; blocked at %s with timeout scopes %s'
                                   % (K, T, (res.detail['blocked_at'] or ['?'])[-1],
                                      res.detail['active_timeout_scopes_in_blocked_greenlet'])))
        elif stage not in HANDSHAKE_STAGES:
            res.hits.append('server-421-checked')
            if last != '421':
                res.failed.append(('no-421-before-close',
                                   'session ended (%s) but the last reply written was %s, not 421'
                                   % (st.get('end'), last)))
            if driver == 'edge' and not cl.eof:
                res.failed.append(('socket-not-closed', 'SmtpEdge.handle returned but the client saw no EOF'))
        return res
    finally:
        g.kill(block=False)
        for s in (cl.sock, a, b):
            try:
                s.close()
            except Exception:
                pass


def run_server_control(sub):
    """Must succeed: a client that pauses T/2 before every command (and once inside DATA)."""
    res = Result()
    T = sub['T']
    a, b = socket.socketpair()
    got = []

    class H(object):
        def HAVE_DATA(self, reply, data, err):
            got.append(data)
    srv = Server(a, H(), address=('127.0.0.1', 4321), command_timeout=T, data_timeout=T)
    st = {}

    def run():
        try:
            srv.handle()
            st['end'] = 'returned'
        except gevent.GreenletExit:
            st['end'] = 'killed'
        except BaseException as e:
            st['end'] = 'exception:' + type(e).__name__
        finally:
            a.close()
    g = gevent.spawn(run)
    cl = ClientSide(b)
    codes = []
    try:
        with gevent.Timeout(STEP_WATCHDOG, False):
            codes.append(cl.read_reply())
            for cmd in (b'EHLO c14.test\r\n', b'MAIL FROM:<s@c14.test>\r\n', b'RCPT TO:<r@c14.test>\r\n',
                        b'NOOP\r\n', b'RSET\r\n', b'MAIL FROM:<s@c14.test>\r\n', b'RCPT TO:<r@c14.test>\r\n',
                        b'DATA\r\n'):
                gevent.sleep(T / 2.0)
                try:
                    b.sendall(cmd)
                except (OSError, IOError):
                    break
                codes.append(cl.read_reply())
            try:
                b.sendall(_BODY)
                gevent.sleep(T / 2.0)
                b.sendall(b'.\r\n')
                codes.append(cl.read_reply())
                gevent.sleep(T / 2.0)
                b.sendall(b'QUIT\r\n')
                codes.append(cl.read_reply())
            except (OSError, IOError):
                pass
        want = ['220', '250', '250', '250', '250', '250', '250', '250', '354', '250', '221']
        res.detail.update({'T': T, 'reply_codes': codes, 'expected': want, 'session_end': st.get('end'),
                           'messages_received': len(got)})
        res.ok = (codes == want and len(got) == 1)
        return res
    finally:
        g.kill(block=False)
        for s in (a, b):
            try:
                s.close()
            except Exception:
                pass


# ---------------------------------------------------------------- relay side (SMTP / LMTP)

RELAY_STALL_STAGES = ['connect', 'banner', 'ehlo', 'starttls', 'tlshandshake', 'tls-immediate-handshake', 'auth',
                      'mail', 'rcpt0', 'data', 'eod0', 'rset', 'quit']
RESULT_ALREADY_SET = ('rset', 'quit', 'rset-after-lmtp-failure')     # the attempt's outcome is decided before these steps
RELAY_IDLE = 5.0       # idle_timeout of re-use cases: only has to outlast the gap between two attempts
_PARTIAL = {'helo': b'250 downstre', 'empty-data-eod': b'250 2.0.0 queu', 'rset-after-lmtp-failure': b'250 2.0.0 res',
            'banner': b'220 downstream rea', 'ehlo': b'250-downstream greets you\r\n250-8BITMIME\r\n250 PIPELI',
            'starttls': b'220 2.0.0 go ah', 'auth': b'235 2.7.0 authentica', 'mail': b'250 2.1.0 sender o',
            'rcpt0': b'250 2.1.5 recipient o', 'rcpt1': b'250 2.1.5 recipient o', 'data': b'354 go ah',
            'eod0': b'250 2.0.0 queu', 'eod1': b'250 2.0.0 deliv', 'rset': b'250 2.0.0 res', 'quit': b'221 2.0.0 b',
            'idle-probe': b'421 4.4.2 idle connection timed o',
            'tlshandshake': b'\x16\x03\x03\x00\x7a\x02\x00', 'tls-immediate-handshake': b'\x16\x03\x03\x00\x7a\x02\x00'}
_TRICKLE_CODE = {'banner': '220', 'mail': '250', 'rcpt0': '250', 'rcpt1': '250', 'data': '354', 'eod0': '250',
                 'eod1': '250', 'rset': '250', 'quit': '221', 'auth': '235', 'starttls': '220'}


def _action(stage, pattern, T, rnd):
    if pattern == 'stall':
        return ('stall',)
    if pattern == 'noread':
        return ('noread',)
    if pattern == 'partial':
        full = _PARTIAL[stage]
        if stage.endswith('handshake'):
            return ('raw-stall', full)
        return ('raw-stall', full[:rnd.randrange(1, len(full) + 1)])
    if pattern == 'trickle':
        if stage == 'ehlo':
            return ('trickle', T / 4.0, ('ok',))
        return ('trickle', T / 4.0, ('reply', _TRICKLE_CODE[stage], 'trickled ' + 'x' * 70))
    raise ValueError(pattern)


def _envelope(sub, n=0):
    tag = sub.get('rs', 0) % 1000
    env = Envelope('sender%d@c14.test' % tag, ['rcpt%d-%d@c14.test' % (tag, i) for i in range(sub['nrcpt'])])
    env.parse(b'Subject: c14\r\nX-Verif-Msg: c14-%d-%d\r\n\r\nbody line\r\n.leading dot\r\n' % (tag, n))
    if sub.get('big'):
        env.message = env.message + (b'x' * 70 + b'\r\n') * (sub['big'] // 72)
    return env


def relay_timeouts(sub, T):
    """(connect, command, data).  Normally all T.  'split' cases: only the timeout(s) documented to govern the stalled
    step are T, the others are BIG (out of reach), so a step sitting in the wrong scope is 'still blocked'.  Banner
    and immediate-TLS handshake: the documentation does not say connect or command -- both are T there."""
    if sub.get('only') == 'command':
        return T, T, None
    if not sub.get('split'):
        return T, T, T
    st = sub['stage']
    if st == 'connect':
        return T, BIG, BIG
    if st in ('banner', 'tls-immediate-handshake'):
        return T, T, BIG
    if st in DATA_GOVERNED_RELAY_STAGES:
        return BIG, BIG, T
    return BIG, T, BIG


DATA_GOVERNED_RELAY_STAGES = ('body', 'eod0', 'eod1', 'empty-data-eod')


def _mk_relay(sub, script, T):
    lmtp = sub['proto'] == 'lmtp'
    stage = sub['stage']
    stages = {stage, (sub.get('second') or {}).get('stage')}
    below = 'tls-idle-probe' in stages      # encrypted connection whose peer later writes BELOW the TLS layer
    want_tls = bool(sub.get('tls')) or below or bool(stages & {'starttls', 'tlshandshake', 'tls-immediate-handshake'})
    imm = 'tls-immediate-handshake' in stages or (below and sub.get('tls_mode') == 'immediate')
    want_auth = 'auth' in stages
    sctx = tls.server_context() if want_tls else None
    cctx = tls.client_context()
    if below:
        # lets the next hop produce a complete non-application record later (post-handshake CertificateRequest)
        import ssl as _ssl
        sctx.verify_mode = _ssl.CERT_OPTIONAL
        sctx.load_verify_locations(tls.cert_files()[0])
        cctx.post_handshake_auth = True
    ds = Downstream14(script, lmtp=lmtp, pipelining=sub['pipelining'],
                      tls_context=sctx, tls_immediately=imm,
                      auth=want_auth, deaf=bool(sub.get('tls')),
                      small_buffers=SMALL_SNDBUF if sub.get('small_buffers') else None,
                      lenient_data='empty-data-eod' in stages, bio_tls=below)
    ds.probe_log = []
    ds.push_on_probe = True
    cn, cm, da = relay_timeouts(sub, T)
    kw = dict(socket_creator=ds.creator, connect_timeout=cn, command_timeout=cm, data_timeout=da,
              ehlo_as='relay.c14.test', context=cctx)
    if imm:
        kw['tls_immediately'] = True
    if want_auth:
        kw['credentials'] = ('user', 'secret')
    if sub.get('idle'):
        kw['idle_timeout'] = sub['idle']
    relay = (StaticLmtpRelay if lmtp else StaticSmtpRelay)('next-hop.c14.test', 24 if lmtp else 25, **kw)
    clients = []
    orig = relay.add_client

    def add_client():
        c = orig()
        clients.append(c)
        _observe_probe(c, ds)
        return c
    relay.add_client = add_client
    return ds, relay, clients


def _observe_probe(c, ds):
    """Monitor: note every call of the client's _check_server_timeout(): did has_reply_waiting() see unsolicited
    bytes, and how did the call end ('inside' = still in there).  It is also the fault injector's clock: an
    unsolicited fragment the scripted next hop is withholding (after-ehlo / idle) is put on the wire at the instant
    the client starts looking (ds.push_now()), so hitting slimta's 10 ms has_reply_waiting() window does not depend
    on how promptly the harness gets scheduled."""
    log = ds.probe_log
    orig = c._check_server_timeout

    def probe():
        e = {'waiting': None, 'outcome': 'inside'}
        log.append(e)
        cl = c.client
        orig_w = cl.has_reply_waiting

        def waiting():
            if ds.push_now():
                e['fragment_put_on_the_wire_when_the_probe_began'] = True
            e['waiting'] = r = orig_w()
            return r
        cl.has_reply_waiting = waiting
        try:
            r = orig()
            e['outcome'] = 'returned %s' % r
            return r
        except BaseException as ex:
            e['outcome'] = 'raised ' + type(ex).__name__
            raise
        finally:
            cl.__dict__.pop('has_reply_waiting', None)
    c._check_server_timeout = probe


def _probe_saw_fragment(ds):
    # (put on the wire at the instant a probe began: that probe had it in front of it, whatever it then did --
    # returned, raised, or never came back)
    return any(e['waiting'] or e.get('fragment_put_on_the_wire_when_the_probe_began') for e in ds.probe_log)


def _attempt(relay, env, out, started=None):
    def run():
        if started is not None:
            started.set()
        try:
            out['result'] = relay.attempt(env, 0)
            out['kind'] = 'returned'
        except gevent.GreenletExit:
            out['kind'] = 'killed'
        except BaseException as e:
            out['kind'] = 'raised'
            out['exc'] = e
        out['done'] = True
    return gevent.spawn(run)


def _outcome(out):
    if not out.get('done'):
        return 'blocked'
    if out['kind'] == 'raised':
        return 'raised ' + type(out['exc']).__name__ + ': ' + str(out['exc'])[:80]
    r = out.get('result')
    if isinstance(r, dict):
        return 'returned {' + ', '.join('%s: %s' % (k, type(v).__name__ + (' ' + str(getattr(v, 'code', '')) if v is not None else ''))
                                          for k, v in sorted(r.items())) + '}'
    return 'returned ' + type(r).__name__ + ' ' + str(getattr(r, 'code', ''))


def _is_transient(out):
    if out.get('kind') == 'raised':
        return isinstance(out['exc'], TransientRelayError)
    r = out.get('result')
    if isinstance(r, dict) and r:
        return all(isinstance(v, TransientRelayError) for v in r.values())
    return False


def _is_success(out):
    if out.get('kind') != 'returned':
        return False
    r = out.get('result')
    if isinstance(r, dict):
        return all(not isinstance(v, Exception) for v in r.values())
    return not isinstance(r, Exception)


_PEER_DID = {'noread': 'stopped reading', 'stall': 'went silent', 'partial': 'sent half a reply line', 'trickle': 'began trickling its reply',
             'unsolicited-partial-line': 'pushed half an unsolicited reply line and went silent',
             'unsolicited-continuation-line': 'pushed unsolicited 421- continuation lines without a last line'}


def _judge_relay_attempt(sub, res, T, ds, g, out, clients, stage, pattern, label, pre_chain=None):
    """Wait for the stall to begin, run the chain, judge. Returns False if the stage was never reached."""
    gevent.wait([ds.stalled, g], timeout=STEP_WATCHDOG, count=1)
    live = [c for c in clients if not c.dead]
    already = stage in RESULT_ALREADY_SET or (stage == 'empty-data-eod' and sub['pipelining'])
    # (with PIPELINING the '.' of an empty message is only flushed, and its reply awaited, by the RSET that follows)
    if not ds.stalled.is_set() and already and live:
        # the attempt's result is handed over before RSET / QUIT: the client greenlet goes on alone
        gevent.wait([ds.stalled] + live, timeout=STEP_WATCHDOG, count=1)
    if not ds.stalled.is_set():
        if g.dead:
            res.inconc = 'stall-stage-not-reached: %s attempt ended (%s) before stage %s' % (label, _outcome(out), stage)
        else:
            res.inconc = 'watchdog: %s attempt neither reached stage %s nor ended' % (label, stage)
        return False
    if pre_chain:
        pre_chain()
    if stage == 'body':
        # send-side stall: it begins when the client is blocked in send() (state polling, watchdog => inconclusive)
        t0 = time.monotonic()
        while time.monotonic() - t0 < STEP_WATCHDOG and not out.get('done'):
            if any((where_blocked(c) or [''])[-1].startswith('smtp/io.py:raw_send:') for c in clients if not c.dead):
                break
            gevent.sleep(0.0005)
        else:
            if not out.get('done'):
                res.inconc = 'watchdog: the relay client never blocked in send() nor ended'
                return False
        res.detail.setdefault(label, {})['client_was_blocked_in_send'] = not out.get('done')
    chain_sleep(T)
    done = bool(out.get('done'))
    alive = [c for c in clients if not c.dead]
    if sub.get('split') and stage in DATA_GOVERNED_RELAY_STAGES:
        alive = []      # the QUIT that follows is governed by the command timeout, which is out of reach here
    d = res.detail.setdefault(label, {})
    d.update({'stage': stage, 'pattern': pattern, 'attempt_ended': done, 'outcome': _outcome(out),
              'connect_command_data_timeouts': list(relay_timeouts(sub, T)),
              'client_greenlets_alive': len(alive), 'stalls_begun': list(ds.stall_log),
              'server_timeout_probe_calls': [dict(e) for e in ds.probe_log],
              'commands_seen_by_next_hop': [[v for v, _ in c.commands] for c in ds.conns],
              'harness_slept_at_least_after_stall_began': K * T})
    res.hits.append('relay-stall-judged')
    if sub.get('split'):
        res.hits.append('split-timeouts-judged')
    if stage == 'body' and d.get('client_was_blocked_in_send'):
        res.hits.append('relay-send-stall-judged')
    if pattern == 'trickle':
        res.hits.append('relay-trickle-judged')
        d['bytes_trickled_before_judgement'] = ds.trickled
    res.obs.append(('relay-outcome', (sub['proto'], stage, pattern, sub['pipelining'], _outcome(out)[:40])))
    if not done:
        blocked = [where_blocked(c) for c in alive] or [where_blocked(g)]
        d['blocked_at'] = blocked
        d['active_timeout_scopes_in_blocked_greenlet'] = [scopes_of(c) for c in alive]
        res.failed.append((label, 'still-blocked',
                           'Relay.attempt still blocked after the harness slept %d*T (T=%gs) since the next hop '
                           '%s at stage %s; client blocked at %s with timeout scopes %s'
                           % (K, T, _PEER_DID[pattern], stage,
                              (blocked[0] or ['?'])[-1], d['active_timeout_scopes_in_blocked_greenlet'])))
        return True
    res.hits.append('relay-client-greenlet-checked')
    if alive:
        d['blocked_at'] = [where_blocked(c) for c in alive]
        d['active_timeout_scopes_in_blocked_greenlet'] = [scopes_of(c) for c in alive]
        res.failed.append((label, 'client-greenlet-still-blocked',
                           'Relay.attempt ended (%s) but the relay client greenlet is still blocked after %d*T at %s'
                           % (_outcome(out)[:60], K, (d['blocked_at'][0] or ['?'])[-1])))
    if not already:
        res.hits.append('relay-error-class-checked')
        if not _is_transient(out):
            res.failed.append((label, 'wrong-error-class',
                               'attempt whose step %s timed out ended with "%s" instead of a TransientRelayError'
                               % (stage, _outcome(out))))
    return True


def run_relay_case(sub):
    res = Result()
    T = sub['T']
    rnd = random.Random(sub.get('rs', 0))
    stage, pattern = sub['stage'], sub['pattern']
    second = sub.get('second')
    act1 = _action(stage, pattern, T, rnd)
    if second and second['stage'] == 'tls-idle-probe':
        frag = TLS_IDLE_FRAGMENTS[second['pattern']]
        act2 = ('raw-below-tls', frag(rnd) if callable(frag) else frag)
    else:
        act2 = _action(second['stage'], second.get('pattern', 'stall'), T, rnd) if second else None

    reuse = bool(second) and second.get('mode') == 'reuse'
    probe = reuse and second['stage'] in ('idle-probe', 'tls-idle-probe')
    holder = {}

    def script(ctx, st):
        ds_ = holder['ds']
        if probe:
            # message 1 succeeds; right after its end-of-data reply the next hop sends half a line unasked
            if st == 'idle' and ds_.connects <= 1 and ctx['txn'] == 0:
                return act2
            return ('ok',)
        if reuse:
            # first transaction succeeds, the connection stays open, the second transaction stalls
            ph = 1 if (ds_.connects <= 1 and ctx['txn'] == 0) else 2
        else:
            ph = 1 if ds_.connects <= 1 else 2
        if ph == 1:
            stg, act = (None, None) if reuse else (stage, act1)
        else:
            stg, act = (second['stage'], act2) if second else (None, None)
        if stg is None:
            return ('ok',)
        if sub.get('tls') and stg == 'ehlo' and st == 'ehlo' and not ds_.conns[ctx['conn']].tls:
            return ('ok',)              # the tls variant stalls the EHLO that follows the handshake
        if st == ('tlshandshake' if stg.endswith('handshake') else stg):
            return act
        if stg == 'rset' and st == 'data':
            return ('reply', '550')
        if stg == 'helo' and st == 'ehlo':
            return ('reply', '500')             # the client falls back to HELO, which is then stalled
        if stg == 'empty-data-eod':
            # every recipient refused yet DATA answered 354: the client ends the (empty) message, that reply stalls
            if st.startswith('rcpt'):
                return ('reply', '550')
            if st == 'eod0':
                return act
        if stg == 'rset-after-lmtp-failure':
            if st == 'eod0':
                return ('reply', '450')
            if st == 'rset':
                return act
        return ('ok',)

    ds, relay, clients = _mk_relay(sub, script, T)
    holder['ds'] = ds
    out = {}
    gs = []
    try:
        g = _attempt(relay, _envelope(sub), out)
        gs.append(g)
        if reuse:
            g.join(timeout=STEP_WATCHDOG)
            if not _is_success(out):
                res.inconc = 'stall-stage-not-reached: first transaction of a reuse case did not succeed (%s)' % _outcome(out)
                return res
            res.detail['first'] = {'outcome': _outcome(out)}
        else:
            if not _judge_relay_attempt(sub, res, T, ds, g, out, clients, stage, pattern, 'first'):
                return res
            if not out.get('done'):
                return res
        if second:
            out2 = {}
            before = list(clients)
            if probe:
                # (the unasked half line is put on the idle connection when the client starts probing)
                started = Event()
                g2 = _attempt(relay, _envelope(sub, 1), out2, started)
                gs.append(g2)
                started.wait(STEP_WATCHDOG)
                settle()                              # the idle client has picked the request up (loop iterations)
            else:
                ds.stalled.clear()
                del ds.stall_log[:]
                g2 = _attempt(relay, _envelope(sub, 1), out2)
                gs.append(g2)
            judged = _judge_relay_attempt(sub, res, T, ds, g2, out2, clients, second['stage'],
                                          second.get('pattern', 'stall'), 'second')
            res.detail['second_used_new_client'] = len(clients) > len(before)
            if second['stage'] == 'tls-idle-probe':
                res.detail['bytes_written_below_the_tls_layer_while_idle'] = ds.below_tls_bytes
                res.detail['connection_encrypted'] = [c.tls for c in ds.conns]
                if judged and reuse and ds.below_tls_bytes is not None:
                    res.hits.append('relay-tls-idle-probe-judged')
            res.detail['connections_to_next_hop'] = ds.connects
            if reuse and judged:
                if len(clients) > len(before) or ds.connects > 1:
                    del res.failed[:]
                    res.inconc = 'stall-stage-not-reached: the idle connection was not re-used'
                elif probe and not _probe_saw_fragment(ds):
                    del res.failed[:]
                    res.inconc = ('stall-stage-not-reached: the unsolicited fragment was not seen by the '
                                  '_check_server_timeout probe (read as a later reply instead: %s)' % _outcome(out2)[:60])
                else:
                    res.hits.append('relay-reuse-judged')
                    if probe:
                        res.hits.append('relay-probe-judged')
        return res
    finally:
        for g in gs:
            g.kill(block=False)
        for c in clients:
            c.kill(block=False)
        ds.kill()
        for c in clients:
            try:
                if c.client is not None:
                    c.client.io.socket.close()
            except Exception:
                pass


# what the next hop puts on an idle ENCRYPTED connection, below the TLS layer, before it goes silent
TLS_IDLE_FRAGMENTS = {
    'record-header-only': b'\x17\x03\x03\x00\x40',
    'record-header-and-part-of-body': lambda rnd: b'\x17\x03\x03\x00\x40' + bytes(rnd.randrange(256) for _ in range(rnd.randrange(1, 0x40))),
    'part-of-record-header': lambda rnd: b'\x17\x03\x03\x00\x40'[:rnd.randrange(1, 5)],
    'complete-non-application-record': None,          # a TLS 1.3 post-handshake CertificateRequest (consumed silently)
    'garbage-not-a-record': lambda rnd: bytes(rnd.randrange(32) for _ in range(rnd.randrange(1, 5))),
    'garbage-line': b'421 4.4.2 in clear text on an encrypted connection\r\n',
}
for _p in TLS_IDLE_FRAGMENTS:
    _PEER_DID[_p] = 'wrote %s below the TLS layer of the idle connection and went silent' % _p

PROBE_FRAGMENTS = {'unsolicited-partial-line': b'421 4.4.2 idle, clos',
                   'unsolicited-continuation-line': b'421-4.4.2 idle for too long\r\n421-closing the connection so\r\n'}


def run_relay_probe_case(sub):
    """The _check_server_timeout probe before the first MAIL: banner and EHLO/LHLO complete normally, then -- as a
    segment of its own, once the client has consumed the handshake reply -- the next hop starts an unsolicited reply
    it never finishes and goes silent.  idle_timeout None (default) or set.  Only judged if the probe's
    has_reply_waiting() saw the fragment (~10 ms window); if a later read got it instead (bounded by the command
    timeout as the MAIL reply): stall-stage-not-reached, re-run, never a verdict."""
    res = Result()
    T = sub['T']
    frag = PROBE_FRAGMENTS[sub['pattern']]
    ds, relay, clients = _mk_relay(sub, {'after-ehlo': ('raw-stall', frag)}, T)
    out = {}
    g = _attempt(relay, _envelope(sub), out)
    try:
        if not _judge_relay_attempt(sub, res, T, ds, g, out, clients, sub['stage'], sub['pattern'], 'first',
                                    pre_chain=settle):
            return res
        res.detail['first']['fragment'] = frag
        res.detail['first']['fragment_sent_after_reply_was_consumed'] = ds.pushed_after_drain
        res.detail['first']['idle_timeout'] = sub.get('idle')
        if not _probe_saw_fragment(ds):
            del res.failed[:]
            res.inconc = ('stall-stage-not-reached: the unsolicited fragment was not seen by the '
                          '_check_server_timeout probe (read as a later reply instead: %s)' % _outcome(out)[:60])
            return res
        res.hits.append('relay-probe-judged')
        return res
    finally:
        g.kill(block=False)
        for c in clients:
            c.kill(block=False)
        ds.kill()
        for c in clients:
            try:
                if c.client is not None:
                    c.client.io.socket.close()
            except Exception:
                pass


def run_relay_control(sub):
    """Must succeed: every stage of the next hop answers after T/2."""
    res = Result()
    T = sub['T']

    def script(ctx, st):
        # one delay of T/2 per blocking step of the relay: with PIPELINING the replies to MAIL, RCPT and DATA
        # are awaited in one step, and all LMTP end-of-data replies are awaited in one step
        if st == 'tlshandshake' or (st.startswith('eod') and st != 'eod0'):
            return ('ok',)
        if sub.get('slow_body'):
            # the next hop starts reading the (large) message only after T/2: one delay inside the data step
            if st == 'body':
                return ('delay', T / 2.0, ('ok',))
            if st.startswith('eod'):
                return ('ok',)
        elif st == 'body':
            return ('ok',)
        if sub['pipelining'] and (st == 'mail' or st.startswith('rcpt')):
            return ('ok',)
        return ('delay', T / 2.0, ('ok',))
    sub2 = dict(sub)
    sub2['stage'] = 'auth' if sub.get('auth') else 'none'
    ds, relay, clients = _mk_relay(sub2, script, T)
    out = {}
    try:
        g = _attempt(relay, _envelope(sub), out)
        g.join(timeout=STEP_WATCHDOG)
        if not out.get('done'):
            res.inconc = 'watchdog: control attempt did not end'
            return res
        gevent.joinall(clients, timeout=STEP_WATCHDOG)
        acc = ds.accepted()
        res.detail.update({'T': T, 'outcome': _outcome(out), 'delay_per_stage': T / 2.0,
                           'commands_seen_by_next_hop': [[v for v, _ in c.commands] for c in ds.conns],
                           'accepted_by_next_hop': {str(k): sorted(v) for k, v in acc.items()},
                           'client_greenlets_alive': len([c for c in clients if not c.dead])})
        res.ok = _is_success(out) and any(len(v) == sub['nrcpt'] for v in acc.values())
        return res
    finally:
        g.kill(block=False)
        for c in clients:
            c.kill(block=False)
        ds.kill()


# ---------------------------------------------------------------- pipe relays

_STUBS = {
    # holds stdout/stderr open and never exits
    'sleeps-holding-pipes': '#!/bin/sh\necho $$ > "%(dir)s/$$.pid"\nexec sleep 30\n',
    # closes its pipes (communicate() sees EOF on both) but never exits
    'sleeps-pipes-closed': '#!/bin/sh\necho $$ > "%(dir)s/$$.pid"\nexec sleep 30 <&- >&- 2>&-\n',
    # never reads stdin (message larger than the pipe buffer), never exits
    'never-reads-stdin': '#!/bin/sh\necho $$ > "%(dir)s/$$.pid"\nexec sleep 30 >/dev/null 2>&1 <&0\n',
    # reads the message and exits 0 at once, but a grandchild keeps its stdout / stderr open
    'exits-grandchild-holds-pipes': '#!/bin/sh\ncat > /dev/null\nsleep 30 &\necho $! > "%(dir)s/$!.pid"\nexit 0\n',
}
_scratch = {}


def _scratch_dir():
    if 'dir' not in _scratch:
        import tempfile
        base = os.environ.get('VERIF_SCRATCH')
        _scratch['dir'] = tempfile.mkdtemp(prefix='c14-', dir=base if base and os.path.isdir(base) else None)
    return _scratch['dir']


def run_pipe_case(sub):
    res = Result()
    T = sub['T']
    d = os.path.join(_scratch_dir(), 'pipe-%d-%d' % (os.getpid(), sub.get('rs', 0)))
    os.makedirs(d, exist_ok=True)
    stub = os.path.join(d, 'stub.sh')
    with open(stub, 'w') as f:
        f.write(_STUBS[sub['pattern']] % {'dir': d})
    os.chmod(stub, os.stat(stub).st_mode | stat.S_IXUSR)
    cls = sub['stage']
    if cls == 'PipeRelay':
        relay = PipeRelay([stub, '{recipient}'], timeout=T)
    elif cls == 'MaildropRelay':
        relay = MaildropRelay(path=stub, timeout=T)
    else:
        relay = DovecotLdaRelay(path=stub, timeout=T)
    env = _envelope(sub)
    if sub['pattern'] == 'never-reads-stdin':
        env.message = env.message + b'x' * 400000
    out = {}
    started = Event()
    g = _attempt(relay, env, out, started)
    try:
        started.wait(STEP_WATCHDOG)
        chain_sleep(T)
        done = bool(out.get('done'))
        pids = []
        for name in os.listdir(d):
            if name.endswith('.pid'):
                try:
                    pids.append(int(name[:-4]))
                except ValueError:
                    pass
        running = []
        for p in pids:
            try:
                os.kill(p, 0)
                with open('/proc/%d/stat' % p) as f:
                    if f.read().split(')')[-1].split()[0] != 'Z':
                        running.append(p)
            except (OSError, IOError):
                pass
        res.detail.update({'T': T, 'relay': cls, 'stub': sub['pattern'], 'attempt_ended': done,
                           'outcome': _outcome(out), 'children_started': len(pids),
                           'children_still_running_after_attempt_ended': len(running),
                           'harness_slept_at_least': K * T})
        res.hits.append('pipe-stall-judged')
        res.obs.append(('pipe-outcome', (cls, sub['pattern'], _outcome(out)[:40])))
        if done:
            res.counts.append(('pipe-attempts-ended-in-time', 1))
            res.counts.append(('pipe-child-left-running-after-timeout' if running else 'pipe-child-gone-after-timeout', 1))
        if not pids:
            res.inconc = 'stall-stage-not-reached: the stub was never started (%s)' % _outcome(out)
        elif not done:
            res.detail['blocked_at'] = where_blocked(g)
            res.detail['active_timeout_scopes_in_blocked_greenlet'] = scopes_of(g)
            res.failed.append(('still-blocked', '%s(timeout=%gs).attempt still blocked after %d*T; child %s; blocked at %s'
                               % (cls, T, K, sub['pattern'], (res.detail['blocked_at'] or ['?'])[-1])))
        elif not _is_transient(out):
            res.failed.append(('wrong-error-class', '%s attempt that timed out ended with "%s", not a transient failure'
                               % (cls, _outcome(out))))
        for p in pids:
            try:
                os.kill(p, signal.SIGKILL)
            except OSError:
                pass
        return res
    finally:
        g.kill(block=False)


# ---------------------------------------------------------------- HTTP relay

_HTTP_OK = (b'HTTP/1.1 200 OK\r\nX-Smtp-Reply: 250; message="2.6.0 accepted"\r\nContent-Length: 2\r\n'
            b'X-Padding: ' + b'p' * 60 + b'\r\n\r\nok')


def run_http_case(sub):
    res = Result()
    T = sub['T']
    pattern = sub['pattern']
    stalled = Event()
    info = {'requests': 0, 'trickled': 0}

    def read_request(sock):
        buf = b''
        while b'\r\n\r\n' not in buf:
            d = sock.recv(65536)
            if not d:
                return buf
            buf += d
        info['requests'] += 1
        return buf

    def silent(sock):
        try:
            while sock.recv(65536):
                pass
        except (OSError, IOError):
            pass

    def handler(sock, addr):
        try:
            if pattern in ('never-answers', 'https-never-handshakes'):
                stalled.set()
                silent(sock)
            elif pattern == 'request-write-noread':
                stalled.set()
                Event().wait()              # never reads: the request (several MB) cannot be written out
            elif pattern == 'https-never-answers-deaf':
                read_request(sock)
                stalled.set()
                Event().wait()              # not even the TLS layer reacts any more (no close_notify back)
            elif pattern in ('partial-status-line', 'headers-unfinished'):
                read_request(sock)
                sock.sendall(b'HTTP/1.1 20' if pattern == 'partial-status-line' else _HTTP_OK.split(b'\r\n\r\n')[0] + b'\r\n')
                stalled.set()
                silent(sock)
            elif pattern == 'trickle-headers':
                read_request(sock)
                for i in range(len(_HTTP_OK)):
                    sock.sendall(_HTTP_OK[i:i + 1])
                    info['trickled'] += 1
                    stalled.set()
                    gevent.sleep(T / 4.0)
            elif pattern == 'slow-ok':
                read_request(sock)
                gevent.sleep(T / 2.0)
                sock.sendall(_HTTP_OK)
        except (OSError, IOError):
            pass
        finally:
            sock.close()

    listener = None
    srv = None
    fillers = []
    https = pattern.startswith('https-')
    if pattern == 'never-accepted':
        listener = socket.socket()
        listener.bind(('127.0.0.1', 0))
        listener.listen(8)
        port = listener.getsockname()[1]
    elif pattern == 'connect-syn-dropped':
        # accept queue of 1, filled by the harness and never accepted: the kernel drops further SYNs, so the
        # relay's connect() itself does not complete
        import socket as _s
        listener = _s.socket()
        listener.bind(('127.0.0.1', 0))
        listener.listen(0)
        port = listener.getsockname()[1]
        for _ in range(3):
            f = _s.socket()
            f.setblocking(False)
            try:
                f.connect(('127.0.0.1', port))
            except (BlockingIOError, OSError):
                pass
            fillers.append(f)
        gevent.sleep(0.02)
    else:
        kw = {'ssl_context': tls.server_context()} if pattern == 'https-never-answers-deaf' else {}
        srv = StreamServer(('127.0.0.1', 0), handler, **kw)
        srv.start()
        port = srv.server_port
    relay = HttpRelay('%s://127.0.0.1:%d/deliver' % ('https' if https else 'http', port), timeout=T,
                      ehlo_as='relay.c14.test', pool_size=1, context=tls.client_context() if https else None)
    hclients = []
    orig_add = relay.add_client

    def add_client():
        c = orig_add()
        hclients.append(c)
        return c
    relay.add_client = add_client
    out = {}
    started = Event()
    g = _attempt(relay, _envelope(dict(sub, big=HTTP_BIG) if pattern == 'request-write-noread' else sub), out, started)
    g_next = None
    try:
        if pattern == 'slow-ok':
            g.join(timeout=STEP_WATCHDOG)
            res.detail.update({'T': T, 'outcome': _outcome(out), 'requests_seen': info['requests']})
            if not out.get('done'):
                res.inconc = 'watchdog: control attempt did not end'
            res.ok = _is_success(out)
            return res
        started.wait(STEP_WATCHDOG)
        gevent.sleep(0)
        if pattern not in ('never-accepted', 'connect-syn-dropped'):
            gevent.wait([stalled, g] + list(hclients), timeout=STEP_WATCHDOG, count=1)
            if not stalled.is_set() and (out.get('done') or any(not c.dead for c in hclients) or not hclients):
                res.inconc = 'stall-stage-not-reached: http attempt %s before the server stalled' % _outcome(out)
                return res
            # (stalled not set, attempt blocked, its only client greenlet already gone: judged below as well --
            # nobody is left who could ever end the attempt; the detail says the stall point was not reached)
        res.detail['stall_point_reached'] = pattern in ('never-accepted', 'connect-syn-dropped') or stalled.is_set()
        if pattern == 'connect-syn-dropped':
            gevent.sleep(0)
            res.detail['relay_socket_connected_when_chain_began'] = any(
                getattr(c.conn, 'sock', None) is not None for c in hclients)
        chain_sleep(T)
        done = bool(out.get('done'))
        clients = list(hclients)
        res.detail.update({'T': T, 'pattern': pattern, 'attempt_ended': done, 'outcome': _outcome(out),
                           'requests_seen': info['requests'], 'bytes_trickled': info['trickled'],
                           'client_greenlets_alive': len([c for c in clients if not c.dead]),
                           'harness_slept_at_least_after_stall_began': K * T})
        res.hits.append('http-stall-judged')
        res.obs.append(('http-outcome', (pattern, _outcome(out)[:40])))
        if not done:
            res.detail['blocked_at'] = where_blocked(g)
            res.detail['client_blocked_at'] = [where_blocked(c) for c in clients if not c.dead]
            res.failed.append(('still-blocked',
                               'HttpRelay(timeout=%gs).attempt still blocked after %d*T; server %s; attempt blocked at '
                               '%s, %d client greenlet(s) alive'
                               % (T, K, pattern, (res.detail['blocked_at'] or ['?'])[-1],
                                  res.detail['client_greenlets_alive'])))
        elif not _is_transient(out):
            res.failed.append(('wrong-error-class', 'HTTP attempt that timed out ended with "%s", not a transient failure'
                               % _outcome(out)))
        if done:
            # no idle_timeout: the client greenlet (a pool slot) must be gone too, or the pool (pool_size=1) is stuck
            res.hits.append('http-client-greenlet-checked')
            alive = [c for c in clients if not c.dead]
            if alive:
                out2 = {}
                g_next = _attempt(relay, _envelope(sub, 1), out2)
                chain_sleep(T)
                res.detail['client_blocked_at'] = [where_blocked(c) for c in alive]
                res.detail['next_attempt_on_this_pool_of_size_1'] = _outcome(out2)
                res.failed.append(('client-greenlet-still-blocked',
                                   'HttpRelay(timeout=%gs, pool_size=1).attempt ended (%s) but its client greenlet is still '
                                   'blocked after %d*T at %s; the next attempt on this pool: %s'
                                   % (T, _outcome(out)[:50], K, (res.detail['client_blocked_at'][0] or ['?'])[-1],
                                      _outcome(out2)[:50])))
        return res
    finally:
        g.kill(block=False)
        if g_next is not None:
            g_next.kill(block=False)
        for c in hclients:
            # never a blocking kill: a client stuck in a TLS goodbye would block again in its own `finally`
            try:
                if c.conn is not None and c.conn.sock is not None:
                    c.conn.sock.close()
            except Exception:
                pass
            c.kill(block=False)
        if srv is not None:
            srv.stop(timeout=0)
        if listener is not None:
            listener.close()
        for f in fillers:
            f.close()


# ---------------------------------------------------------------- HTTP relay, connection re-use

HTTP_REUSE = ['previous-complete+next-silent', 'previous-complete+next-trickle', 'previous-body-unfinished',
              'previous-body-trickled', 'previous-body-short-then-closed']
HTTP_BIG = 6000000     # bytes: more than loopback TCP buffers take (send-side stall)
HTTP_IDLE = 5.0        # only has to outlast the gap between the two attempts; never part of a verdict


def run_http_reuse_case(sub):
    """HttpRelay(timeout=T, idle_timeout=I): message 1 is answered with complete headers (the attempt returns) and
    a body that is complete / never finished / trickled / short-then-closed; message 2 is picked up by the same idle
    client on the same connection.  Whatever is still owed from message 1 and whatever the server does with message
    2 (silent, trickle), attempt 2 must end within the timer chain.  pattern 'reuse-slow-ok' is the control: both
    answers delayed by T/2, both must succeed on ONE connection."""
    res = Result()
    T = sub['T']
    pattern = sub['pattern']
    control = pattern == 'reuse-slow-ok'
    first, _, second = pattern.partition('+next-')
    stalled = Event()
    info = {'conns': 0, 'requests': [], 'trickled': 0}
    head = b'HTTP/1.1 200 OK\r\nX-Smtp-Reply: 250; message="2.6.0 accepted"\r\nContent-Length: %d\r\n\r\n'

    def read_request(sock, buf):
        while b'\r\n\r\n' not in buf:
            d = sock.recv(65536)
            if not d:
                return None, b''
            buf += d
        hdr, _, rest = buf.partition(b'\r\n\r\n')
        n = 0
        for ln in hdr.split(b'\r\n'):
            if ln.lower().startswith(b'content-length:'):
                n = int(ln.split(b':', 1)[1])
        while len(rest) < n:
            d = sock.recv(65536)
            if not d:
                return None, b''
            rest += d
        return hdr, rest[n:]

    def silent(sock):
        try:
            while sock.recv(65536):
                pass
        except (OSError, IOError):
            pass

    def trickle(sock, data):
        for i in range(len(data)):
            sock.sendall(data[i:i + 1])
            info['trickled'] += 1
            stalled.set()
            gevent.sleep(T / 4.0)

    def handler(sock, addr):
        info['conns'] += 1
        conn = info['conns']
        nreq = 0
        buf = b''
        try:
            while True:
                hdr, buf = read_request(sock, buf)
                if hdr is None:
                    return
                nreq += 1
                info['requests'].append((conn, nreq))
                if control:
                    gevent.sleep(T / 2.0)
                    sock.sendall(head % 2 + b'ok')
                elif nreq == 1:
                    if first == 'previous-complete':
                        sock.sendall(head % 2 + b'ok')
                    elif first == 'previous-body-unfinished':
                        sock.sendall(head % 64 + b'only ten b')
                        stalled.set()
                    elif first == 'previous-body-trickled':
                        sock.sendall(head % 200)
                        trickle(sock, b'b' * 200)
                    elif first == 'previous-body-short-then-closed':
                        sock.sendall(head % 64 + b'only ten b')
                        return
                else:
                    if second == 'silent':
                        stalled.set()
                        silent(sock)
                        return
                    elif second == 'trickle':
                        trickle(sock, head % 2 + b'X-Padding: ' + b'p' * 80 + b'\r\n' + b'ok')
                    else:
                        sock.sendall(head % 2 + b'ok')
        except (OSError, IOError):
            pass
        finally:
            sock.close()

    srv = StreamServer(('127.0.0.1', 0), handler)
    srv.start()
    http_idle = HTTP_IDLE * sub.get('scale', 1)
    relay = HttpRelay('http://127.0.0.1:%d/deliver' % srv.server_port, timeout=T, idle_timeout=http_idle,
                      ehlo_as='relay.c14.test')
    hclients = []
    orig_add = relay.add_client

    def add_client():
        c = orig_add()
        hclients.append(c)
        return c
    relay.add_client = add_client
    out1, out2 = {}, {}
    gs = []
    try:
        g1 = _attempt(relay, _envelope(sub), out1)
        gs.append(g1)
        g1.join(timeout=STEP_WATCHDOG)
        res.detail.update({'T': T, 'pattern': pattern, 'idle_timeout': http_idle, 'first_outcome': _outcome(out1)})
        if not _is_success(out1):
            if control:
                res.ok = False
                return res
            res.inconc = 'stall-stage-not-reached: first http attempt did not succeed (%s)' % _outcome(out1)
            return res
        if first in ('previous-body-unfinished', 'previous-body-trickled'):
            stalled.wait(STEP_WATCHDOG)           # what is owed from message 1 is now being withheld
        started = Event()
        g2 = _attempt(relay, _envelope(sub, 1), out2, started)
        gs.append(g2)
        if control:
            g2.join(timeout=STEP_WATCHDOG)
            res.detail.update({'second_outcome': _outcome(out2), 'connections': info['conns'],
                               'requests_seen': list(info['requests'])})
            if not out2.get('done'):
                res.inconc = 'watchdog: control attempt did not end'
            elif info['conns'] != 1 and _is_success(out2):
                res.inconc = 'stall-stage-not-reached: control connection was not re-used'
            res.ok = _is_success(out2)
            return res
        started.wait(STEP_WATCHDOG)
        if first == 'previous-complete':
            gevent.wait([stalled, g2], timeout=STEP_WATCHDOG, count=1)
            if not stalled.is_set():
                res.inconc = 'stall-stage-not-reached: second http attempt %s before the server stalled' % _outcome(out2)
                return res
        else:
            settle()                              # the idle client has picked the request up (loop iterations)
        chain_sleep(T)
        done = bool(out2.get('done'))
        res.detail.update({'second_attempt_ended': done, 'second_outcome': _outcome(out2),
                           'connections': info['conns'], 'requests_seen': list(info['requests']),
                           'bytes_trickled': info['trickled'], 'clients_created': len(hclients),
                           'client_greenlets_alive': len([c for c in hclients if not c.dead]),
                           'harness_slept_at_least_after_stall_began': K * T})
        if info['conns'] != 1 or len(hclients) != 1:
            res.inconc = 'stall-stage-not-reached: the connection was not re-used (%d connections, %d clients)' \
                % (info['conns'], len(hclients))
            return res
        res.hits.append('http-stall-judged')
        res.hits.append('http-reuse-judged')
        res.obs.append(('http-outcome', (pattern, _outcome(out2)[:40])))
        if not done:
            res.detail['blocked_at'] = where_blocked(g2)
            res.detail['client_blocked_at'] = [where_blocked(c) for c in hclients if not c.dead]
            inner = [b[-1] for b in res.detail['client_blocked_at'] if b]
            res.failed.append(('still-blocked',
                               'second HttpRelay(timeout=%gs, idle_timeout set).attempt on the re-used connection still '
                               'blocked after %d*T (%s); client blocked at %s'
                               % (T, K, pattern, inner[0] if inner else 'no client greenlet alive')))
        elif first != 'previous-body-short-then-closed' and not _is_transient(out2):
            res.failed.append(('wrong-error-class', 'second HTTP attempt that timed out ended with "%s", not a transient '
                               'failure' % _outcome(out2)))
        return res
    finally:
        for g in gs:
            g.kill(block=False)
        relay.kill()
        srv.stop(timeout=0)


# ---------------------------------------------------------------- server side: a peer that does not READ
#
# Send-side stalls need real kernel buffers: the server's end of the socketpair gets a small SO_SNDBUF, the harness
# never reads and makes the server write reply after reply (NOOP) until its flush blocks in send().  Where the
# session greenlet is parked is read off its frame (IO.raw_send / IO.raw_recv) -- state polling, no timing.

WRITE_STAGES = ('reply-write', 'timeout-421-write', 'data-354-write', 'eod-250-write')
SMALL_SNDBUF = 4096
BIG = 1000.0           # a timeout that must NOT be the one governing the stalled step ('split' cases)
_NOOP_CAL = {}
_NOOP_REPLY = b'250 2.0.0 Ok\r\n'


def _inq(fileno):
    import fcntl
    import struct
    import termios
    try:
        return struct.unpack('i', fcntl.ioctl(fileno, termios.FIONREAD, b'\0\0\0\0'))[0]
    except (OSError, IOError, ValueError):
        return 0


def _parked(g, st):
    """'ended' | 'send' (blocked in IO.raw_send) | 'recv' (parked in IO.raw_recv) | 'other'."""
    if 'end' in st or g is None or g.dead:
        return 'ended'
    w = where_blocked(g)
    inner = w[-1] if w else ''
    if inner.startswith('smtp/io.py:raw_send:'):
        return 'send'
    if inner.startswith('smtp/io.py:raw_recv:'):
        return 'recv'
    return 'other'


def _wait_parked(get_g, st, get_fileno):
    """Poll until the session is blocked in send, has ended, or has consumed all input and waits for more."""
    t0 = time.monotonic()
    while time.monotonic() - t0 < STEP_WATCHDOG:
        gevent.sleep(0.0005)
        s = _parked(get_g(), st) if get_g() is not None else 'other'
        if s in ('ended', 'send'):
            return s
        if s == 'recv':
            try:
                if _inq(get_fileno()) == 0:
                    return 'recv'
            except Exception:
                return 'recv'
    return 'watchdog'


class _WriteSession(object):
    """A bare Server on a socketpair whose server end has a small send buffer; harness = ClientSide on the other."""

    def __init__(self, command_timeout, data_timeout, use_tls=False):
        import socket as _s
        self.a, self.b = socket.socketpair()
        self.a.setsockopt(_s.SOL_SOCKET, _s.SO_SNDBUF, SMALL_SNDBUF)
        self.st = {}
        ctx = tls.server_context() if use_tls else None
        self.srv = srv = Server(self.a, _Handlers(), address=('127.0.0.1', 4321), context=ctx,
                                command_timeout=command_timeout, data_timeout=data_timeout)
        st = self.st

        def run():
            try:
                try:
                    srv.handle()
                    st['end'] = 'returned'
                except gevent.GreenletExit:
                    st['end'] = 'killed'
                except BaseException as e:
                    st['end'] = 'exception:' + type(e).__name__
            finally:
                try:
                    srv.io.socket.close()
                except Exception:
                    pass
        self.g = gevent.spawn(run)
        self.cl = ClientSide(self.b)

    def fileno(self):
        return self.srv.io.socket.fileno()

    def drive(self, prefix):
        for op in prefix:
            if op[0] == 'r':
                code = self.cl.read_reply()
                if code != op[1]:
                    return 'expected %s got %s' % (op[1], code)
            elif op[0] == 's':
                self.cl.sock.sendall(op[1])
            elif op[0] == 'tls':
                self.cl.sock = tls.client_context().wrap_socket(self.cl.sock)
        return None

    def wait(self):
        return _wait_parked(lambda: self.g, self.st, self.fileno)

    def noops_until_blocked(self, burst=400):
        """`burst` NOOPs in one segment, never reading (the session works through them without waiting for the
        harness, so its command timeout cannot hit in between): returns (n, state), n = unread NOOP replies that
        fitted before the next write blocked (read off the harness' end: FIONREAD / reply length)."""
        self.cl.sock.sendall(b'NOOP\r\n' * burst)
        s = self.wait()
        n = None
        if s == 'send':
            try:
                n = _inq(self.b.fileno()) // len(_NOOP_REPLY)
            except Exception:
                n = None
        return n, s

    def close(self):
        self.g.kill(block=False)
        for s in (self.cl.sock, self.a, self.b):
            try:
                s.close()
            except Exception:
                pass


def _write_prefix(use_tls):
    return (_TLS_EHLO + _RCPT[3:]) if use_tls else _RCPT


def _calibrate_noops(use_tls):
    """How many unread NOOP replies fit after the prefix before the next small write blocks (kernel accounting is
    per write for AF_UNIX, so this is stable within a process)."""
    if use_tls not in _NOOP_CAL:
        ws = _WriteSession(20.0, 20.0, use_tls)
        try:
            with gevent.Timeout(STEP_WATCHDOG, False):
                if ws.drive(_write_prefix(use_tls)) is None:
                    n, s = ws.noops_until_blocked()
                    if s == 'send' and n:
                        _NOOP_CAL[use_tls] = n + 1          # the (n+1)-th small write is the one that blocks
        finally:
            ws.close()
    return _NOOP_CAL.get(use_tls)


def run_server_write_case(sub):
    res = Result()
    T = sub['T']
    stage, pattern = sub['stage'], sub['pattern']
    use_tls = bool(sub.get('tls'))
    control = pattern == 'slow-reader'
    n_cal = None
    if stage != 'reply-write':
        n_cal = _calibrate_noops(use_tls)
        if not n_cal or n_cal < 4:
            res.inconc = 'stall-stage-not-reached: could not calibrate the send buffer (%r)' % (n_cal,)
            return res
    ct, dt = T, T
    ws = _WriteSession(ct, dt, use_tls)
    try:
        wd = gevent.Timeout(STEP_WATCHDOG)
        wd.start()
        try:
            err = ws.drive(_write_prefix(use_tls))
            if err:
                res.inconc = 'stall-stage-not-reached: %s while driving to %s' % (err, stage)
                return res
            sent = 0
            reached = None
            if stage == 'reply-write':
                sent, s = ws.noops_until_blocked()
                reached = s == 'send'
                if use_tls:
                    sent = None         # (bytes in the pipe are TLS records: not counted)
            else:
                # everything in ONE segment, so the session never waits for the harness on its way to the write
                sent = want = n_cal - (2 if stage == 'eod-250-write' else 1)
                burst = b'NOOP\r\n' * want
                if stage == 'data-354-write':
                    burst += b'DATA\r\n'
                elif stage == 'eod-250-write':
                    burst += b'DATA\r\n' + _BODY + b'.\r\n'
                ws.cl.sock.sendall(burst)
                s = ws.wait()
                if stage == 'timeout-421-write':
                    # nothing more is sent; the next thing the server writes is its 421
                    if s != 'recv':
                        res.inconc = 'stall-stage-not-reached: session %s after %d unread NOOP replies' % (s, want)
                        return res
                else:
                    reached = s == 'send'
        except gevent.Timeout as t:
            if t is not wd:
                raise
            res.inconc = 'watchdog: while driving the session to stage %s' % stage
            return res
        except (OSError, IOError) as e:
            res.inconc = 'stall-stage-not-reached: %s while driving the session to stage %s' % (type(e).__name__, stage)
            return res
        finally:
            wd.close()
        if s == 'watchdog':
            res.inconc = 'watchdog: session neither parked nor ended at stage %s' % stage
            return res
        if control:
            # must succeed: the reader is merely slow (T/2), then reads everything and says QUIT
            if not reached:
                res.inconc = 'stall-stage-not-reached: the reply write never blocked (%s)' % s
                return res
            gevent.sleep(T / 2.0)
            code = None
            with gevent.Timeout(STEP_WATCHDOG, False):
                ws.cl.sock.sendall(b'QUIT\r\n')
                while True:
                    code = ws.cl.read_reply()
                    if code in (None, '221', '421'):
                        break
            res.detail.update({'T': T, 'stage': stage, 'pattern': pattern, 'unread_noops_when_write_blocked': sent,
                               'last_reply_code_seen': code, 'session_end': ws.st.get('end')})
            res.ok = code == '221'
            return res
        # ---- the stall has begun (the write is blocked / the client is silent with a full pipe)
        chain_sleep(T)
        ended = 'end' in ws.st
        parked = _parked(ws.g, ws.st)
        blocked_at = where_blocked(ws.g) if not ended else None
        scopes = scopes_of(ws.g) if not ended else None
        ws.cl.drain()
        last = ws.cl.last_code()
        if stage == 'timeout-421-write':
            # reached iff the 421 did not fit into the pipe (a complete 421 read back = it was never blocked)
            reached = not (ended and last == '421' and ws.cl.all.endswith(b'\r\n'))
        res.detail.update({'T': T, 'stage': stage, 'pattern': pattern, 'tls': use_tls, 'server_SO_SNDBUF': SMALL_SNDBUF,
                           'unread_noops': sent, 'calibrated_noops_until_blocked': n_cal,
                           'write_was_blocked': bool(reached), 'session_greenlet_ended': ended,
                           'session_end': ws.st.get('end'), 'parked_in': parked, 'command_timeout': ct,
                           'data_timeout': dt, 'harness_slept_at_least': K * T, 'last_reply_code_read_afterwards': last})
        res.obs.append(('server-end', ('server', stage, pattern, ws.st.get('end'), bool(reached))))
        if not reached:
            res.inconc = 'stall-stage-not-reached: the write at %s did not block (session %s)' % (stage, ws.st.get('end'))
            return res
        res.hits.append('server-write-stall-judged')
        res.hits.append('server-stall-judged')
        if not ended:
            res.detail['blocked_at'] = blocked_at
            res.detail['active_timeout_scopes_in_blocked_greenlet'] = scopes
            res.failed.append(('still-blocked',
                               'session greenlet still blocked after the harness slept %d*T (T=%gs) since the client '
                               'stopped reading (%s); blocked at %s with timeout scopes %s'
                               % (K, T, stage, (blocked_at or ['?'])[-1], scopes)))
        return res
    finally:
        ws.close()


def run_server_write_tcp_case(sub):
    """The same over loopback TCP through a listening SmtpEdge (StreamServer accept path): listener with a small
    SO_SNDBUF (inherited by accepted sockets), client with a small SO_RCVBUF that never reads, NOOPs in batches."""
    import socket as _s
    res = Result()
    T = sub['T']
    lst = _s.socket()
    lst.setsockopt(_s.SOL_SOCKET, _s.SO_SNDBUF, SMALL_SNDBUF)
    lst.bind(('127.0.0.1', 0))
    lst.listen(8)
    lst.setblocking(False)
    port = lst.getsockname()[1]
    glst = socket.socket(fileno=lst.detach())
    edge = SmtpEdge(glst, _NullQueue(), command_timeout=T, data_timeout=T, hostname='c14.test')
    st = {}
    orig = edge.handle

    def handle(sock, addr):
        st['g'] = gevent.getcurrent()
        st['sock'] = sock
        try:
            orig(sock, addr)
            st['end'] = 'returned'
        except gevent.GreenletExit:
            st['end'] = 'killed'
        except BaseException as e:
            st['end'] = 'exception:' + type(e).__name__
            raise
    edge.handle = handle
    edge.server.start()
    c = socket.socket()
    c.setsockopt(_s.SOL_SOCKET, _s.SO_RCVBUF, 2048)
    try:
        s = 'other'
        sent = 0
        with gevent.Timeout(STEP_WATCHDOG, False):
            c.connect(('127.0.0.1', port))
            cl = ClientSide(c)
            for op in _EHLO:
                if op[0] == 'r':
                    code = cl.read_reply()
                    if code != op[1]:
                        res.inconc = 'stall-stage-not-reached: expected %s got %s' % (op[1], code)
                        return res
                else:
                    c.sendall(op[1])
            # one segment train, so the session never waits for the harness on its way to the blocked write
            sent = 3000
            c.sendall(b'NOOP\r\n' * sent)
            s = _wait_parked(lambda: st.get('g'), st, lambda: st['sock'].fileno())
        if s != 'send':
            res.inconc = ('stall-stage-not-reached: session %s after %d unread NOOPs over TCP' % (s, sent)) \
                if s != 'watchdog' else 'watchdog: TCP session neither parked nor ended'
            return res
        chain_sleep(T)
        ended = 'end' in st
        res.detail.update({'T': T, 'stage': sub['stage'], 'pattern': sub['pattern'], 'transport': 'loopback TCP via '
                           'SmtpEdge listener', 'unread_noops': sent, 'session_greenlet_ended': ended,
                           'session_end': st.get('end'), 'harness_slept_at_least': K * T})
        res.obs.append(('server-end', ('edge-tcp', sub['stage'], sub['pattern'], st.get('end'), True)))
        res.hits.append('server-write-stall-judged')
        res.hits.append('edge-stall-judged')
        if not ended:
            res.detail['blocked_at'] = where_blocked(st['g'])
            res.detail['active_timeout_scopes_in_blocked_greenlet'] = scopes_of(st['g'])
            res.failed.append(('still-blocked',
                               'SmtpEdge session greenlet (TCP) still blocked after %d*T (T=%gs) since the client '
                               'stopped reading; blocked at %s' % (K, T, (res.detail['blocked_at'] or ['?'])[-1])))
        return res
    finally:
        g = st.get('g')
        if g is not None:
            g.kill(block=False)
        try:
            edge.server.stop(timeout=0)
        except Exception:
            pass
        for s_ in (c, st.get('sock'), glst):
            try:
                if s_ is not None:
                    s_.close()
            except Exception:
                pass


# ---------------------------------------------------------------- PROXY protocol header in front of an SmtpEdge

_PP_V2_SIG = b'\r\n\r\n\x00\r\nQUIT\n'
_PP_FULL = {'v1': b'PROXY TCP4 192.0.2.7 192.0.2.8 4321 25\r\n',
            'v2': _PP_V2_SIG + b'\x21\x11\x00\x0c' + b'\xc0\x00\x02\x07\xc0\x00\x02\x08\x10\xe1\x00\x19'}
_PP_CLASSES = {'v1': _pp_mod.ProxyProtocolV1, 'v2': _pp_mod.ProxyProtocolV2, 'auto': _pp_mod.ProxyProtocol}


def _proxy_edge(version, T):
    cls = type('C14' + _PP_CLASSES[version].__name__ + 'SmtpEdge', (_PP_CLASSES[version], SmtpEdge), {})
    return cls(None, _NullQueue(), command_timeout=T, data_timeout=T, hostname='c14.test')


def run_proxy_case(sub):
    """A (ProxyProtocol*, SmtpEdge) edge with command_timeout = data_timeout = T: the peer never completes the
    PROXY header (silent / part of it / one byte per T/4).  Nothing SMTP can be said yet, so only 'the session
    greenlet ends' is demanded.  Control 'slow-header': the header arrives in two halves T/2 apart, then EHLO."""
    res = Result()
    T = sub['T']
    version, pattern = sub['stage'], sub['pattern']
    rnd = random.Random(sub.get('rs', 0))
    full = _PP_FULL['v2' if version == 'v2' else 'v1' if version == 'v1' else rnd.choice(['v1', 'v2'])]
    a, b = socket.socketpair()
    edge = _proxy_edge(version, T)
    st = {}

    def run():
        try:
            edge.handle(a, ('127.0.0.1', 4321))
            st['end'] = 'returned'
        except gevent.GreenletExit:
            st['end'] = 'killed'
        except BaseException as e:
            st['end'] = 'exception:' + type(e).__name__
    g = gevent.spawn(run)
    cl = ClientSide(b)
    try:
        if pattern == 'slow-header':
            codes = []
            with gevent.Timeout(STEP_WATCHDOG, False):
                h = len(full) // 2
                b.sendall(full[:h])
                gevent.sleep(T / 2.0)
                b.sendall(full[h:])
                codes.append(cl.read_reply())
                gevent.sleep(T / 2.0)
                b.sendall(b'EHLO c14.test\r\n')
                codes.append(cl.read_reply())
                b.sendall(b'QUIT\r\n')
                codes.append(cl.read_reply())
            res.detail.update({'T': T, 'proxy_protocol': version, 'reply_codes': codes, 'session_end': st.get('end')})
            res.ok = codes == ['220', '250', '221']
            return res
        sent = 0
        accepted = None
        if pattern == 'trickle-bytes':
            delta, n = T / 4.0, 4 * K
            for i in range(n):
                if 'end' in st and accepted is None:
                    accepted = sent
                try:
                    b.sendall(full[i:i + 1])
                    sent += 1
                except (OSError, IOError):
                    if accepted is None:
                        accepted = sent
                gevent.sleep(delta)
            settle()
        else:
            frag = b''
            if pattern == 'partial-header':
                frag = full[:rnd.randrange(1, len(full) - 1)]
                b.sendall(frag)
            res.detail['fragment_sent'] = frag
            gevent.sleep(0)
            chain_sleep(T)
        ended = 'end' in st
        cl.drain()
        res.detail.update({'T': T, 'proxy_protocol': version, 'pattern': pattern, 'session_greenlet_ended': ended,
                           'session_end': st.get('end'), 'harness_slept_at_least': K * T,
                           'edge_command_timeout': T, 'replies_tail': cl.all[-120:]})
        res.obs.append(('server-end', ('edge-proxy', version, pattern, st.get('end'), cl.last_code())))
        if pattern == 'trickle-bytes':
            res.detail['trickle_units_sent'] = sent
            res.detail['trickle_units_before_session_ended'] = accepted
        # OBSERVATION ONLY, never a verdict: the PROXY header is read before any SMTP session exists and no configured
        # timeout is documented to govern it, so C14 (server *session*, relay attempts) does not demand a bound here
        res.counts.append(('unjudged/edge-proxy/%s/%s/%s' % (version, pattern,
                                                              'ended' if ended else 'still-waiting-after-%d-x-command-timeout' % K), 1))
        if not ended:
            res.detail['blocked_at'] = where_blocked(g)
        return res
    finally:
        g.kill(block=False)
        for s in (a, b):
            try:
                s.close()
            except Exception:
                pass


# ---------------------------------------------------------------- WsgiEdge: request body that never arrives (observed)

class _NoPtrW(_NoPtr):
    def kill(self, block=True):
        pass


def run_wsgi_observation(sub):
    """Observation only: WsgiEdge has no timeout parameter, so nothing is demanded."""
    import slimta.edge.wsgi as _wsgi_mod
    res = Result()
    T = sub['T']
    _wsgi_mod.PtrLookup = _NoPtrW
    edge = _wsgi_mod.WsgiEdge(_NullQueue(), hostname='c14.test', listener=('127.0.0.1', 0))
    edge.server.start()
    c = None
    try:
        c = socket.create_connection(('127.0.0.1', edge.server.server_port))
        c.sendall(b'POST / HTTP/1.1\r\nHost: c14.test\r\nContent-Type: message/rfc822\r\nContent-Length: 100\r\n'
                  b'X-Ehlo: c14.test\r\nX-Envelope-Sender: c0BjMTQudGVzdA==\r\nX-Envelope-Recipient: ckBjMTQudGVzdA==\r\n'
                  b'\r\nSubject: c14\r\n')
        chain_sleep(T)
        got = None
        with gevent.Timeout(0.05, False):
            got = c.recv(200)
        outcome = 'still-waiting' if got is None else 'answered-or-closed'
        res.detail.update({'T': T, 'response_bytes': got, 'harness_slept_at_least': K * T})
        res.counts.append(('unjudged/edge-wsgi/request-body/never-arrives/' + outcome, 1))
        return res
    finally:
        if c is not None:
            c.close()
        edge.server.stop(timeout=0)


# ---------------------------------------------------------------- relay with the DEFAULT TLS context (child process)

CHILD_TIMEOUT = 25.0       # real time; only ever yields inconclusive (a frozen hub is diagnosed INSIDE the child)
_CHILD = os.path.join(os.path.dirname(os.path.dirname(os.path.abspath(__file__))), 'vf', 'c14_default_ctx_child.py')


def _run_child(arg, timeout):
    """-> (dict printed by the child | None, 'finished' | 'killed-by-timeout' | 'crashed: ..')."""
    import json
    from gevent import subprocess as gsub
    try:
        p = gsub.run([sys.executable, _CHILD, json.dumps(arg)], stdout=gsub.PIPE, stderr=gsub.PIPE, timeout=timeout)
    except gsub.TimeoutExpired:
        return None, 'killed-by-timeout'
    for line in p.stdout.decode('utf-8', 'replace').splitlines()[::-1]:
        if line.startswith('{'):
            try:
                return json.loads(line), 'finished'
            except ValueError:
                break
    return None, 'crashed: rc=%s %s' % (p.returncode, p.stderr.decode('utf-8', 'replace')[-200:])


def run_default_ctx_case(sub):
    """StaticSmtpRelay / StaticLmtpRelay given NO TLS context, STARTTLS or tls_immediately, next hop silent in / trickling
    / completing (untrusted certificate) the handshake -- in a child process, because a handshake on a blocking SSL
    socket freezes the whole process (vf/c14_default_ctx_child.py).  Child printed its result: judged like any relay
    stall (attempt ended within the chain, transient).  Child's watchdog THREAD reported that the hub did not run for
    max(3 s, 15*T) while the thread itself was scheduled all along: the SAME scenario is run with an explicit vf.tls
    context -- that one finishing normally means the harness and the machine are fine and the first child's hub was
    frozen by the code under test ('whole-process-stalled'); otherwise inconclusive.  Child killed by the parent's
    subprocess timeout (neither result nor diagnosis in time): inconclusive, never a verdict."""
    res = Result()
    T = sub['T']
    timeout = CHILD_TIMEOUT
    arg = {'proto': sub['proto'], 'mode': sub['stage'], 'pattern': sub['pattern'], 'context': sub.get('context', 'default'),
           'T': T}
    out, how = _run_child(arg, timeout)
    res.detail.update({'T': T, 'child_argument': arg, 'child': how, 'child_timeout': timeout, 'child_result': out})
    if how.startswith('crashed'):
        res.inconc = 'harness-exception: child process ' + how[:200]
        return res
    if how == 'killed-by-timeout':
        res.inconc = 'watchdog: child process printed neither a result nor a diagnosis within %gs' % timeout
        return res
    if out.get('hub_frozen'):
        ctl, chow = _run_child(dict(arg, context='explicit'), timeout)
        res.detail.update({'control_child_with_explicit_context': chow, 'control_child_result': ctl})
        if chow != 'finished' or (ctl or {}).get('hub_frozen') or not (ctl or {}).get('done') \
                or arg['context'] == 'explicit':
            res.inconc = 'watchdog: the hub of the child process did not run for %ss, but its control did not finish ' \
                         'normally either (%s)' % (out.get('for'), chow)
            return res
        res.hits.append('default-context-judged')
        res.failed.append(('whole-process-stalled',
                           'relay without a TLS context (%s, %s, next hop %s in the handshake, timeouts %gs): the hub of '
                           'the child process running this ONE attempt did not run for %ss (main thread at %s) while a '
                           'thread of the same process was scheduled %d times; the same scenario with an explicit '
                           'gevent context ended normally (%s): the handshake blocks the whole process'
                           % (arg['proto'], arg['mode'], arg['pattern'], T, out.get('for'),
                              (out.get('main_thread_at') or ['?'])[-1], out.get('watchdog_thread_wakeups_meanwhile', 0),
                              (ctl or {}).get('outcome', '?')[:60])))
        return res
    if sub['pattern'] != 'untrusted' and not out.get('stall_began'):
        res.inconc = 'stall-stage-not-reached: attempt in the child ended (%s) before the handshake stalled' % out.get('outcome')
        return res
    res.hits.append('default-context-judged')
    res.obs.append(('relay-outcome', (sub['proto'], 'tls-default-context', sub['stage'], sub['pattern'],
                                      (out.get('outcome') or '')[:40])))
    if not out.get('done'):
        res.detail['blocked_at'] = out.get('blocked_at')
        res.failed.append(('still-blocked', 'attempt in the child still blocked after %d*T (T=%gs) since the next hop %s in '
                           'the TLS handshake; blocked at %s' % (K, T, sub['pattern'], (out.get('blocked_at') or ['?'])[-1])))
    elif not out.get('transient'):
        res.failed.append(('wrong-error-class', 'attempt ended with "%s" instead of a TransientRelayError'
                           % out.get('outcome')))
    return res


# ---------------------------------------------------------------- MX relay: a resolver that never answers

DNS_T = 0.1            # the stub channel's own timeout (c-ares: Channel(timeout=..., tries=1))


class CaresLikeChannel(object):
    """Stands in for pycares.Channel through the documented DNSResolver.channel plug point, with c-ares' timeout
    contract: a query that gets no answer is completed with ARES_ETIMEOUT once `timeout` seconds (real clock) have
    passed AND the owner calls process_fd(); timeout() tells how long the owner may wait at most; getsock() lists
    the (UDP) socket while queries are outstanding.  Answers from `table` are delivered as a datagram would be:
    the socket becomes readable, process_fd() completes the query."""

    def __init__(self, timeout):
        import socket as _s
        self.to = timeout
        self.sock = _s.socket(_s.AF_INET, _s.SOCK_DGRAM)
        self.sock.bind(('127.0.0.1', 0))
        self.sock.setblocking(False)
        self.pending = []          # [deadline, callback, name, answer_at, answer]
        self.table = {}            # name -> (delay, answer)
        self.process_calls = 0

    def query(self, name, query_type, callback):
        now = time.monotonic()
        delay, answer = self.table.get((name, query_type), (None, None))
        e = [now + self.to, callback, name, None if delay is None else now + delay, answer]
        self.pending.append(e)
        if delay is not None:
            gevent.spawn_later(delay, self._datagram)

    def _datagram(self):
        try:
            self.sock.sendto(b'x', self.sock.getsockname())
        except (OSError, IOError):
            pass

    def getsock(self):
        return ([self.sock.fileno()] if self.pending else []), []

    def timeout(self, t=None):
        if not self.pending:
            return 0.0
        now = time.monotonic()
        return max(0.0, min(min(e[0], e[3] if e[3] is not None else e[0]) for e in self.pending) - now)

    def process_fd(self, rfd, wfd):
        self.process_calls += 1
        try:
            while self.sock.recv(64):
                pass
        except (OSError, IOError):
            pass
        now = time.monotonic()
        due, keep = [], []
        for e in self.pending:
            (due if (e[3] is not None and now >= e[3]) or now >= e[0] else keep).append(e)
        self.pending = keep
        for e in due:
            if e[3] is not None and now >= e[3]:
                e[1](e[4], None)
            else:
                e[1](None, _cares_errno.ARES_ETIMEOUT)

    def cancel(self):
        p, self.pending = self.pending, []
        for e in p:
            e[1](None, _cares_errno.ARES_ECANCELLED)


class _MxAnswer(object):
    def __init__(self, host):
        self.priority, self.host, self.ttl = 10, host, 300


_dns = {}


def _dns_channel():
    ch = _dns.get('ch')
    if ch is None:
        ch = _dns['ch'] = CaresLikeChannel(DNS_T)
    if _dns_mod.DNSResolver._channel is not ch:
        _dns_mod.DNSResolver.channel = ch
        _dns_mod.DNSResolver._channel = ch
    return ch


def run_mx_dns_case(sub):
    """MxSmtpRelay(connect/command/data timeout = T) whose MX lookup is never answered.  The step is not inside any
    of the relay's own timeouts; what bounds it is the resolver's (here DNS_T), which slimta's DNSResolver must
    drive (_wait_channel: timeout() -> process_fd()).  The resolver's clock is the real clock, not a hub timer, so
    after the chain the harness keeps polling `done` for a generous real-time margin before it says 'blocked'."""
    res = Result()
    T = sub['T']
    pattern = sub['pattern']
    ch = _dns_channel()
    dns_t = ch.to = DNS_T * sub.get('scale', 1)
    domain = 'mx%d-%s.c14.test' % (sub.get('rs', 0) % 100000, pattern)
    ds = Downstream14({}, pipelining=True)
    if pattern == 'slow-answer':
        import pycares
        ch.table[(domain, pycares.QUERY_TYPE_MX)] = (dns_t / 2.0, [_MxAnswer('next-hop.c14.test')])
    relay = MxSmtpRelay(context=tls.client_context(), socket_creator=ds.creator, connect_timeout=T, command_timeout=T,
                        data_timeout=T, ehlo_as='relay.c14.test')
    env = Envelope('sender@c14.test', ['rcpt@' + domain])
    env.parse(b'Subject: c14\r\n\r\nbody\r\n')
    out = {}
    started = Event()
    g = _attempt(relay, env, out, started)
    try:
        if pattern == 'slow-answer':
            g.join(timeout=STEP_WATCHDOG)
            res.detail.update({'T': T, 'resolver_timeout': dns_t, 'answer_delay': dns_t / 2.0, 'outcome': _outcome(out)})
            if not out.get('done'):
                res.inconc = 'watchdog: control attempt did not end'
            res.ok = _is_success(out)
            return res
        started.wait(STEP_WATCHDOG)
        gevent.sleep(0)
        calls0 = ch.process_calls
        chain_sleep(max(T, dns_t))
        t0 = time.monotonic()
        polls = 0
        while not out.get('done') and time.monotonic() - t0 < 5.0:       # margin: real clock on the other side
            gevent.sleep(0.01)
            polls += 1
        done = bool(out.get('done'))
        res.detail.update({'T': T, 'resolver_timeout': dns_t, 'pattern': pattern, 'attempt_ended': done,
                           'outcome': _outcome(out), 'extra_polls_after_chain': polls,
                           'process_fd_calls_by_slimta': ch.process_calls - calls0,
                           'harness_slept_at_least': K * max(T, dns_t)})
        res.hits.append('mx-dns-stall-judged')
        res.obs.append(('relay-outcome', ('mx', 'dns', pattern, None, _outcome(out)[:40])))
        if not done:
            res.detail['blocked_at'] = where_blocked(g)
            res.failed.append(('still-blocked',
                               'MxSmtpRelay.attempt still blocked %d x the resolver timeout (%gs) plus %d polls after an MX '
                               'query that is never answered; blocked at %s'
                               % (K, dns_t, polls, (res.detail['blocked_at'] or ['?'])[-1])))
        elif not _is_transient(out):
            res.failed.append(('wrong-error-class', 'attempt whose MX lookup timed out ended with "%s" instead of a '
                               'TransientRelayError' % _outcome(out)))
        return res
    finally:
        g.kill(block=False)
        ch.pending = [e for e in ch.pending if e[2] != domain]
        ds.kill()


# ---------------------------------------------------------------- relay: the idle timeout itself

def run_relay_idle_expiry_case(sub):
    """idle_timeout = T: message 1 succeeds, no second message comes.  The client must send QUIT after T and -- the
    next hop never answering it (or answering) -- be gone within the chain (idle T, then QUIT bounded by the command
    timeout T).  HTTP: the idle connection is closed after T."""
    res = Result()
    T = sub['T']
    pattern = sub['pattern']
    if sub['side'] == 'http':
        info = {'conns': 0, 'closed': 0}

        def handler(sock, addr):
            info['conns'] += 1
            try:
                buf = b''
                while True:
                    while b'\r\n\r\n' not in buf:
                        d = sock.recv(65536)
                        if not d:
                            info['closed'] += 1
                            return
                        buf += d
                    hdr, _, buf = buf.partition(b'\r\n\r\n')
                    n = [int(l.split(b':', 1)[1]) for l in hdr.split(b'\r\n') if l.lower().startswith(b'content-length:')][0]
                    while len(buf) < n:
                        buf += sock.recv(65536)
                    buf = buf[n:]
                    sock.sendall(_HTTP_OK)
            except (OSError, IOError, IndexError):
                pass
            finally:
                sock.close()
        srv = StreamServer(('127.0.0.1', 0), handler)
        srv.start()
        relay = HttpRelay('http://127.0.0.1:%d/deliver' % srv.server_port, timeout=T, idle_timeout=T,
                          ehlo_as='relay.c14.test')
        ds = None
    else:
        srv = None

        def script(ctx, st):
            return ('stall',) if (st == 'quit' and pattern == 'quit-unanswered') else ('ok',)
        sub2 = dict(sub, idle=T, stage='none')
        ds, relay, clients = _mk_relay(sub2, script, T)
    if sub['side'] == 'http':
        clients = []
        orig_add = relay.add_client

        def add_client():
            c = orig_add()
            clients.append(c)
            return c
        relay.add_client = add_client
    out = {}
    g = _attempt(relay, _envelope(sub), out)
    try:
        g.join(timeout=STEP_WATCHDOG)
        if not _is_success(out):
            res.inconc = 'stall-stage-not-reached: the first attempt did not succeed (%s)' % _outcome(out)
            return res
        # the idle timer was armed when the attempt's result was set: link 1 covers it, link 2 the QUIT
        chain_sleep(T)
        alive = [c for c in clients if not c.dead]
        res.detail.update({'T': T, 'idle_timeout': T, 'pattern': pattern, 'first_outcome': _outcome(out),
                           'client_greenlets_alive': len(alive), 'harness_slept_at_least_after_attempt_ended': K * T})
        if ds is not None:
            cmds = [[v for v, _ in c.commands] for c in ds.conns]
            res.detail['commands_seen_by_next_hop'] = cmds
        else:
            res.detail['connections'] = info['conns']
            res.detail['connections_closed_by_relay'] = info['closed']
        res.hits.append('idle-expiry-judged')
        res.obs.append(('relay-outcome', (sub.get('proto', 'http'), 'idle-expiry', pattern, sub.get('pipelining'),
                                          'alive=%d' % len(alive))))
        if ds is None:
            # an idle HttpRelayClient stays in the pool (without a connection) by design: what must not outlive
            # the idle timeout is the connection
            if info['closed'] < info['conns']:
                res.detail['blocked_at'] = [where_blocked(c) for c in alive]
                res.failed.append(('idle-connection-still-open',
                                   'idle_timeout=%gs: %d*T after the only message was delivered the HTTP connection '
                                   'is still open' % (T, K)))
        elif alive:
            res.detail['blocked_at'] = [where_blocked(c) for c in alive]
            res.failed.append(('client-greenlet-still-blocked',
                               'idle_timeout=%gs: %d*T after the only message was delivered the idle relay client is '
                               'still there, blocked at %s' % (T, K, (res.detail['blocked_at'][0] or ['?'])[-1])))
        return res
    finally:
        g.kill(block=False)
        for c in clients:
            c.kill(block=False)
        if ds is not None:
            ds.kill()
        if srv is not None:
            relay.kill()
            srv.stop(timeout=0)


# ---------------------------------------------------------------- case generation

def _key(sub):
    sec = sub.get('second')
    T = sub.get('T_nominal', sub['T'])
    return (sub['side'], sub.get('proto'), sub['stage'], sub['pattern'], sub.get('pipelining'), sub.get('nrcpt'),
            bool(sub.get('tls')), bool(sub.get('idle')),
            (sec['stage'], sec.get('mode'), sec.get('pattern')) if sec else None, sub.get('tls_mode'), sub.get('context'), sub.get('only'),
            bool(sub.get('split')), bool(sub.get('big')), T)


def all_subcases(tier, seed):
    rnd = random.Random('c14-%s-%d' % (tier, seed))
    stall, control = [], []

    def add(lst, **kw):
        kw['rs'] = rnd.randrange(1 << 30)
        lst.append(kw)

    for T in TS[tier]:
        for stage in sorted(SERVER_STAGES):
            for pattern in SERVER_STAGES[stage][2]:
                add(stall, side='server', stage=stage, pattern=pattern, T=T)
        for stage, pattern in EDGE_STAGES:
            add(stall, side='edge', stage=stage, pattern=pattern, T=T)
        for proto in ('smtp', 'lmtp'):
            for pl in (False, True):
                for stage in RELAY_STALL_STAGES:
                    add(stall, side='relay', proto=proto, pipelining=pl, nrcpt=1, stage=stage, pattern='stall', T=T)
                    if stage != 'connect':
                        add(stall, side='relay', proto=proto, pipelining=pl, nrcpt=1 + (rnd.random() < 0.3),
                            stage=stage, pattern='partial', T=T)
                two = ['rcpt0', 'rcpt1', 'data', 'eod0', 'rset', 'quit'] + (['eod1'] if proto == 'lmtp' else [])
                for stage in two:
                    add(stall, side='relay', proto=proto, pipelining=pl, nrcpt=2, stage=stage, pattern='stall', T=T)
                trick = ['banner', 'ehlo', 'mail', 'data', 'eod0', 'quit']
                tlsst = ['mail', 'eod0', 'quit']
                if tier == 'thorough':
                    trick += ['starttls', 'auth', 'rcpt0', 'rset']
                    tlsst += ['ehlo', 'auth', 'rcpt0', 'data', 'rset']
                    for stage in two:
                        add(stall, side='relay', proto=proto, pipelining=pl, nrcpt=2, stage=stage, pattern='trickle' if
                            stage in _TRICKLE_CODE else 'partial', T=T)
                for stage in trick:
                    add(stall, side='relay', proto=proto, pipelining=pl, nrcpt=1, stage=stage, pattern='trickle', T=T)
                for stage in tlsst:
                    add(stall, side='relay', proto=proto, pipelining=pl, nrcpt=1, stage=stage, pattern='stall', T=T,
                        tls=True)
                    if tier == 'thorough':
                        add(stall, side='relay', proto=proto, pipelining=pl, nrcpt=2, stage=stage, pattern='partial', T=T,
                            tls=True)
        for cls in ('PipeRelay', 'MaildropRelay', 'DovecotLdaRelay'):
            for pattern in sorted(_STUBS):
                add(stall, side='pipe', stage=cls, pattern=pattern, nrcpt=2 if cls == 'PipeRelay' else 1, T=T)
        for pattern in ('never-accepted', 'never-answers', 'partial-status-line', 'headers-unfinished', 'trickle-headers'):
            add(stall, side='http', stage='response' if pattern != 'never-accepted' else 'connect', pattern=pattern,
                nrcpt=1, T=T)
        for pattern in HTTP_REUSE:
            add(stall, side='http', stage='reuse', pattern=pattern, nrcpt=1, T=T)
        # --- audit strata -------------------------------------------------------------------------------------
        # server: a peer that does not READ (send-side stalls; real kernel buffers, small SO_SNDBUF)
        for stage in WRITE_STAGES:
            add(stall, side='server', stage=stage, pattern='peer-not-reading', T=T)
        add(stall, side='server', stage='reply-write', pattern='peer-not-reading', T=T, tls=True)
        add(stall, side='edge-tcp', stage='reply-write', pattern='peer-not-reading', T=T)
        # PROXY protocol header in front of an SmtpEdge that never completes
        for version in ('v1', 'v2', 'auto'):
            for pattern in ('silent', 'partial-header', 'trickle-bytes'):
                add(stall, side='edge-proxy', stage=version, pattern=pattern, T=T)
        # relay: next hop stops reading the message; HELO fallback; end of an empty message; RSET after an LMTP
        # per-recipient failure; the idle timeout itself
        for proto in ('smtp', 'lmtp'):
            for pl in (False, True):
                add(stall, side='relay', proto=proto, pipelining=pl, nrcpt=1, stage='body', pattern='noread', T=T,
                    big=300000, small_buffers=True)
                if tier == 'thorough':
                    add(stall, side='relay', proto=proto, pipelining=pl, nrcpt=2, stage='body', pattern='noread', T=T,
                        big=4000000)
                if proto == 'smtp':
                    for pattern in ('stall', 'partial'):
                        add(stall, side='relay', proto=proto, pipelining=pl, nrcpt=1, stage='helo', pattern=pattern, T=T)
                    add(stall, side='relay', proto=proto, pipelining=pl, nrcpt=1 + (rnd.random() < 0.5),
                        stage='empty-data-eod', pattern='stall', T=T)
                else:
                    add(stall, side='relay', proto=proto, pipelining=pl, nrcpt=2, stage='rset-after-lmtp-failure',
                        pattern='stall', T=T)
                for pattern in ('quit-unanswered', 'quit-answered'):
                    add(stall, side='relay', proto=proto, pipelining=pl, nrcpt=1, stage='idle-expiry', pattern=pattern, T=T)
        add(stall, side='http', stage='idle-expiry', pattern='connection-idle', nrcpt=1, T=T)
        for pattern in ('request-write-noread', 'connect-syn-dropped', 'https-never-handshakes', 'https-never-answers-deaf'):
            add(stall, side='http', stage='connect' if 'connect' in pattern else 'request' if 'request' in pattern
                else 'response', pattern=pattern, nrcpt=1, T=T)
        add(stall, side='edge-wsgi', stage='request-body', pattern='never-arrives', T=T)
        # MX relay: a resolver that never answers (bounded by the resolver's own timeout DNS_T, driven by slimta)
        add(stall, side='relay-mx', stage='dns', pattern='never-answers', nrcpt=1, T=T)
        # SMTP / LMTP connection re-use (idle_timeout set): message 1 succeeds, the next hop goes silent at a step of
        # message 2 on the same connection, or sends half a line unasked while idle (the _check_server_timeout probe)
        for proto in ('smtp', 'lmtp'):
            for pl in (False, True):
                for frag in sorted(PROBE_FRAGMENTS):
                    for idle in (None, RELAY_IDLE):
                        add(stall, side='relay', proto=proto, pipelining=pl, nrcpt=1, stage='probe-before-mail',
                            pattern=frag, T=T, idle=idle)
                # encrypted re-used connection: bytes below the TLS layer while idle, then the next message
                for pat in sorted(TLS_IDLE_FRAGMENTS):
                    add(stall, side='relay', proto=proto, pipelining=pl, nrcpt=1, stage='none', pattern='stall',
                        T=T, idle=RELAY_IDLE, second={'stage': 'tls-idle-probe', 'mode': 'reuse', 'pattern': pat})
                    if pl and proto == 'smtp':
                        add(stall, side='relay', proto=proto, pipelining=pl, nrcpt=1, stage='none', pattern='stall',
                            T=T, idle=RELAY_IDLE, tls_mode='immediate',
                            second={'stage': 'tls-idle-probe', 'mode': 'reuse', 'pattern': pat})
                for s2 in (('mail', 'eod0', 'rset', 'idle-probe') if tier == 'quick' else ('idle-probe',)):
                    sec = {'stage': s2, 'mode': 'reuse'}
                    if s2 == 'idle-probe':
                        sec['pattern'] = 'partial'
                    add(stall, side='relay', proto=proto, pipelining=pl, nrcpt=1, stage='none', pattern='stall',
                        T=T, idle=RELAY_IDLE, second=sec)
        if tier == 'thorough':
            firsts = ['connect', 'banner', 'ehlo', 'mail', 'rcpt0', 'data', 'eod0', 'rset', 'quit']
            seconds = ['connect', 'banner', 'ehlo', 'mail', 'rcpt0', 'data', 'eod0', 'rset', 'quit']
            for proto in ('smtp', 'lmtp'):
                for pl in (False, True):
                    for s1 in firsts:
                        if s1 == 'eod0' and pl:
                            continue          # first attempt never ends there (known), nothing to follow
                        for s2 in seconds:
                            add(stall, side='relay', proto=proto, pipelining=pl, nrcpt=1, stage=s1, pattern='stall',
                                T=T, second={'stage': s2, 'mode': 'reconnect'})
                    for s2 in ('mail', 'rcpt0', 'data', 'eod0', 'rset', 'quit'):
                        add(stall, side='relay', proto=proto, pipelining=pl, nrcpt=1, stage='none', pattern='stall',
                            T=T, idle=RELAY_IDLE, second={'stage': s2, 'mode': 'reuse'})
    # server / SmtpEdge configured with ONE timeout only.  command_timeout only (data_timeout left out, the common
    # configuration): the DATA phase must be bounded all the same (it defaults to the command timeout), and so is
    # the step after end-of-data.  Mirror, data_timeout only: DATA phase judged, command phase observed.
    T = TS[tier][-1]
    for side in ('server', 'edge'):
        for stage, pattern in (('data', 'silent'), ('data', 'silent-partial-body'), ('data', 'silent-after-line'),
                               ('data', 'partial-eod'), ('data', 'trickle-bytes'), ('data', 'trickle-lines'),
                               ('eod', 'silent'), ('eod', 'partial-line'), ('ehlo', 'silent'),
                               ('tls-data', 'silent-partial-body'), ('tls-data', 'trickle-bytes')):
            add(stall, side=side, stage=stage, pattern=pattern, T=T, only='command')
        for stage, pattern in (('data', 'silent-partial-body'), ('data', 'trickle-bytes'), ('ehlo', 'silent'),
                               ('eod', 'silent')):
            add(stall, side=side, stage=stage, pattern=pattern, T=T, only='data')
    # relay with command_timeout only (data_timeout defaults to it): message send and end-of-data reply stay bounded
    for proto in ('smtp', 'lmtp'):
        for pl in (False, True):
            for stage, pattern in (('eod0', 'stall'), ('eod0', 'trickle')):
                add(stall, side='relay', proto=proto, pipelining=pl, nrcpt=1, stage=stage, pattern=pattern, T=T,
                    only='command')
    # relay given NO TLS context (library default), each case in a child process; plus explicit-context controls
    T = TS_SLOW[tier][0]
    for proto in ('smtp', 'lmtp'):
        for mode in ('starttls', 'immediate'):
            for pattern in ('silent', 'trickle', 'untrusted'):
                add(stall, side='relay-default-ctx', proto=proto, stage=mode, pattern=pattern, T=T)
    add(stall, side='relay-default-ctx', proto='smtp', stage='starttls', pattern='silent', T=T, context='explicit')
    add(stall, side='relay-default-ctx', proto='lmtp', stage='immediate', pattern='trickle', T=T, context='explicit')
    # 'split' cases: only the timeout documented to govern the stalled step is T, the others are BIG
    T = TS[tier][-1]
    for stage in sorted(SERVER_STAGES):
        pats = SERVER_STAGES[stage][2]
        for pattern in (pats[:1] + [p for p in pats[1:] if p in ('silent-partial-body', 'trickle-bytes')][:1]):
            add(stall, side='server', stage=stage, pattern=pattern, T=T, split=True)
    for stage, pattern in EDGE_STAGES[:3]:
        add(stall, side='edge', stage=stage, pattern=pattern, T=T, split=True)
    for proto in ('smtp', 'lmtp'):
        for pl in (False, True):
            for stage in RELAY_STALL_STAGES:
                add(stall, side='relay', proto=proto, pipelining=pl, nrcpt=1, stage=stage, pattern='stall', T=T,
                    split=True)
            add(stall, side='relay', proto=proto, pipelining=pl, nrcpt=1, stage='body', pattern='noread', T=T,
                big=300000, small_buffers=True, split=True)
            add(stall, side='relay', proto=proto, pipelining=pl, nrcpt=1, stage='eod0', pattern='trickle', T=T,
                split=True)
            add(stall, side='relay', proto=proto, pipelining=pl, nrcpt=1, stage='mail', pattern='trickle', T=T,
                split=True)
    for T in TS_SLOW[tier]:
        add(control, side='server', stage='all-commands', pattern='slow-client', T=T)
        add(control, side='server', stage='reply-write', pattern='slow-reader', T=T)
        for version in ('v1', 'v2', 'auto'):
            add(control, side='edge-proxy', stage=version, pattern='slow-header', T=T)
        add(control, side='relay-mx', stage='dns', pattern='slow-answer', nrcpt=1, T=T)
        for proto in ('smtp', 'lmtp'):
            add(control, side='relay', proto=proto, pipelining=True, nrcpt=1, stage='all-stages', pattern='slow-replies',
                T=T, slow_body=True, big=300000, small_buffers=True)
        for proto in ('smtp', 'lmtp'):
            for pl in (False, True):
                for nr in (1, 2):
                    add(control, side='relay', proto=proto, pipelining=pl, nrcpt=nr, stage='all-stages',
                        pattern='slow-replies', T=T)
                add(control, side='relay', proto=proto, pipelining=pl, nrcpt=1, stage='all-stages', pattern='slow-replies',
                    T=T, tls=True, auth=True)
        add(control, side='http', stage='response', pattern='slow-ok', nrcpt=1, T=T)
        add(control, side='http', stage='reuse', pattern='reuse-slow-ok', nrcpt=1, T=T)
    rnd.shuffle(stall)
    return stall, control


def gen_cases(tier, seed, shard, nshards):
    stall, control = all_subcases(tier, seed)
    mine = [s for i, s in enumerate(stall) if i % nshards == shard]
    size = 130
    for i in range(0, len(mine), size):
        yield {'batch': mine[i:i + size], 'phase': 'stall'}
    minec = [s for i, s in enumerate(control) if i % nshards == shard]
    if minec:
        yield {'batch': minec, 'phase': 'control'}


# ---------------------------------------------------------------- running and recording

def _innermost(detail, label):
    """Innermost slimta frame the blocked greenlet(s) sit in, from the witness."""
    d = detail.get(label) if isinstance(detail.get(label), dict) else detail
    b = d.get('blocked_at') or []
    if b and isinstance(b[0], list):
        b = [x[-1] for x in b if x]
        return b[0] if b and all(x == b[0] for x in b) else None
    return b[-1] if b else None


def mechanism(sub, clause, detail=None, label='first'):
    """<side>/<stage>/<pattern>[/<pipelining>]/<clause>.  One refinement from the witness: a greenlet that got past
    the stalled step and is stuck in IO.close() (TLS goodbye to a peer that never answers) is classified by THAT
    step -- stage 'close', pattern 'tls-peer-silent' -- whatever stage the peer went silent at."""
    side = sub['side']
    if side == 'relay':
        side = 'relay-' + sub['proto']
    inner = _innermost(detail or {}, label) or ''
    if inner.startswith('smtp/io.py:close:') and clause in ('still-blocked', 'client-greenlet-still-blocked'):
        return '/'.join([side, 'close', 'tls-peer-silent', clause])
    if side == 'http' and clause == 'client-greenlet-still-blocked':
        cb = [b[-1] for b in (detail or {}).get('client_blocked_at', []) if b]
        if cb and all(x.startswith('http/__init__.py:close:') for x in cb):
            return 'http/close/tls-peer-silent/' + clause
    if sub['side'] == 'relay-default-ctx':
        return 'relay-%s/tls-default-context/%s-%s/%s' % (sub['proto'], sub['stage'], sub['pattern'], clause) \
            if sub.get('context') != 'explicit' else \
            'relay-%s/tls-explicit-context/%s-%s/%s' % (sub['proto'], sub['stage'], sub['pattern'], clause)
    parts = [side, sub['stage'], sub['pattern']]
    if sub['side'] == 'relay':
        parts.append('pipelining' if sub['pipelining'] else 'no-pipelining')
    if sub.get('split'):
        clause += '-with-only-the-governing-timeout-set'
    if sub.get('only'):
        clause += '-with-%s-timeout-only' % sub['only']
    return '/'.join(parts) + '/' + clause


def is_control(sub):
    return sub['pattern'] in ('slow-client', 'slow-replies', 'slow-ok', 'reuse-slow-ok', 'slow-reader', 'slow-header',
                              'slow-answer')


def run_sub(sub):
    side = sub['side']
    if side == 'server' and sub['stage'] in WRITE_STAGES:
        return run_server_write_case(sub)
    if side == 'edge-tcp':
        return run_server_write_tcp_case(sub)
    if side == 'edge-proxy':
        return run_proxy_case(sub)
    if side == 'edge-wsgi':
        return run_wsgi_observation(sub)
    if side == 'relay-mx':
        return run_mx_dns_case(sub)
    if side == 'relay-default-ctx':
        return run_default_ctx_case(sub)
    if sub['stage'] == 'idle-expiry':
        return run_relay_idle_expiry_case(sub)
    if is_control(sub):
        if side == 'server':
            return run_server_control(sub)
        if side == 'relay':
            return run_relay_control(sub)
        if sub['stage'] == 'reuse':
            return run_http_reuse_case(sub)
        return run_http_case(sub)
    if side in ('server', 'edge'):
        return run_server_case(sub)
    if side == 'relay':
        return run_relay_probe_case(sub) if sub['stage'] == 'probe-before-mail' else run_relay_case(sub)
    if side == 'pipe':
        return run_pipe_case(sub)
    if side == 'http':
        return run_http_reuse_case(sub) if sub['stage'] == 'reuse' else run_http_case(sub)
    raise ValueError(side)


def _second_mech(sub, clause, detail):
    sec = sub['second']
    s2 = dict(sub)
    s2['stage'] = sec['stage']
    s2['pattern'] = ('second-stall-after-' + ('reuse' if sec.get('mode') == 'reuse' else 'reconnect'))
    return mechanism(s2, clause, detail, 'second')


def record(sub, res, R):
    R.eval()
    R.nontrivial(_key(sub))
    R.observe('stall-point', _key(sub)[:-1])
    if sub.get('split'):
        R.observe('governing-timeout', (sub['side'], sub.get('proto'), sub['stage'],
                                        tuple(relay_timeouts(sub, 'T')) if sub['side'] == 'relay' else
                                        ('data' if sub['stage'] in DATA_GOVERNED_SERVER_STAGES else 'command')))
    for h in res.hits:
        R.hit(h)
    for kind, key in res.obs:
        R.observe(kind, key)
    for name, n in res.counts:
        R.count(name, n)
    if res.inconc:
        R.inconclusive(res.inconc[:160])
        return
    if sub.get('rs', 0) % 37 == 0:
        R.sample({'case': sub, 'detail': res.detail})
    seen = set()
    for f in res.failed:
        label, clause, what = f if len(f) == 3 else ('first',) + tuple(f)
        mech = _second_mech(sub, clause, res.detail) if label == 'second' else mechanism(sub, clause, res.detail)
        if (mech, what) in seen:
            continue
        seen.add((mech, what))
        R.violation(mech, what, res.detail)


def scaled(sub, scale):
    """The same case with every duration (T, idle timeouts) multiplied by `scale`: margins are scaled, verdicts are
    not (the chain argument does not depend on T).  Used for re-runs of cases that did not get to their stall point."""
    if scale == 1:
        return sub
    s2 = dict(sub, T=sub['T'] * scale, T_nominal=sub.get('T_nominal', sub['T']), scale=scale)
    if s2.get('idle'):
        s2['idle'] = s2['idle'] * scale
    return s2


def initial_scale():
    """1, 2 or 4 from how oversubscribed the machine is (runnable tasks per core): on a loaded machine the short
    timeouts of the steps BEFORE a stall point would mostly expire and the batch would have to be re-run anyway.
    Only durations are scaled; what is demanded of the code under test does not depend on T."""
    if os.environ.get('VERIF_C14_SCALE'):
        return int(os.environ['VERIF_C14_SCALE'])
    try:
        r = os.getloadavg()[0] / float(os.cpu_count() or 1)
    except (OSError, AttributeError):
        return 1
    return 1 if r < 2 else 2 if r < 5 else 4


def _run_guarded(sub, slot, i, scale=1):
    try:
        slot[i] = run_sub(scaled(sub, scale))
        if scale != 1 and slot[i] is not None:
            slot[i].detail['durations_scaled_by'] = scale
            slot[i].counts.append(('judged-with-durations-x%d' % scale, 1))
    except gevent.GreenletExit:
        raise
    except (OSError, IOError) as e:
        # a harness socket call failed: the session under test had ended BEFORE its stall point (a bounded step
        # timed out under load) -- same treatment as every other 'stall-stage-not-reached': re-run, never a verdict
        r = Result()
        r.inconc = 'stall-stage-not-reached: %s in a harness socket call' % type(e).__name__
        slot[i] = r
    except Exception:
        import traceback
        r = Result()
        r.inconc = 'harness-exception: ' + traceback.format_exc(limit=5)[-300:]
        slot[i] = r


def run_case(case, R):
    hub = gevent.get_hub()
    hub.print_exception = lambda *a, **k: None      # greenlets of the code under test may die noisily
    tls.cert_files()
    if 'batch' not in case:
        subs, single = [case], True
    else:
        subs, single = case['batch'], False
        R.cases -= 1                                   # the envelope around a batch is not a case itself
    lagmon = LagMonitor()
    lagmon.start()
    slot = [None] * len(subs)
    t0 = time.monotonic()
    # staggered start: the start-up burst of ~100 sessions must not eat the (short) timeouts of steps
    # that precede the stall point (that would only cost coverage: 'stall-stage-not-reached')
    scale0 = initial_scale()
    R.count('batches-started-with-durations-x%d' % scale0)
    gs = [gevent.spawn_later(i * STAGGER, _run_guarded, s, slot, i, scale0) for i, s in enumerate(subs)]
    gevent.joinall(gs, timeout=WATCHDOG)
    lag_batch = lagmon.max_since(t0)
    # a step BEFORE the stall point timed out (start-up burst / machine load): no verdict possible; give those
    # cases one more, much less crowded, run before reporting them inconclusive
    # (up to RERUNS rounds; from the second round on one case at a time: nothing else competes for the hub then)
    for rnd_no in range(RERUNS):
        again = [i for i, r in enumerate(slot) if r is not None and r.inconc
                 and r.inconc.startswith('stall-stage-not-reached')]
        if not again:
            break
        R.count('rerun-after-stall-stage-not-reached', len(again))
        for i in again:
            R.count('rerun/%s/%s' % (subs[i]['side'], subs[i]['stage']))
            slot[i] = None
        scale = scale0 * 2 ** (rnd_no + 1)     # x2, x4, x8, x16: margins scaled, verdicts not
        group = (len(again), 24, 8, 1)[min(rnd_no, 3)]          # ... and ever less crowded
        gs2 = []
        for k in range(0, len(again), group):
            part = [(i, gevent.spawn_later(n * 10 * STAGGER, _run_guarded, subs[i], slot, i, scale))
                    for n, i in enumerate(again[k:k + group])]
            gevent.joinall([g for _, g in part], timeout=WATCHDOG)
            gs2.extend(part)
        for i, g in gs2:
            gs[i] = g
    R.count('batches')
    retry = []
    for i, sub in enumerate(subs):
        res = slot[i]
        if res is not None and is_control(sub) and not res.inconc and not getattr(res, 'ok', False):
            retry.append((sub, res, lag_batch))
            continue
        if not single:
            R.begin_case(sub)
        if res is None:
            gs[i].kill(block=False)
            R.eval()
            R.nontrivial(_key(sub))
            R.inconclusive('watchdog: case did not finish within %ds' % WATCHDOG)
            continue
        if is_control(sub) and getattr(res, 'ok', False):
            res.hits.append('control-succeeded')
        record(sub, res, R)
    # a failing must-succeed control: re-run alone (own lag window) before judging
    for sub, res, lag in retry:
        if not single:
            R.begin_case(sub)
        runs = [(res, lag)]
        while len(runs) < 3 and not getattr(runs[-1][0], 'ok', False):
            t1 = time.monotonic()
            s2 = [None]
            g = gevent.spawn(_run_guarded, sub, s2, 0, scale0 * 2 ** len(runs))      # alone, and with durations x2, x4
            g.join(timeout=WATCHDOG)
            g.kill(block=False)
            if s2[0] is None or s2[0].inconc:
                break
            runs.append((s2[0], lagmon.max_since(t1)))
        last, _ = runs[-1]
        thr = sub['T'] / 16.0
        genuine = [(r, l) for r, l in runs if not getattr(r, 'ok', False) and l < thr * r.detail.get('durations_scaled_by', 1)]
        last.detail['control_runs'] = [{'ok': bool(getattr(r, 'ok', False)), 'max_hub_lag': l,
                                        'outcome': r.detail.get('outcome', r.detail.get('reply_codes'))}
                                       for r, l in runs]
        last.detail['lag_threshold'] = thr
        if getattr(last, 'ok', False):
            R.count('control-failed-then-succeeded-alone')
            last.hits.append('control-succeeded')
            record(sub, last, R)
        elif len(genuine) == len(runs):
            last.failed.append(('slow-but-within-timeout-failed',
                                'every step of the peer took T/2 (T=%gs) yet the %s failed in %d of %d runs on a '
                                'responsive hub (max lag %.4fs): %s'
                                % (sub['T'], 'session' if sub['side'] == 'server' else 'attempt', len(genuine),
                                   len(runs), max(l for _, l in runs), last.detail.get('outcome',
                                                                                        last.detail.get('reply_codes')))))
            record(sub, last, R)
        else:
            last.inconc = 'control failed while the hub was lagging (load); not judged'
            record(sub, last, R)
    lagmon.stop()


def shard_cleanup():
    import shutil
    d = _scratch.pop('dir', None)
    if d:
        shutil.rmtree(d, ignore_errors=True)
    tls.cleanup()
