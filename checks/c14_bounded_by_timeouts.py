"""C14 -- no peer can hold a server session or a delivery attempt beyond its configured timeouts.

Every case runs the REAL slimta code against a peer that stops cooperating at one stall point:

  server   slimta.smtp.server.Server.handle() on one end of a gevent socketpair (real TLS where the stall
           point needs it); the harness is the client and goes silent / leaves a line unfinished /
           trickles at the stall point.
  edge     the same through slimta.edge.smtp.SmtpEdge.handle(), i.e. including what the edge does after
           Server.handle() returns (closing the session).
  relay    StaticSmtpRelay / StaticLmtpRelay (connect/command/data timeout = T) against the scripted next
           hop vf.c14_downstream.Downstream14 that stalls / sends half a reply line / trickles a reply at
           one stage (connect .. quit, TLS handshakes, PIPELINING on/off, 1-2 recipients).
  pipe     PipeRelay / MaildropRelay / DovecotLdaRelay (timeout=T) with a /bin/sh stub that never ends.
  http     HttpRelay (timeout=T) against a loopback gevent StreamServer that never answers / answers half; and
           connection re-use (idle_timeout set): message 1 answered with complete headers and a body that is
           complete / never finished / trickled / short-then-closed, then message 2 on the same connection with the
           server answering / silent / trickling.
  re-use   SMTP/LMTP with idle_timeout: message 1 succeeds, the next hop goes silent at MAIL / end-of-data of
           message 2 on the same connection, or sends half a line unasked while idle (_check_server_timeout probe).
           A re-use case in which a second connection was opened is 'stall-stage-not-reached', never a verdict.
  probe    the same probe before the FIRST MAIL (idle_timeout None and set): after the EHLO/LHLO reply was consumed
           the next hop pushes, as a segment of its own, an unsolicited reply it never finishes ('421 ... clos'
           without CRLF; '421-' continuation lines without a last line).  Judged only if the probe's
           has_reply_waiting() saw the fragment (an observer wrapped around the client's _check_server_timeout
           notes that); if a later read got it: 'stall-stage-not-reached', re-run, never a verdict.

Verdict "still blocked" -- why it is not a wall-clock verdict.  slimta's gevent Timeouts and the harness'
sleeps are timers of the same single-threaded libev hub; libev fires timers in deadline order and gevent
switches into the target greenlet from the timer callback.  The harness starts waiting only once the stall
has begun (the scripted peer has reached its stall point, so the timeout guarding that step -- if there is
one -- is already armed) and then sleeps a CHAIN of 4 sleeps of 1.25*T (= K*T, K = 5), followed by a few
1 ms sleeps (loop iterations for already-scheduled wake-ups).  A timeout <= T that was armed before a chain
link started has fired when that link ends, on any machine load; a bounded follow-up step that is armed
then (the relay's QUIT in _disconnect, the RSET after a 5xx) is covered by the next link.  The code under
test chains at most 2 such steps; the chain has 4 links.  "Still blocked" after the chain therefore means
"blocked in a step around which no timeout <= T is armed" -- the defect -- not "slow".  A real-time
watchdog (60 s) only ever yields inconclusive.

Trickle: the peer sends 1 byte per T/4 (or a complete line per T/2); after N bytes with N*delta >= K*T
(each sleep again a timer of the same hub, armed after the guarding timeout) the session / attempt must
have ended: a timeout that is re-armed per received piece instead of counting over the whole step is
caught, the documented cumulative behaviour passes.

Controls (must SUCCEED): every reply of the next hop (and every client command, server side) is delayed by
T/2.  Guards against false alarms and against a per-attempt instead of per-step budget.  A failure of a
control is only a violation if a lag monitor shows the hub was responsive (loop lag < T/16) during the run;
a failing control is first re-run alone; otherwise inconclusive.

Events that refute: session / attempt / relay client greenlet still blocked after the chain
('still-blocked', 'client-greenlet-still-blocked', 'trickle-not-cut-off'); server session ended without a
421 as its last reply ('no-421-before-close'; not demanded when the stall is inside a TLS handshake, where
no reply can be framed); a bounded relay attempt that ends with anything else than TransientRelayError
('wrong-error-class'); a control that fails on a responsive hub ('slow-but-within-timeout-failed').
"""
import os
import sys
import stat
import time
import base64
import random
import signal
import weakref

import gevent
from gevent import socket
from gevent.event import Event
from gevent.server import StreamServer

from vf import tls
from vf.c14_downstream import Downstream14

import slimta.smtp.server as _server_mod
import slimta.relay.smtp.client as _rclient_mod
import slimta.relay.smtp.lmtpclient as _lclient_mod
import slimta.relay.pipe as _pipe_mod
import slimta.edge.smtp as _edge_mod
from slimta.smtp.server import Server
from slimta.edge.smtp import SmtpEdge
from slimta.relay import TransientRelayError
from slimta.relay.smtp.static import StaticSmtpRelay, StaticLmtpRelay
from slimta.relay.pipe import PipeRelay, MaildropRelay, DovecotLdaRelay
from slimta.relay.http import HttpRelay
from slimta.envelope import Envelope

PROPERTY = 'C14'
LEVEL = 'fault_enumeration'
LEVEL_TEXT = ('Designed enumeration of stall points x stall patterns (silent, unfinished line, byte trickle, line '
              'trickle, half a TLS record) on the real Server / SmtpEdge (socketpair, real TLS), the real '
              'StaticSmtpRelay / StaticLmtpRelay (13 stages x PIPELINING on/off x 1-2 recipients, scripted next '
              'hop), PipeRelay family (never-ending child) and HttpRelay (loopback server that never answers), '
              'for T in {0.05, 0.1[, 0.2]} s; thorough adds double stalls (second attempt on a new or re-used '
              'connection).  Held = every enumerated stall ended within the K*T timer chain; not a proof for '
              'stall points that are not enumerated (custom handlers, other extensions).')
LEVEL_NOTE = ('Trusted: the timer-chain argument (libev fires timers in deadline order; gevent.sleep re-reads the '
              'clock), vf.downstream / vf.c14_downstream (scripted next hop), the harness client (~80 lines), the '
              'lag monitor used only to excuse failing must-succeed controls.')
TECHNIQUE = 'runtime monitoring: fault enumeration (stall / trickle at every blocking step) with a hub-ordered timer-chain oracle'
RULE = ('case = (side, stage, pattern, PIPELINING, #recipients, tls, T): one real session / delivery attempt whose '
        'peer stalls at that stage with that pattern; all cases of a shard run concurrently (staggered start) as '
        'greenlets of one hub. Every case is non-trivial (each has a stall, or is a must-succeed control with T/2 '
        'delays at every step); distinct = distinct (side, smtp|lmtp, stage, pattern, pipelining, nrcpt, tls, idle_timeout set?, second-stall, T). '
        'The seed varies the order (interleaving), where a reply / command line is cut, which partial-reply cases '
        'get a second recipient, and the envelope addresses. mechanism = side/stage/pattern[/pipelining]/clause, '
        'except that a greenlet stuck in IO.close() is classified by that step (stage close, pattern '
        'tls-peer-silent). A case whose session fails BEFORE the stall point (load) is re-run once, then '
        'inconclusive.')
ASSUMPTIONS = ['timers of one libev hub fire in deadline order and gevent.sleep() arms its timer relative to the '
               'current clock (gevent.sleep calls loop.update_now()); Timeout.start() uses the same or an older '
               'loop time',
               'the code under test chains at most 3 timeout-bounded steps after a stall begins (observed: 2: the '
               'stalled step, then QUIT / RSET+QUIT share one chain link each); the chain has 4 links',
               'a stall inside a TLS handshake cannot be answered with a 421 (nothing can be framed): only "the '
               'session ends" is demanded there',
               'bare Server cases: the harness closes the socket after Server.handle() returns (as an edge '
               'would); edge cases run SmtpEdge.handle() unmodified with PtrLookup stubbed',
               'all three relay timeouts (connect, command, data) are configured to the same T, so the oracle '
               'does not judge WHICH timeout bounds a step',
               'diagnostic only: the name `Timeout` in slimta.smtp.server, slimta.relay.smtp.client/lmtpclient, '
               'slimta.relay.pipe is bound to a recording subclass of gevent.Timeout (set VERIF_C14_NOTRACE=1 to '
               'run without it)']
REQUIRED_HITS = ['http-reuse-judged', 'relay-reuse-judged', 'relay-probe-judged', 'server-stall-judged', 'server-421-checked', 'server-trickle-judged', 'edge-stall-judged',
                 'relay-stall-judged', 'relay-trickle-judged', 'relay-error-class-checked',
                 'relay-client-greenlet-checked', 'pipe-stall-judged', 'http-stall-judged',
                 'control-succeeded']
SHARDS = {'quick': 4, 'thorough': 16}
BUDGET = {'quick': 50, 'thorough': 600}

K = 5
CHAIN_LINKS = 4
SETTLE = 6
WATCHDOG = 60.0        # whole batch
STAGGER = 0.006
STEP_WATCHDOG = 30.0   # a single harness wait (reply expected, stall point reached)
TS = {'quick': [0.05, 0.1], 'thorough': [0.05, 0.1, 0.2]}
TS_SLOW = {'quick': [0.2], 'thorough': [0.2, 0.4]}

# ---------------------------------------------------------------- diagnostics: which timeout scopes are active

_SCOPES = weakref.WeakKeyDictionary()     # greenlet -> list of [id, seconds, function that armed it]


class ScopeTimeout(gevent.Timeout):
    """gevent.Timeout that notes, per greenlet, which scopes are currently armed (witness only)."""

    def start(self):
        if self.seconds is not None and not self.pending:
            try:
                fr = sys._getframe(1)
                while fr is not None and fr.f_code.co_filename.endswith(('timeout.py', 'c14_bounded_by_timeouts.py')):
                    fr = fr.f_back
                name = '%s:%s' % (os.path.basename(fr.f_code.co_filename), fr.f_code.co_name) if fr else '?'
                _SCOPES.setdefault(gevent.getcurrent(), []).append([id(self), self.seconds, name])
            except Exception:
                pass
        gevent.Timeout.start(self)

    def close(self):
        try:
            lst = _SCOPES.get(gevent.getcurrent())
            if lst:
                lst[:] = [e for e in lst if e[0] != id(self)]
        except Exception:
            pass
        gevent.Timeout.close(self)


if not os.environ.get('VERIF_C14_NOTRACE'):
    for _m in (_server_mod, _rclient_mod, _lclient_mod, _pipe_mod):
        if getattr(_m, 'Timeout', None) is gevent.Timeout:
            _m.Timeout = ScopeTimeout


class _NoPtr(object):
    def __init__(self, ip):
        pass

    def start(self):
        pass

    def finish(self, runtime=None):
        return None


_edge_mod.PtrLookup = _NoPtr


def scopes_of(g):
    return [[s, n] for _, s, n in _SCOPES.get(g, [])]


def where_blocked(g):
    """slimta frames (outermost first) of a suspended greenlet."""
    out = []
    fr = getattr(g, 'gr_frame', None)
    while fr is not None:
        fn = fr.f_code.co_filename
        if '/slimta/' in fn:
            out.append('%s:%s:%d' % (fn.split('/slimta/', 1)[1], fr.f_code.co_name, fr.f_lineno))
        fr = fr.f_back
    return out[::-1]


# ---------------------------------------------------------------- the timer chain

def chain_sleep(T):
    for _ in range(CHAIN_LINKS):
        gevent.sleep(K * T / CHAIN_LINKS)
    settle()


def settle():
    for _ in range(SETTLE):
        gevent.sleep(0.001)


class LagMonitor(object):
    """Samples how late a short periodic timer fires (hub responsiveness); only used to excuse controls."""

    def __init__(self, tick=0.005):
        self.tick = tick
        self.samples = []
        self.g = None

    def start(self):
        self.g = gevent.spawn(self._run)

    def _run(self):
        while True:
            t0 = time.monotonic()
            gevent.sleep(self.tick)
            self.samples.append((t0, time.monotonic() - t0 - self.tick))

    def stop(self):
        if self.g is not None:
            self.g.kill()

    def max_since(self, t):
        return max([lag for (ts, lag) in self.samples if ts >= t - self.tick] or [0.0])


class Result(object):
    def __init__(self):
        self.failed = []        # (clause, what)
        self.hits = []
        self.detail = {}
        self.inconc = None
        self.obs = []           # (kind, key)
        self.counts = []


# ---------------------------------------------------------------- server side

def _b64(s):
    return base64.b64encode(s)


_EHLO = [('r', '220'), ('s', b'EHLO c14.test\r\n'), ('r', '250')]
_MAIL = _EHLO + [('s', b'MAIL FROM:<s@c14.test>\r\n'), ('r', '250')]
_RCPT = _MAIL + [('s', b'RCPT TO:<r@c14.test>\r\n'), ('r', '250')]
_DATA = _RCPT + [('s', b'DATA\r\n'), ('r', '354')]
_BODY = b'Subject: c14\r\n\r\nline one\r\n'
_EOD = _DATA + [('s', _BODY + b'.\r\n'), ('r', '250')]
_TLS = _EHLO + [('s', b'STARTTLS\r\n'), ('r', '220'), ('tls',)]
_TLS_EHLO = _TLS + [('s', b'EHLO c14.test\r\n'), ('r', '250')]
_CLIENTHELLO_FRAGMENT = b'\x16\x03\x01\x02\x00\x01\x00\x01\xfc\x03\x03'

# stage -> (config, prefix, patterns)
SERVER_STAGES = {
    'tls-immediate-handshake': ({'tls': 'immediate'}, [], ['silent', 'partial-clienthello']),
    'tls-immediate-banner': ({'tls': 'immediate'}, [('tls',), ('r', '220')], ['silent']),
    'banner': ({}, [('r', '220')], ['silent', 'partial-line']),
    'ehlo': ({}, _EHLO, ['silent', 'partial-line', 'glued-partial-line', 'trickle-bytes']),
    'mail': ({}, _MAIL, ['silent', 'partial-line', 'glued-partial-line']),
    'rcpt': ({}, _RCPT, ['silent', 'partial-line', 'glued-partial-line']),
    'data': ({}, _DATA, ['silent', 'silent-partial-body', 'silent-after-line', 'partial-eod', 'trickle-bytes',
                         'trickle-lines']),
    'eod': ({}, _EOD, ['silent', 'partial-line', 'glued-partial-line']),
    'rset': ({}, _EOD + [('s', b'RSET\r\n'), ('r', '250')], ['silent']),
    # PLAIN / LOGIN are only accepted on an encrypted session; CRAM-MD5 also in clear text
    'auth-login-challenge': ({'auth': True, 'tls': 'starttls'}, _TLS_EHLO + [('s', b'AUTH LOGIN\r\n'), ('r', '334')],
                             ['silent', 'partial-line', 'trickle-bytes']),
    'auth-login-password': ({'auth': True, 'tls': 'starttls'},
                            _TLS_EHLO + [('s', b'AUTH LOGIN\r\n'), ('r', '334'),
                                         ('s', _b64(b'user') + b'\r\n'), ('r', '334')], ['silent']),
    'auth-plain-challenge': ({'auth': True, 'tls': 'starttls'}, _TLS_EHLO + [('s', b'AUTH PLAIN\r\n'), ('r', '334')],
                             ['silent', 'partial-line']),
    'auth-crammd5-challenge': ({'auth': [b'CRAM-MD5']}, _EHLO + [('s', b'AUTH CRAM-MD5\r\n'), ('r', '334')],
                               ['silent', 'partial-line', 'trickle-bytes']),
    'starttls-handshake': ({'tls': 'starttls'}, _EHLO + [('s', b'STARTTLS\r\n'), ('r', '220')],
                           ['silent', 'partial-clienthello']),
    'tls-ehlo': ({'tls': 'starttls'}, _TLS_EHLO, ['silent', 'partial-line', 'glued-partial-line']),
    'tls-data': ({'tls': 'starttls'}, _TLS_EHLO + _DATA[3:], ['silent-partial-body', 'trickle-bytes']),
}
HANDSHAKE_STAGES = ('tls-immediate-handshake', 'starttls-handshake')
EDGE_STAGES = [('ehlo', 'silent'), ('data', 'silent-partial-body'), ('data', 'trickle-bytes'), ('tls-ehlo', 'silent'),
               ('tls-data', 'silent-partial-body'), ('tls-immediate-banner', 'silent')]


class _Handlers(object):
    pass


class _NullQueue(object):
    def enqueue(self, envelope):
        return [(envelope, 'c14-id')]


class ClientSide(object):
    """The harness' SMTP client end: reads whole replies, knows nothing of slimta."""

    def __init__(self, sock):
        self.sock = sock
        self.buf = b''
        self.all = b''
        self.eof = False

    def read_reply(self):
        while True:
            lines = self.buf.split(b'\n')
            for i, ln in enumerate(lines[:-1]):
                s = ln.lstrip(b'\r')
                if len(s) >= 4 and s[:3].isdigit() and s[3:4] == b' ':
                    rest = b'\n'.join(lines[i + 1:])
                    self.buf = rest
                    return s[:3].decode()
            d = self.sock.recv(4096)
            if not d:
                self.eof = True
                return None
            self.buf += d
            self.all += d

    def drain(self, quiet=0.25):
        """Collect what was written until EOF / error / nothing for `quiet` seconds."""
        while not self.eof:
            d = None
            with gevent.Timeout(quiet, False):
                try:
                    d = self.sock.recv(4096)
                except (OSError, IOError):
                    d = b''
            if d is None:
                return
            if not d:
                self.eof = True
                return
            self.buf += d
            self.all += d

    def last_code(self):
        codes = []
        for ln in self.all.split(b'\n'):
            s = ln.strip(b'\r')
            if len(s) >= 4 and s[:3].isdigit() and s[3:4] in (b' ', b'-'):
                codes.append(s[:3].decode())
        return codes[-1] if codes else None


def _fragment(sub, rnd, stage):
    if stage.startswith('auth'):
        return _b64(b'\x00user\x00secret')[:rnd.randrange(1, 12)]
    line = rnd.choice([b'NOOP', b'MAIL FROM:<s@c14.test>', b'RCPT TO:<r@c14.test>', b'EHLO c14.test', b'QUIT', b'DATA'])
    return line[:rnd.randrange(1, len(line) + 1)]


def run_server_case(sub):
    res = Result()
    T = sub['T']
    stage, pattern, driver = sub['stage'], sub['pattern'], sub['side']
    cfg, prefix, _ = SERVER_STAGES[stage]
    rnd = random.Random(sub.get('rs', 0))
    a, b = socket.socketpair()
    ctx = tls.server_context() if cfg.get('tls') else None
    imm = cfg.get('tls') == 'immediate'
    st = {}
    if driver == 'edge':
        edge = SmtpEdge(None, _NullQueue(), auth=cfg.get('auth', False), context=ctx, tls_immediately=imm,
                        command_timeout=T, data_timeout=T, hostname='c14.test')

        def run():
            try:
                edge.handle(a, ('127.0.0.1', 4321))
                st['end'] = 'returned'
            except gevent.GreenletExit:
                st['end'] = 'killed'
            except BaseException as e:
                st['end'] = 'exception:' + type(e).__name__
    else:
        srv = Server(a, _Handlers(), address=('127.0.0.1', 4321), auth=cfg.get('auth', False), context=ctx,
                     tls_immediately=imm, command_timeout=T, data_timeout=T)

        def run():
            try:
                try:
                    srv.handle()
                    st['end'] = 'returned'
                except gevent.GreenletExit:
                    st['end'] = 'killed'
                except BaseException as e:
                    st['end'] = 'exception:' + type(e).__name__
            finally:
                try:
                    srv.io.socket.close()       # what an edge does next (without the TLS goodbye)
                except Exception:
                    pass
    g = gevent.spawn(run)
    cl = ClientSide(b)
    try:
        wd = gevent.Timeout(STEP_WATCHDOG)
        wd.start()
        if pattern == 'glued-partial-line':
            # the start of the next line arrives in the same segment as the end of the previous
            # unit (command or end-of-data), then the client goes silent
            prefix = list(prefix)
            last_s = max(i for i, op in enumerate(prefix) if op[0] == 's')
            glued = _fragment(sub, rnd, stage)
            prefix[last_s] = ('s', prefix[last_s][1] + glued)
            res.detail['fragment_glued_to_previous_unit'] = glued
        try:
            for op in prefix:
                if op[0] == 'r':
                    code = cl.read_reply()
                    if code != op[1]:
                        res.inconc = 'stall-stage-not-reached: expected %s got %s at %s' % (op[1], code, stage)
                        return res
                elif op[0] == 's':
                    cl.sock.sendall(op[1])
                elif op[0] == 'tls':
                    cl.sock = tls.client_context().wrap_socket(cl.sock)
        except gevent.Timeout as t:
            if t is not wd:
                raise
            res.inconc = 'watchdog: no reply while driving the session to stage %s' % stage
            return res
        except (OSError, IOError) as e:
            # e.g. the server's (bounded) handshake / command timeout hit a step BEFORE the stall point under load
            res.inconc = 'stall-stage-not-reached: %s while driving the session to stage %s' % (type(e).__name__, stage)
            return res
        finally:
            wd.close()

        # ---- the stall begins
        sent = 0
        accepted = None
        if pattern in ('trickle-bytes', 'trickle-lines'):
            if pattern == 'trickle-bytes':
                delta, n, unit = T / 4.0, 4 * K, (b'A' if stage.startswith('auth') else b'x')
            else:
                delta, n, unit = T / 2.0, 2 * K, b'a trickled line\r\n'
            for i in range(n):
                if 'end' in st and accepted is None:
                    accepted = sent
                try:
                    cl.sock.sendall(unit)
                    sent += 1
                except (OSError, IOError):
                    if accepted is None:
                        accepted = sent
                gevent.sleep(delta)
            settle()
        else:
            frag = None
            if pattern == 'partial-line':
                frag = _fragment(sub, rnd, stage)
            elif pattern == 'partial-clienthello':
                frag = _CLIENTHELLO_FRAGMENT
            elif pattern == 'silent-partial-body':
                frag = _BODY + b'an unfinished li'
            elif pattern == 'silent-after-line':
                frag = _BODY
            elif pattern == 'partial-eod':
                frag = _BODY + b'.\r'
            if frag:
                cl.sock.sendall(frag)
                res.detail['fragment_sent'] = frag
            chain_sleep(T)
        ended = 'end' in st
        cl.drain()
        last = cl.last_code()
        res.detail.update({'T': T, 'stage': stage, 'pattern': pattern, 'driver': driver,
                           'session_greenlet_ended': ended, 'session_end': st.get('end'),
                           'harness_slept_at_least': K * T, 'last_reply_code_seen': last,
                           'client_saw_eof': cl.eof, 'replies_tail': cl.all[-160:]})
        res.obs.append(('server-end', (driver, stage, pattern, st.get('end'), last)))
        trick = pattern.startswith('trickle')
        res.hits.append('edge-stall-judged' if driver == 'edge' else 'server-stall-judged')
        if trick:
            res.hits.append('server-trickle-judged')
            res.detail['trickle_units_sent'] = sent
            res.detail['trickle_units_before_session_ended'] = accepted
            res.obs.append(('trickle-cut-off-after', (stage, pattern, accepted)))
        if not ended:
            res.detail['blocked_at'] = where_blocked(g)
            res.detail['active_timeout_scopes_in_blocked_greenlet'] = scopes_of(g)
            if trick:
                res.failed.append(('trickle-not-cut-off',
                                   'session still open after %d trickled %s (%.2gs apart, total >= %d*T, T=%gs)'
                                   % (sent, 'bytes' if pattern == 'trickle-bytes' else 'lines', delta, K, T)))
            else:
                res.failed.append(('still-blocked',
                                   'session greenlet still blocked after the harness slept %d*T (T=%gs) since the '
                                   'client went silent; blocked at %s with timeout scopes %s'
                                   % (K, T, (res.detail['blocked_at'] or ['?'])[-1],
                                      res.detail['active_timeout_scopes_in_blocked_greenlet'])))
        elif stage not in HANDSHAKE_STAGES:
            res.hits.append('server-421-checked')
            if last != '421':
                res.failed.append(('no-421-before-close',
                                   'session ended (%s) but the last reply written was %s, not 421'
                                   % (st.get('end'), last)))
            if driver == 'edge' and not cl.eof:
                res.failed.append(('socket-not-closed', 'SmtpEdge.handle returned but the client saw no EOF'))
        return res
    finally:
        g.kill(block=False)
        for s in (cl.sock, a, b):
            try:
                s.close()
            except Exception:
                pass


def run_server_control(sub):
    """Must succeed: a client that pauses T/2 before every command (and once inside DATA)."""
    res = Result()
    T = sub['T']
    a, b = socket.socketpair()
    got = []

    class H(object):
        def HAVE_DATA(self, reply, data, err):
            got.append(data)
    srv = Server(a, H(), address=('127.0.0.1', 4321), command_timeout=T, data_timeout=T)
    st = {}

    def run():
        try:
            srv.handle()
            st['end'] = 'returned'
        except gevent.GreenletExit:
            st['end'] = 'killed'
        except BaseException as e:
            st['end'] = 'exception:' + type(e).__name__
        finally:
            a.close()
    g = gevent.spawn(run)
    cl = ClientSide(b)
    codes = []
    try:
        with gevent.Timeout(STEP_WATCHDOG, False):
            codes.append(cl.read_reply())
            for cmd in (b'EHLO c14.test\r\n', b'MAIL FROM:<s@c14.test>\r\n', b'RCPT TO:<r@c14.test>\r\n',
                        b'NOOP\r\n', b'RSET\r\n', b'MAIL FROM:<s@c14.test>\r\n', b'RCPT TO:<r@c14.test>\r\n',
                        b'DATA\r\n'):
                gevent.sleep(T / 2.0)
                try:
                    b.sendall(cmd)
                except (OSError, IOError):
                    break
                codes.append(cl.read_reply())
            try:
                b.sendall(_BODY)
                gevent.sleep(T / 2.0)
                b.sendall(b'.\r\n')
                codes.append(cl.read_reply())
                gevent.sleep(T / 2.0)
                b.sendall(b'QUIT\r\n')
                codes.append(cl.read_reply())
            except (OSError, IOError):
                pass
        want = ['220', '250', '250', '250', '250', '250', '250', '250', '354', '250', '221']
        res.detail.update({'T': T, 'reply_codes': codes, 'expected': want, 'session_end': st.get('end'),
                           'messages_received': len(got)})
        res.ok = (codes == want and len(got) == 1)
        return res
    finally:
        g.kill(block=False)
        for s in (a, b):
            try:
                s.close()
            except Exception:
                pass


# ---------------------------------------------------------------- relay side (SMTP / LMTP)

RELAY_STALL_STAGES = ['connect', 'banner', 'ehlo', 'starttls', 'tlshandshake', 'tls-immediate-handshake', 'auth',
                      'mail', 'rcpt0', 'data', 'eod0', 'rset', 'quit']
RESULT_ALREADY_SET = ('rset', 'quit')     # the attempt's outcome is decided before these steps
RELAY_IDLE = 5.0       # idle_timeout of re-use cases: only has to outlast the gap between two attempts
_PARTIAL = {'banner': b'220 downstream rea', 'ehlo': b'250-downstream greets you\r\n250-8BITMIME\r\n250 PIPELI',
            'starttls': b'220 2.0.0 go ah', 'auth': b'235 2.7.0 authentica', 'mail': b'250 2.1.0 sender o',
            'rcpt0': b'250 2.1.5 recipient o', 'rcpt1': b'250 2.1.5 recipient o', 'data': b'354 go ah',
            'eod0': b'250 2.0.0 queu', 'eod1': b'250 2.0.0 deliv', 'rset': b'250 2.0.0 res', 'quit': b'221 2.0.0 b',
            'idle-probe': b'421 4.4.2 idle connection timed o',
            'tlshandshake': b'\x16\x03\x03\x00\x7a\x02\x00', 'tls-immediate-handshake': b'\x16\x03\x03\x00\x7a\x02\x00'}
_TRICKLE_CODE = {'banner': '220', 'mail': '250', 'rcpt0': '250', 'rcpt1': '250', 'data': '354', 'eod0': '250',
                 'eod1': '250', 'rset': '250', 'quit': '221', 'auth': '235', 'starttls': '220'}


def _action(stage, pattern, T, rnd):
    if pattern == 'stall':
        return ('stall',)
    if pattern == 'partial':
        full = _PARTIAL[stage]
        if stage.endswith('handshake'):
            return ('raw-stall', full)
        return ('raw-stall', full[:rnd.randrange(1, len(full) + 1)])
    if pattern == 'trickle':
        if stage == 'ehlo':
            return ('trickle', T / 4.0, ('ok',))
        return ('trickle', T / 4.0, ('reply', _TRICKLE_CODE[stage], 'trickled ' + 'x' * 70))
    raise ValueError(pattern)


def _envelope(sub, n=0):
    tag = sub.get('rs', 0) % 1000
    env = Envelope('sender%d@c14.test' % tag, ['rcpt%d-%d@c14.test' % (tag, i) for i in range(sub['nrcpt'])])
    env.parse(b'Subject: c14\r\nX-Verif-Msg: c14-%d-%d\r\n\r\nbody line\r\n.leading dot\r\n' % (tag, n))
    return env


def _mk_relay(sub, script, T):
    lmtp = sub['proto'] == 'lmtp'
    stage = sub['stage']
    stages = {stage, (sub.get('second') or {}).get('stage')}
    want_tls = bool(sub.get('tls')) or bool(stages & {'starttls', 'tlshandshake', 'tls-immediate-handshake'})
    imm = 'tls-immediate-handshake' in stages
    want_auth = 'auth' in stages
    ds = Downstream14(script, lmtp=lmtp, pipelining=sub['pipelining'],
                      tls_context=tls.server_context() if want_tls else None, tls_immediately=imm,
                      auth=want_auth, deaf=bool(sub.get('tls')))
    ds.probe_log = []
    kw = dict(socket_creator=ds.creator, connect_timeout=T, command_timeout=T, data_timeout=T,
              ehlo_as='relay.c14.test', context=tls.client_context())
    if imm:
        kw['tls_immediately'] = True
    if want_auth:
        kw['credentials'] = ('user', 'secret')
    if sub.get('idle'):
        kw['idle_timeout'] = sub['idle']
    relay = (StaticLmtpRelay if lmtp else StaticSmtpRelay)('next-hop.c14.test', 24 if lmtp else 25, **kw)
    clients = []
    orig = relay.add_client

    def add_client():
        c = orig()
        clients.append(c)
        _observe_probe(c, ds.probe_log)
        return c
    relay.add_client = add_client
    return ds, relay, clients


def _observe_probe(c, log):
    """Monitor (no behaviour change): note every call of the client's _check_server_timeout(): did
    has_reply_waiting() see unsolicited bytes, and how did the call end ('inside' = still in there)."""
    orig = c._check_server_timeout

    def probe():
        e = {'waiting': None, 'outcome': 'inside'}
        log.append(e)
        cl = c.client
        orig_w = cl.has_reply_waiting

        def waiting():
            e['waiting'] = r = orig_w()
            return r
        cl.has_reply_waiting = waiting
        try:
            r = orig()
            e['outcome'] = 'returned %s' % r
            return r
        except BaseException as ex:
            e['outcome'] = 'raised ' + type(ex).__name__
            raise
        finally:
            cl.__dict__.pop('has_reply_waiting', None)
    c._check_server_timeout = probe


def _probe_saw_fragment(ds):
    return any(e['waiting'] for e in ds.probe_log)


def _attempt(relay, env, out, started=None):
    def run():
        if started is not None:
            started.set()
        try:
            out['result'] = relay.attempt(env, 0)
            out['kind'] = 'returned'
        except gevent.GreenletExit:
            out['kind'] = 'killed'
        except BaseException as e:
            out['kind'] = 'raised'
            out['exc'] = e
        out['done'] = True
    return gevent.spawn(run)


def _outcome(out):
    if not out.get('done'):
        return 'blocked'
    if out['kind'] == 'raised':
        return 'raised ' + type(out['exc']).__name__ + ': ' + str(out['exc'])[:80]
    r = out.get('result')
    if isinstance(r, dict):
        return 'returned {' + ', '.join('%s: %s' % (k, type(v).__name__ + (' ' + str(getattr(v, 'code', '')) if v is not None else ''))
                                          for k, v in sorted(r.items())) + '}'
    return 'returned ' + type(r).__name__ + ' ' + str(getattr(r, 'code', ''))


def _is_transient(out):
    if out.get('kind') == 'raised':
        return isinstance(out['exc'], TransientRelayError)
    r = out.get('result')
    if isinstance(r, dict) and r:
        return all(isinstance(v, TransientRelayError) for v in r.values())
    return False


def _is_success(out):
    if out.get('kind') != 'returned':
        return False
    r = out.get('result')
    if isinstance(r, dict):
        return all(not isinstance(v, Exception) for v in r.values())
    return not isinstance(r, Exception)


_PEER_DID = {'stall': 'went silent', 'partial': 'sent half a reply line', 'trickle': 'began trickling its reply',
             'unsolicited-partial-line': 'pushed half an unsolicited reply line and went silent',
             'unsolicited-continuation-line': 'pushed unsolicited 421- continuation lines without a last line'}


def _judge_relay_attempt(sub, res, T, ds, g, out, clients, stage, pattern, label, pre_chain=None):
    """Wait for the stall to begin, run the chain, judge. Returns False if the stage was never reached."""
    gevent.wait([ds.stalled, g], timeout=STEP_WATCHDOG, count=1)
    live = [c for c in clients if not c.dead]
    if not ds.stalled.is_set() and stage in RESULT_ALREADY_SET and live:
        # the attempt's result is handed over before RSET / QUIT: the client greenlet goes on alone
        gevent.wait([ds.stalled] + live, timeout=STEP_WATCHDOG, count=1)
    if not ds.stalled.is_set():
        if g.dead:
            res.inconc = 'stall-stage-not-reached: %s attempt ended (%s) before stage %s' % (label, _outcome(out), stage)
        else:
            res.inconc = 'watchdog: %s attempt neither reached stage %s nor ended' % (label, stage)
        return False
    if pre_chain:
        pre_chain()
    chain_sleep(T)
    done = bool(out.get('done'))
    alive = [c for c in clients if not c.dead]
    d = res.detail.setdefault(label, {})
    d.update({'stage': stage, 'pattern': pattern, 'attempt_ended': done, 'outcome': _outcome(out),
              'client_greenlets_alive': len(alive), 'stalls_begun': list(ds.stall_log),
              'server_timeout_probe_calls': [dict(e) for e in ds.probe_log],
              'commands_seen_by_next_hop': [[v for v, _ in c.commands] for c in ds.conns],
              'harness_slept_at_least_after_stall_began': K * T})
    res.hits.append('relay-stall-judged')
    if pattern == 'trickle':
        res.hits.append('relay-trickle-judged')
        d['bytes_trickled_before_judgement'] = ds.trickled
    res.obs.append(('relay-outcome', (sub['proto'], stage, pattern, sub['pipelining'], _outcome(out)[:40])))
    if not done:
        blocked = [where_blocked(c) for c in alive] or [where_blocked(g)]
        d['blocked_at'] = blocked
        d['active_timeout_scopes_in_blocked_greenlet'] = [scopes_of(c) for c in alive]
        res.failed.append((label, 'still-blocked',
                           'Relay.attempt still blocked after the harness slept %d*T (T=%gs) since the next hop '
                           '%s at stage %s; client blocked at %s with timeout scopes %s'
                           % (K, T, _PEER_DID[pattern], stage,
                              (blocked[0] or ['?'])[-1], d['active_timeout_scopes_in_blocked_greenlet'])))
        return True
    res.hits.append('relay-client-greenlet-checked')
    if alive:
        d['blocked_at'] = [where_blocked(c) for c in alive]
        d['active_timeout_scopes_in_blocked_greenlet'] = [scopes_of(c) for c in alive]
        res.failed.append((label, 'client-greenlet-still-blocked',
                           'Relay.attempt ended (%s) but the relay client greenlet is still blocked after %d*T at %s'
                           % (_outcome(out)[:60], K, (d['blocked_at'][0] or ['?'])[-1])))
    if stage not in RESULT_ALREADY_SET:
        res.hits.append('relay-error-class-checked')
        if not _is_transient(out):
            res.failed.append((label, 'wrong-error-class',
                               'attempt whose step %s timed out ended with "%s" instead of a TransientRelayError'
                               % (stage, _outcome(out))))
    return True


def run_relay_case(sub):
    res = Result()
    T = sub['T']
    rnd = random.Random(sub.get('rs', 0))
    stage, pattern = sub['stage'], sub['pattern']
    second = sub.get('second')
    act1 = _action(stage, pattern, T, rnd)
    act2 = _action(second['stage'], second.get('pattern', 'stall'), T, rnd) if second else None

    reuse = bool(second) and second.get('mode') == 'reuse'
    probe = reuse and second['stage'] == 'idle-probe'
    holder = {}

    def script(ctx, st):
        ds_ = holder['ds']
        if probe:
            # message 1 succeeds; right after its end-of-data reply the next hop sends half a line unasked
            if st == 'idle' and ds_.connects <= 1 and ctx['txn'] == 0:
                return act2
            return ('ok',)
        if reuse:
            # first transaction succeeds, the connection stays open, the second transaction stalls
            ph = 1 if (ds_.connects <= 1 and ctx['txn'] == 0) else 2
        else:
            ph = 1 if ds_.connects <= 1 else 2
        if ph == 1:
            stg, act = (None, None) if reuse else (stage, act1)
        else:
            stg, act = (second['stage'], act2) if second else (None, None)
        if stg is None:
            return ('ok',)
        if sub.get('tls') and stg == 'ehlo' and st == 'ehlo' and not ds_.conns[ctx['conn']].tls:
            return ('ok',)              # the tls variant stalls the EHLO that follows the handshake
        if st == ('tlshandshake' if stg.endswith('handshake') else stg):
            return act
        if stg == 'rset' and st == 'data':
            return ('reply', '550')
        return ('ok',)

    ds, relay, clients = _mk_relay(sub, script, T)
    holder['ds'] = ds
    out = {}
    gs = []
    try:
        g = _attempt(relay, _envelope(sub), out)
        gs.append(g)
        if reuse:
            g.join(timeout=STEP_WATCHDOG)
            if not _is_success(out):
                res.inconc = 'stall-stage-not-reached: first transaction of a reuse case did not succeed (%s)' % _outcome(out)
                return res
            res.detail['first'] = {'outcome': _outcome(out)}
        else:
            if not _judge_relay_attempt(sub, res, T, ds, g, out, clients, stage, pattern, 'first'):
                return res
            if not out.get('done'):
                return res
        if second:
            out2 = {}
            before = list(clients)
            if probe:
                ds.stalled.wait(STEP_WATCHDOG)        # the unasked half line has been sent on the idle connection
                if not ds.stalled.is_set():
                    res.inconc = 'stall-stage-not-reached: the next hop never got to its idle stage'
                    return res
                started = Event()
                g2 = _attempt(relay, _envelope(sub, 1), out2, started)
                gs.append(g2)
                started.wait(STEP_WATCHDOG)
                settle()                              # the idle client has picked the request up (loop iterations)
            else:
                ds.stalled.clear()
                del ds.stall_log[:]
                g2 = _attempt(relay, _envelope(sub, 1), out2)
                gs.append(g2)
            judged = _judge_relay_attempt(sub, res, T, ds, g2, out2, clients, second['stage'],
                                          second.get('pattern', 'stall'), 'second')
            res.detail['second_used_new_client'] = len(clients) > len(before)
            res.detail['connections_to_next_hop'] = ds.connects
            if reuse and judged:
                if len(clients) > len(before) or ds.connects > 1:
                    del res.failed[:]
                    res.inconc = 'stall-stage-not-reached: the idle connection was not re-used'
                elif probe and not _probe_saw_fragment(ds):
                    del res.failed[:]
                    res.inconc = ('stall-stage-not-reached: the unsolicited fragment was not seen by the '
                                  '_check_server_timeout probe (read as a later reply instead: %s)' % _outcome(out2)[:60])
                else:
                    res.hits.append('relay-reuse-judged')
                    if probe:
                        res.hits.append('relay-probe-judged')
        return res
    finally:
        for g in gs:
            g.kill(block=False)
        for c in clients:
            c.kill(block=False)
        ds.kill()
        for c in clients:
            try:
                if c.client is not None:
                    c.client.io.socket.close()
            except Exception:
                pass


PROBE_FRAGMENTS = {'unsolicited-partial-line': b'421 4.4.2 idle, clos',
                   'unsolicited-continuation-line': b'421-4.4.2 idle for too long\r\n421-closing the connection so\r\n'}


def run_relay_probe_case(sub):
    """The _check_server_timeout probe before the first MAIL: banner and EHLO/LHLO complete normally, then -- as a
    segment of its own, once the client has consumed the handshake reply -- the next hop starts an unsolicited reply
    it never finishes and goes silent.  idle_timeout None (default) or set.  Only judged if the probe's
    has_reply_waiting() saw the fragment (~10 ms window); if a later read got it instead (bounded by the command
    timeout as the MAIL reply): stall-stage-not-reached, re-run, never a verdict."""
    res = Result()
    T = sub['T']
    frag = PROBE_FRAGMENTS[sub['pattern']]
    ds, relay, clients = _mk_relay(sub, {'after-ehlo': ('raw-stall', frag)}, T)
    out = {}
    g = _attempt(relay, _envelope(sub), out)
    try:
        if not _judge_relay_attempt(sub, res, T, ds, g, out, clients, sub['stage'], sub['pattern'], 'first',
                                    pre_chain=settle):
            return res
        res.detail['first']['fragment'] = frag
        res.detail['first']['fragment_sent_after_reply_was_consumed'] = ds.pushed_after_drain
        res.detail['first']['idle_timeout'] = sub.get('idle')
        if not _probe_saw_fragment(ds):
            del res.failed[:]
            res.inconc = ('stall-stage-not-reached: the unsolicited fragment was not seen by the '
                          '_check_server_timeout probe (read as a later reply instead: %s)' % _outcome(out)[:60])
            return res
        res.hits.append('relay-probe-judged')
        return res
    finally:
        g.kill(block=False)
        for c in clients:
            c.kill(block=False)
        ds.kill()
        for c in clients:
            try:
                if c.client is not None:
                    c.client.io.socket.close()
            except Exception:
                pass


def run_relay_control(sub):
    """Must succeed: every stage of the next hop answers after T/2."""
    res = Result()
    T = sub['T']

    def script(ctx, st):
        # one delay of T/2 per blocking step of the relay: with PIPELINING the replies to MAIL, RCPT and DATA
        # are awaited in one step, and all LMTP end-of-data replies are awaited in one step
        if st == 'tlshandshake' or (st.startswith('eod') and st != 'eod0'):
            return ('ok',)
        if sub['pipelining'] and (st == 'mail' or st.startswith('rcpt')):
            return ('ok',)
        return ('delay', T / 2.0, ('ok',))
    sub2 = dict(sub)
    sub2['stage'] = 'auth' if sub.get('auth') else 'none'
    ds, relay, clients = _mk_relay(sub2, script, T)
    out = {}
    try:
        g = _attempt(relay, _envelope(sub), out)
        g.join(timeout=STEP_WATCHDOG)
        if not out.get('done'):
            res.inconc = 'watchdog: control attempt did not end'
            return res
        gevent.joinall(clients, timeout=STEP_WATCHDOG)
        acc = ds.accepted()
        res.detail.update({'T': T, 'outcome': _outcome(out), 'delay_per_stage': T / 2.0,
                           'commands_seen_by_next_hop': [[v for v, _ in c.commands] for c in ds.conns],
                           'accepted_by_next_hop': {str(k): sorted(v) for k, v in acc.items()},
                           'client_greenlets_alive': len([c for c in clients if not c.dead])})
        res.ok = _is_success(out) and any(len(v) == sub['nrcpt'] for v in acc.values())
        return res
    finally:
        g.kill(block=False)
        for c in clients:
            c.kill(block=False)
        ds.kill()


# ---------------------------------------------------------------- pipe relays

_STUBS = {
    # holds stdout/stderr open and never exits
    'sleeps-holding-pipes': '#!/bin/sh\necho $$ > "%(dir)s/$$.pid"\nexec sleep 30\n',
    # closes its pipes (communicate() sees EOF on both) but never exits
    'sleeps-pipes-closed': '#!/bin/sh\necho $$ > "%(dir)s/$$.pid"\nexec sleep 30 <&- >&- 2>&-\n',
    # never reads stdin (message larger than the pipe buffer), never exits
    'never-reads-stdin': '#!/bin/sh\necho $$ > "%(dir)s/$$.pid"\nexec sleep 30 >/dev/null 2>&1 <&0\n',
}
_scratch = {}


def _scratch_dir():
    if 'dir' not in _scratch:
        import tempfile
        base = os.environ.get('VERIF_SCRATCH')
        _scratch['dir'] = tempfile.mkdtemp(prefix='c14-', dir=base if base and os.path.isdir(base) else None)
    return _scratch['dir']


def run_pipe_case(sub):
    res = Result()
    T = sub['T']
    d = os.path.join(_scratch_dir(), 'pipe-%d-%d' % (os.getpid(), sub.get('rs', 0)))
    os.makedirs(d, exist_ok=True)
    stub = os.path.join(d, 'stub.sh')
    with open(stub, 'w') as f:
        f.write(_STUBS[sub['pattern']] % {'dir': d})
    os.chmod(stub, os.stat(stub).st_mode | stat.S_IXUSR)
    cls = sub['stage']
    if cls == 'PipeRelay':
        relay = PipeRelay([stub, '{recipient}'], timeout=T)
    elif cls == 'MaildropRelay':
        relay = MaildropRelay(path=stub, timeout=T)
    else:
        relay = DovecotLdaRelay(path=stub, timeout=T)
    env = _envelope(sub)
    if sub['pattern'] == 'never-reads-stdin':
        env.message = env.message + b'x' * 400000
    out = {}
    started = Event()
    g = _attempt(relay, env, out, started)
    try:
        started.wait(STEP_WATCHDOG)
        chain_sleep(T)
        done = bool(out.get('done'))
        pids = []
        for name in os.listdir(d):
            if name.endswith('.pid'):
                try:
                    pids.append(int(name[:-4]))
                except ValueError:
                    pass
        running = []
        for p in pids:
            try:
                os.kill(p, 0)
                with open('/proc/%d/stat' % p) as f:
                    if f.read().split(')')[-1].split()[0] != 'Z':
                        running.append(p)
            except (OSError, IOError):
                pass
        res.detail.update({'T': T, 'relay': cls, 'stub': sub['pattern'], 'attempt_ended': done,
                           'outcome': _outcome(out), 'children_started': len(pids),
                           'children_still_running_after_attempt_ended': len(running),
                           'harness_slept_at_least': K * T})
        res.hits.append('pipe-stall-judged')
        res.obs.append(('pipe-outcome', (cls, sub['pattern'], _outcome(out)[:40])))
        if done:
            res.counts.append(('pipe-attempts-ended-in-time', 1))
            res.counts.append(('pipe-child-left-running-after-timeout' if running else 'pipe-child-gone-after-timeout', 1))
        if not pids:
            res.inconc = 'stall-stage-not-reached: the stub was never started (%s)' % _outcome(out)
        elif not done:
            res.detail['blocked_at'] = where_blocked(g)
            res.detail['active_timeout_scopes_in_blocked_greenlet'] = scopes_of(g)
            res.failed.append(('still-blocked', '%s(timeout=%gs).attempt still blocked after %d*T; child %s; blocked at %s'
                               % (cls, T, K, sub['pattern'], (res.detail['blocked_at'] or ['?'])[-1])))
        elif not _is_transient(out):
            res.failed.append(('wrong-error-class', '%s attempt that timed out ended with "%s", not a transient failure'
                               % (cls, _outcome(out))))
        for p in pids:
            try:
                os.kill(p, signal.SIGKILL)
            except OSError:
                pass
        return res
    finally:
        g.kill(block=False)


# ---------------------------------------------------------------- HTTP relay

_HTTP_OK = (b'HTTP/1.1 200 OK\r\nX-Smtp-Reply: 250; message="2.6.0 accepted"\r\nContent-Length: 2\r\n'
            b'X-Padding: ' + b'p' * 60 + b'\r\n\r\nok')


def run_http_case(sub):
    res = Result()
    T = sub['T']
    pattern = sub['pattern']
    stalled = Event()
    info = {'requests': 0, 'trickled': 0}

    def read_request(sock):
        buf = b''
        while b'\r\n\r\n' not in buf:
            d = sock.recv(65536)
            if not d:
                return buf
            buf += d
        info['requests'] += 1
        return buf

    def silent(sock):
        try:
            while sock.recv(65536):
                pass
        except (OSError, IOError):
            pass

    def handler(sock, addr):
        try:
            if pattern == 'never-answers':
                stalled.set()
                silent(sock)
            elif pattern in ('partial-status-line', 'headers-unfinished'):
                read_request(sock)
                sock.sendall(b'HTTP/1.1 20' if pattern == 'partial-status-line' else _HTTP_OK.split(b'\r\n\r\n')[0] + b'\r\n')
                stalled.set()
                silent(sock)
            elif pattern == 'trickle-headers':
                read_request(sock)
                for i in range(len(_HTTP_OK)):
                    sock.sendall(_HTTP_OK[i:i + 1])
                    info['trickled'] += 1
                    stalled.set()
                    gevent.sleep(T / 4.0)
            elif pattern == 'slow-ok':
                read_request(sock)
                gevent.sleep(T / 2.0)
                sock.sendall(_HTTP_OK)
        except (OSError, IOError):
            pass
        finally:
            sock.close()

    listener = None
    srv = None
    if pattern == 'never-accepted':
        listener = socket.socket()
        listener.bind(('127.0.0.1', 0))
        listener.listen(8)
        port = listener.getsockname()[1]
    else:
        srv = StreamServer(('127.0.0.1', 0), handler)
        srv.start()
        port = srv.server_port
    relay = HttpRelay('http://127.0.0.1:%d/deliver' % port, timeout=T, ehlo_as='relay.c14.test')
    hclients = []
    orig_add = relay.add_client

    def add_client():
        c = orig_add()
        hclients.append(c)
        return c
    relay.add_client = add_client
    out = {}
    started = Event()
    g = _attempt(relay, _envelope(sub), out, started)
    try:
        if pattern == 'slow-ok':
            g.join(timeout=STEP_WATCHDOG)
            res.detail.update({'T': T, 'outcome': _outcome(out), 'requests_seen': info['requests']})
            if not out.get('done'):
                res.inconc = 'watchdog: control attempt did not end'
            res.ok = _is_success(out)
            return res
        started.wait(STEP_WATCHDOG)
        gevent.sleep(0)
        if pattern != 'never-accepted':
            gevent.wait([stalled, g] + list(hclients), timeout=STEP_WATCHDOG, count=1)
            if not stalled.is_set() and (out.get('done') or any(not c.dead for c in hclients) or not hclients):
                res.inconc = 'stall-stage-not-reached: http attempt %s before the server stalled' % _outcome(out)
                return res
            # (stalled not set, attempt blocked, its only client greenlet already gone: judged below as well --
            # nobody is left who could ever end the attempt; the detail says the stall point was not reached)
        res.detail['stall_point_reached'] = pattern == 'never-accepted' or stalled.is_set()
        chain_sleep(T)
        done = bool(out.get('done'))
        clients = list(hclients)
        res.detail.update({'T': T, 'pattern': pattern, 'attempt_ended': done, 'outcome': _outcome(out),
                           'requests_seen': info['requests'], 'bytes_trickled': info['trickled'],
                           'client_greenlets_alive': len([c for c in clients if not c.dead]),
                           'harness_slept_at_least_after_stall_began': K * T})
        res.hits.append('http-stall-judged')
        res.obs.append(('http-outcome', (pattern, _outcome(out)[:40])))
        if not done:
            res.detail['blocked_at'] = where_blocked(g)
            res.detail['client_blocked_at'] = [where_blocked(c) for c in clients if not c.dead]
            res.failed.append(('still-blocked',
                               'HttpRelay(timeout=%gs).attempt still blocked after %d*T; server %s; attempt blocked at '
                               '%s, %d client greenlet(s) alive'
                               % (T, K, pattern, (res.detail['blocked_at'] or ['?'])[-1],
                                  res.detail['client_greenlets_alive'])))
        elif not _is_transient(out):
            res.failed.append(('wrong-error-class', 'HTTP attempt that timed out ended with "%s", not a transient failure'
                               % _outcome(out)))
        return res
    finally:
        g.kill(block=False)
        relay.kill()
        if srv is not None:
            srv.stop(timeout=0)
        if listener is not None:
            listener.close()


# ---------------------------------------------------------------- HTTP relay, connection re-use

HTTP_REUSE = ['previous-complete+next-silent', 'previous-complete+next-trickle', 'previous-body-unfinished',
              'previous-body-trickled', 'previous-body-short-then-closed']
HTTP_IDLE = 5.0        # only has to outlast the gap between the two attempts; never part of a verdict


def run_http_reuse_case(sub):
    """HttpRelay(timeout=T, idle_timeout=I): message 1 is answered with complete headers (the attempt returns) and
    a body that is complete / never finished / trickled / short-then-closed; message 2 is picked up by the same idle
    client on the same connection.  Whatever is still owed from message 1 and whatever the server does with message
    2 (silent, trickle), attempt 2 must end within the timer chain.  pattern 'reuse-slow-ok' is the control: both
    answers delayed by T/2, both must succeed on ONE connection."""
    res = Result()
    T = sub['T']
    pattern = sub['pattern']
    control = pattern == 'reuse-slow-ok'
    first, _, second = pattern.partition('+next-')
    stalled = Event()
    info = {'conns': 0, 'requests': [], 'trickled': 0}
    head = b'HTTP/1.1 200 OK\r\nX-Smtp-Reply: 250; message="2.6.0 accepted"\r\nContent-Length: %d\r\n\r\n'

    def read_request(sock, buf):
        while b'\r\n\r\n' not in buf:
            d = sock.recv(65536)
            if not d:
                return None, b''
            buf += d
        hdr, _, rest = buf.partition(b'\r\n\r\n')
        n = 0
        for ln in hdr.split(b'\r\n'):
            if ln.lower().startswith(b'content-length:'):
                n = int(ln.split(b':', 1)[1])
        while len(rest) < n:
            d = sock.recv(65536)
            if not d:
                return None, b''
            rest += d
        return hdr, rest[n:]

    def silent(sock):
        try:
            while sock.recv(65536):
                pass
        except (OSError, IOError):
            pass

    def trickle(sock, data):
        for i in range(len(data)):
            sock.sendall(data[i:i + 1])
            info['trickled'] += 1
            stalled.set()
            gevent.sleep(T / 4.0)

    def handler(sock, addr):
        info['conns'] += 1
        conn = info['conns']
        nreq = 0
        buf = b''
        try:
            while True:
                hdr, buf = read_request(sock, buf)
                if hdr is None:
                    return
                nreq += 1
                info['requests'].append((conn, nreq))
                if control:
                    gevent.sleep(T / 2.0)
                    sock.sendall(head % 2 + b'ok')
                elif nreq == 1:
                    if first == 'previous-complete':
                        sock.sendall(head % 2 + b'ok')
                    elif first == 'previous-body-unfinished':
                        sock.sendall(head % 64 + b'only ten b')
                        stalled.set()
                    elif first == 'previous-body-trickled':
                        sock.sendall(head % 200)
                        trickle(sock, b'b' * 200)
                    elif first == 'previous-body-short-then-closed':
                        sock.sendall(head % 64 + b'only ten b')
                        return
                else:
                    if second == 'silent':
                        stalled.set()
                        silent(sock)
                        return
                    elif second == 'trickle':
                        trickle(sock, head % 2 + b'X-Padding: ' + b'p' * 80 + b'\r\n' + b'ok')
                    else:
                        sock.sendall(head % 2 + b'ok')
        except (OSError, IOError):
            pass
        finally:
            sock.close()

    srv = StreamServer(('127.0.0.1', 0), handler)
    srv.start()
    relay = HttpRelay('http://127.0.0.1:%d/deliver' % srv.server_port, timeout=T, idle_timeout=HTTP_IDLE,
                      ehlo_as='relay.c14.test')
    hclients = []
    orig_add = relay.add_client

    def add_client():
        c = orig_add()
        hclients.append(c)
        return c
    relay.add_client = add_client
    out1, out2 = {}, {}
    gs = []
    try:
        g1 = _attempt(relay, _envelope(sub), out1)
        gs.append(g1)
        g1.join(timeout=STEP_WATCHDOG)
        res.detail.update({'T': T, 'pattern': pattern, 'idle_timeout': HTTP_IDLE, 'first_outcome': _outcome(out1)})
        if not _is_success(out1):
            if control:
                res.ok = False
                return res
            res.inconc = 'stall-stage-not-reached: first http attempt did not succeed (%s)' % _outcome(out1)
            return res
        if first in ('previous-body-unfinished', 'previous-body-trickled'):
            stalled.wait(STEP_WATCHDOG)           # what is owed from message 1 is now being withheld
        started = Event()
        g2 = _attempt(relay, _envelope(sub, 1), out2, started)
        gs.append(g2)
        if control:
            g2.join(timeout=STEP_WATCHDOG)
            res.detail.update({'second_outcome': _outcome(out2), 'connections': info['conns'],
                               'requests_seen': list(info['requests'])})
            if not out2.get('done'):
                res.inconc = 'watchdog: control attempt did not end'
            elif info['conns'] != 1 and _is_success(out2):
                res.inconc = 'stall-stage-not-reached: control connection was not re-used'
            res.ok = _is_success(out2)
            return res
        started.wait(STEP_WATCHDOG)
        if first == 'previous-complete':
            gevent.wait([stalled, g2], timeout=STEP_WATCHDOG, count=1)
            if not stalled.is_set():
                res.inconc = 'stall-stage-not-reached: second http attempt %s before the server stalled' % _outcome(out2)
                return res
        else:
            settle()                              # the idle client has picked the request up (loop iterations)
        chain_sleep(T)
        done = bool(out2.get('done'))
        res.detail.update({'second_attempt_ended': done, 'second_outcome': _outcome(out2),
                           'connections': info['conns'], 'requests_seen': list(info['requests']),
                           'bytes_trickled': info['trickled'], 'clients_created': len(hclients),
                           'client_greenlets_alive': len([c for c in hclients if not c.dead]),
                           'harness_slept_at_least_after_stall_began': K * T})
        if info['conns'] != 1 or len(hclients) != 1:
            res.inconc = 'stall-stage-not-reached: the connection was not re-used (%d connections, %d clients)' \
                % (info['conns'], len(hclients))
            return res
        res.hits.append('http-stall-judged')
        res.hits.append('http-reuse-judged')
        res.obs.append(('http-outcome', (pattern, _outcome(out2)[:40])))
        if not done:
            res.detail['blocked_at'] = where_blocked(g2)
            res.detail['client_blocked_at'] = [where_blocked(c) for c in hclients if not c.dead]
            inner = [b[-1] for b in res.detail['client_blocked_at'] if b]
            res.failed.append(('still-blocked',
                               'second HttpRelay(timeout=%gs, idle_timeout set).attempt on the re-used connection still '
                               'blocked after %d*T (%s); client blocked at %s'
                               % (T, K, pattern, inner[0] if inner else 'no client greenlet alive')))
        elif first != 'previous-body-short-then-closed' and not _is_transient(out2):
            res.failed.append(('wrong-error-class', 'second HTTP attempt that timed out ended with "%s", not a transient '
                               'failure' % _outcome(out2)))
        return res
    finally:
        for g in gs:
            g.kill(block=False)
        relay.kill()
        srv.stop(timeout=0)


# ---------------------------------------------------------------- case generation

def _key(sub):
    sec = sub.get('second')
    return (sub['side'], sub.get('proto'), sub['stage'], sub['pattern'], sub.get('pipelining'), sub.get('nrcpt'),
            bool(sub.get('tls')), bool(sub.get('idle')),
            (sec['stage'], sec.get('mode')) if sec else None, sub['T'])


def all_subcases(tier, seed):
    rnd = random.Random('c14-%s-%d' % (tier, seed))
    stall, control = [], []

    def add(lst, **kw):
        kw['rs'] = rnd.randrange(1 << 30)
        lst.append(kw)

    for T in TS[tier]:
        for stage in sorted(SERVER_STAGES):
            for pattern in SERVER_STAGES[stage][2]:
                add(stall, side='server', stage=stage, pattern=pattern, T=T)
        for stage, pattern in EDGE_STAGES:
            add(stall, side='edge', stage=stage, pattern=pattern, T=T)
        for proto in ('smtp', 'lmtp'):
            for pl in (False, True):
                for stage in RELAY_STALL_STAGES:
                    add(stall, side='relay', proto=proto, pipelining=pl, nrcpt=1, stage=stage, pattern='stall', T=T)
                    if stage != 'connect':
                        add(stall, side='relay', proto=proto, pipelining=pl, nrcpt=1 + (rnd.random() < 0.3),
                            stage=stage, pattern='partial', T=T)
                two = ['rcpt0', 'rcpt1', 'data', 'eod0', 'rset', 'quit'] + (['eod1'] if proto == 'lmtp' else [])
                for stage in two:
                    add(stall, side='relay', proto=proto, pipelining=pl, nrcpt=2, stage=stage, pattern='stall', T=T)
                trick = ['banner', 'ehlo', 'mail', 'data', 'eod0', 'quit']
                tlsst = ['mail', 'eod0', 'quit']
                if tier == 'thorough':
                    trick += ['starttls', 'auth', 'rcpt0', 'rset']
                    tlsst += ['ehlo', 'auth', 'rcpt0', 'data', 'rset']
                    for stage in two:
                        add(stall, side='relay', proto=proto, pipelining=pl, nrcpt=2, stage=stage, pattern='trickle' if
                            stage in _TRICKLE_CODE else 'partial', T=T)
                for stage in trick:
                    add(stall, side='relay', proto=proto, pipelining=pl, nrcpt=1, stage=stage, pattern='trickle', T=T)
                for stage in tlsst:
                    add(stall, side='relay', proto=proto, pipelining=pl, nrcpt=1, stage=stage, pattern='stall', T=T,
                        tls=True)
                    if tier == 'thorough':
                        add(stall, side='relay', proto=proto, pipelining=pl, nrcpt=2, stage=stage, pattern='partial', T=T,
                            tls=True)
        for cls in ('PipeRelay', 'MaildropRelay', 'DovecotLdaRelay'):
            for pattern in sorted(_STUBS):
                add(stall, side='pipe', stage=cls, pattern=pattern, nrcpt=2 if cls == 'PipeRelay' else 1, T=T)
        for pattern in ('never-accepted', 'never-answers', 'partial-status-line', 'headers-unfinished', 'trickle-headers'):
            add(stall, side='http', stage='response' if pattern != 'never-accepted' else 'connect', pattern=pattern,
                nrcpt=1, T=T)
        for pattern in HTTP_REUSE:
            add(stall, side='http', stage='reuse', pattern=pattern, nrcpt=1, T=T)
        # SMTP / LMTP connection re-use (idle_timeout set): message 1 succeeds, the next hop goes silent at a step of
        # message 2 on the same connection, or sends half a line unasked while idle (the _check_server_timeout probe)
        for proto in ('smtp', 'lmtp'):
            for pl in (False, True):
                for frag in sorted(PROBE_FRAGMENTS):
                    for idle in (None, RELAY_IDLE):
                        add(stall, side='relay', proto=proto, pipelining=pl, nrcpt=1, stage='probe-before-mail',
                            pattern=frag, T=T, idle=idle)
                for s2 in (('mail', 'eod0', 'idle-probe') if tier == 'quick' else ('idle-probe',)):
                    sec = {'stage': s2, 'mode': 'reuse'}
                    if s2 == 'idle-probe':
                        sec['pattern'] = 'partial'
                    add(stall, side='relay', proto=proto, pipelining=pl, nrcpt=1, stage='none', pattern='stall',
                        T=T, idle=RELAY_IDLE, second=sec)
        if tier == 'thorough':
            firsts = ['connect', 'banner', 'ehlo', 'mail', 'rcpt0', 'data', 'eod0', 'rset', 'quit']
            seconds = ['connect', 'banner', 'ehlo', 'mail', 'rcpt0', 'data', 'eod0', 'rset', 'quit']
            for proto in ('smtp', 'lmtp'):
                for pl in (False, True):
                    for s1 in firsts:
                        if s1 == 'eod0' and pl:
                            continue          # first attempt never ends there (known), nothing to follow
                        for s2 in seconds:
                            add(stall, side='relay', proto=proto, pipelining=pl, nrcpt=1, stage=s1, pattern='stall',
                                T=T, second={'stage': s2, 'mode': 'reconnect'})
                    for s2 in ('mail', 'rcpt0', 'data', 'eod0', 'rset', 'quit'):
                        add(stall, side='relay', proto=proto, pipelining=pl, nrcpt=1, stage='none', pattern='stall',
                            T=T, idle=RELAY_IDLE, second={'stage': s2, 'mode': 'reuse'})
    for T in TS_SLOW[tier]:
        add(control, side='server', stage='all-commands', pattern='slow-client', T=T)
        for proto in ('smtp', 'lmtp'):
            for pl in (False, True):
                for nr in (1, 2):
                    add(control, side='relay', proto=proto, pipelining=pl, nrcpt=nr, stage='all-stages',
                        pattern='slow-replies', T=T)
                add(control, side='relay', proto=proto, pipelining=pl, nrcpt=1, stage='all-stages', pattern='slow-replies',
                    T=T, tls=True, auth=True)
        add(control, side='http', stage='response', pattern='slow-ok', nrcpt=1, T=T)
        add(control, side='http', stage='reuse', pattern='reuse-slow-ok', nrcpt=1, T=T)
    rnd.shuffle(stall)
    return stall, control


def gen_cases(tier, seed, shard, nshards):
    stall, control = all_subcases(tier, seed)
    mine = [s for i, s in enumerate(stall) if i % nshards == shard]
    size = 130
    for i in range(0, len(mine), size):
        yield {'batch': mine[i:i + size], 'phase': 'stall'}
    minec = [s for i, s in enumerate(control) if i % nshards == shard]
    if minec:
        yield {'batch': minec, 'phase': 'control'}


# ---------------------------------------------------------------- running and recording

def _innermost(detail, label):
    """Innermost slimta frame the blocked greenlet(s) sit in, from the witness."""
    d = detail.get(label) if isinstance(detail.get(label), dict) else detail
    b = d.get('blocked_at') or []
    if b and isinstance(b[0], list):
        b = [x[-1] for x in b if x]
        return b[0] if b and all(x == b[0] for x in b) else None
    return b[-1] if b else None


def mechanism(sub, clause, detail=None, label='first'):
    """<side>/<stage>/<pattern>[/<pipelining>]/<clause>.  One refinement from the witness: a greenlet that got past
    the stalled step and is stuck in IO.close() (TLS goodbye to a peer that never answers) is classified by THAT
    step -- stage 'close', pattern 'tls-peer-silent' -- whatever stage the peer went silent at."""
    side = sub['side']
    if side == 'relay':
        side = 'relay-' + sub['proto']
    inner = _innermost(detail or {}, label) or ''
    if inner.startswith('smtp/io.py:close:') and clause in ('still-blocked', 'client-greenlet-still-blocked'):
        return '/'.join([side, 'close', 'tls-peer-silent', clause])
    parts = [side, sub['stage'], sub['pattern']]
    if sub['side'] == 'relay':
        parts.append('pipelining' if sub['pipelining'] else 'no-pipelining')
    return '/'.join(parts) + '/' + clause


def is_control(sub):
    return sub['pattern'] in ('slow-client', 'slow-replies', 'slow-ok', 'reuse-slow-ok')


def run_sub(sub):
    side = sub['side']
    if is_control(sub):
        if side == 'server':
            return run_server_control(sub)
        if side == 'relay':
            return run_relay_control(sub)
        if sub['stage'] == 'reuse':
            return run_http_reuse_case(sub)
        return run_http_case(sub)
    if side in ('server', 'edge'):
        return run_server_case(sub)
    if side == 'relay':
        return run_relay_probe_case(sub) if sub['stage'] == 'probe-before-mail' else run_relay_case(sub)
    if side == 'pipe':
        return run_pipe_case(sub)
    if side == 'http':
        return run_http_reuse_case(sub) if sub['stage'] == 'reuse' else run_http_case(sub)
    raise ValueError(side)


def _second_mech(sub, clause, detail):
    sec = sub['second']
    s2 = dict(sub)
    s2['stage'] = sec['stage']
    s2['pattern'] = ('second-stall-after-' + ('reuse' if sec.get('mode') == 'reuse' else 'reconnect'))
    return mechanism(s2, clause, detail, 'second')


def record(sub, res, R):
    R.eval()
    R.nontrivial(_key(sub))
    R.observe('stall-point', _key(sub)[:-1])
    for h in res.hits:
        R.hit(h)
    for kind, key in res.obs:
        R.observe(kind, key)
    for name, n in res.counts:
        R.count(name, n)
    if res.inconc:
        R.inconclusive(res.inconc[:160])
        return
    if sub.get('rs', 0) % 37 == 0:
        R.sample({'case': sub, 'detail': res.detail})
    seen = set()
    for f in res.failed:
        label, clause, what = f if len(f) == 3 else ('first',) + tuple(f)
        mech = _second_mech(sub, clause, res.detail) if label == 'second' else mechanism(sub, clause, res.detail)
        if (mech, what) in seen:
            continue
        seen.add((mech, what))
        R.violation(mech, what, res.detail)


def _run_guarded(sub, slot, i):
    try:
        slot[i] = run_sub(sub)
    except gevent.GreenletExit:
        raise
    except Exception:
        import traceback
        r = Result()
        r.inconc = 'harness-exception: ' + traceback.format_exc(limit=5)[-300:]
        slot[i] = r


def run_case(case, R):
    hub = gevent.get_hub()
    hub.print_exception = lambda *a, **k: None      # greenlets of the code under test may die noisily
    tls.cert_files()
    if 'batch' not in case:
        subs, single = [case], True
    else:
        subs, single = case['batch'], False
        R.cases -= 1                                   # the envelope around a batch is not a case itself
    lagmon = LagMonitor()
    lagmon.start()
    slot = [None] * len(subs)
    t0 = time.monotonic()
    # staggered start: the start-up burst of ~100 sessions must not eat the (short) timeouts of steps
    # that precede the stall point (that would only cost coverage: 'stall-stage-not-reached')
    gs = [gevent.spawn_later(i * STAGGER, _run_guarded, s, slot, i) for i, s in enumerate(subs)]
    gevent.joinall(gs, timeout=WATCHDOG)
    lag_batch = lagmon.max_since(t0)
    # a step BEFORE the stall point timed out (start-up burst / machine load): no verdict possible; give those
    # cases one more, much less crowded, run before reporting them inconclusive
    again = [i for i, r in enumerate(slot) if r is not None and r.inconc and r.inconc.startswith('stall-stage-not-reached')
             and not is_control(subs[i])]
    if again:
        R.count('rerun-after-stall-stage-not-reached', len(again))
        for i in again:
            R.count('rerun/%s/%s' % (subs[i]['side'], subs[i]['stage']))
            slot[i] = None
        gs2 = [(i, gevent.spawn_later(n * 10 * STAGGER, _run_guarded, subs[i], slot, i)) for n, i in enumerate(again)]
        gevent.joinall([g for _, g in gs2], timeout=WATCHDOG)
        for i, g in gs2:
            gs[i] = g
    R.count('batches')
    retry = []
    for i, sub in enumerate(subs):
        res = slot[i]
        if res is not None and is_control(sub) and not res.inconc and not getattr(res, 'ok', False):
            retry.append((sub, res, lag_batch))
            continue
        if not single:
            R.begin_case(sub)
        if res is None:
            gs[i].kill(block=False)
            R.eval()
            R.nontrivial(_key(sub))
            R.inconclusive('watchdog: case did not finish within %ds' % WATCHDOG)
            continue
        if is_control(sub) and getattr(res, 'ok', False):
            res.hits.append('control-succeeded')
        record(sub, res, R)
    # a failing must-succeed control: re-run alone (own lag window) before judging
    for sub, res, lag in retry:
        if not single:
            R.begin_case(sub)
        runs = [(res, lag)]
        while len(runs) < 3 and not getattr(runs[-1][0], 'ok', False):
            t1 = time.monotonic()
            s2 = [None]
            g = gevent.spawn(_run_guarded, sub, s2, 0)
            g.join(timeout=WATCHDOG)
            g.kill(block=False)
            if s2[0] is None or s2[0].inconc:
                break
            runs.append((s2[0], lagmon.max_since(t1)))
        last, _ = runs[-1]
        thr = sub['T'] / 16.0
        genuine = [(r, l) for r, l in runs if not getattr(r, 'ok', False) and l < thr]
        last.detail['control_runs'] = [{'ok': bool(getattr(r, 'ok', False)), 'max_hub_lag': l,
                                        'outcome': r.detail.get('outcome', r.detail.get('reply_codes'))}
                                       for r, l in runs]
        last.detail['lag_threshold'] = thr
        if getattr(last, 'ok', False):
            R.count('control-failed-then-succeeded-alone')
            last.hits.append('control-succeeded')
            record(sub, last, R)
        elif len(genuine) == len(runs):
            last.failed.append(('slow-but-within-timeout-failed',
                                'every step of the peer took T/2 (T=%gs) yet the %s failed in %d of %d runs on a '
                                'responsive hub (max lag %.4fs): %s'
                                % (sub['T'], 'session' if sub['side'] == 'server' else 'attempt', len(genuine),
                                   len(runs), max(l for _, l in runs), last.detail.get('outcome',
                                                                                        last.detail.get('reply_codes')))))
            record(sub, last, R)
        else:
            last.inconc = 'control failed while the hub was lagging (load); not judged'
            record(sub, last, R)
    lagmon.stop()


def shard_cleanup():
    import shutil
    d = _scratch.pop('dir', None)
    if d:
        shutil.rmtree(d, ignore_errors=True)
    tls.cleanup()
