"""C15 -- every queue storage backend behaves like the same simple store.

The real backends (DictStorage; DiskStorage on real pyaio; RedisStorage through the real redis-py
client against vf.miniredis.MiniRedis; CloudStorage over vf.memstore.MemObjectStore +- MemMsgQueue)
execute generated operation histories; every answer is compared with ``RefStore`` below.

A case is a list of *tracks*; every message belongs to exactly one track, so the sub-history of
each id is sequential and its answers (get / increment_attempts / get-after-remove) are judged
exactly.  mode 'seq' = one track over 1..4 messages; mode 'overlap' = one greenlet per message,
all running concurrently.  ``load()`` answers are judged with an interval rule over logical ticks
(exact when nothing overlaps): an id that was live during the whole call must be listed, an id may
be listed only if it was possibly live at some moment of the call, and the timestamp listed must be
one the id possibly had at some moment of the call.

Events that refute: a write returning an id seen before; get() answering another sender / content /
undelivered-recipient list / attempt count than the reference; increment_attempts() returning
another number; load() listing a removed or unknown id, missing a live one, listing one twice or
with a timestamp it did not have; get() after remove() returning; any operation of the interface
raising on a live id.
"""
import os
import random
import shutil
import tempfile
import itertools

import gevent

from vf import core
from vf.miniredis import MiniRedis
from vf.memstore import MemObjectStore, MemMsgQueue
from slimta.envelope import Envelope
from slimta.queue.dict import DictStorage
from slimta.diskstorage import DiskStorage
from slimta.redisstorage import RedisStorage
from slimta.cloudstorage import CloudStorage

PROPERTY = 'C15'
LEVEL = 'exploration'
LEVEL_TEXT = ('Real DictStorage, DiskStorage(pyaio), RedisStorage(redis-py -> in-process MiniRedis) and '
              'CloudStorage(in-memory object store, strict aws-like and lenient, with/without message queue) '
              'run seeded histories of 5..40 operations over 1..4 messages, sequentially and (disk, redis, '
              'cloud) with one concurrent greenlet per message; every answer is compared with a 25-line '
              'reference store, load() with an interval rule. Held = held on the histories reported; real '
              'redis / S3 servers and multi-round delivered marking are outside.')
LEVEL_NOTE = ('Trusted: RefStore, the interval rule for load(), MiniRedis (RESP3, Redis typing rules), '
              'MemObjectStore (mirrors slimta.cloudstorage.aws.SimpleStorageService conventions; the real '
              'adapter cannot be imported: boto does not import on this interpreter).')
TECHNIQUE = ('runtime monitoring: differential comparison of every backend answer with a reference store over '
             'seeded operation histories; per-id sequential sub-histories under overlapping greenlets')
RULE = ('case = (backend configuration, mode, 1..4 message specs, tracks of operations drawn from write, get, '
        'load, set_timestamp, increment_attempts, set_recipients_delivered (at most one call per message, a '
        'list of indexes), remove, get-after-remove, and for redis drain = wait() until the notification list '
        'is empty); each backend call = one evaluation. After the tracks a final sweep gets every id and '
        'loads (redis: load, drain, load). non-trivial & distinct = distinct (backend, mode, operation '
        'sequence) with >= 2 messages written and either a delivered-marking followed by a get of that '
        'message or a remove followed by a load / get-after-remove')
ASSUMPTIONS = ['set_recipients_delivered is called once per message with a list of indexes (what the Queue '
               'passes -- a set, several rounds -- is judged by C03)',
               'ids are compared after bytes->str normalisation; a type difference between write() and load() '
               'ids is recorded (counters id-type-mismatch-write-vs-load/*), not judged',
               'MiniRedis and MemObjectStore are faithful to Redis / the aws adapter for the commands used',
               'in overlap mode the interleaving of disk and redis operations depends on OS timing; the oracle '
               'is exact for every interleaving, but a replay may schedule differently',
               'any exception type is accepted for get() after remove()']
FAMS = ['dict', 'disk', 'redis', 'cloud-strict', 'cloud-lenient']
OVERLAP_FAMS = ['disk', 'redis', 'cloud-strict', 'cloud-lenient']
REQUIRED_HITS = (['%s/%s' % (h, f) for f in FAMS
                  for h in ('get-compared', 'load-judged', 'increment-judged', 'gone-judged',
                            'distinct-id-judged', 'other-ids-undisturbed')] +
                 ['overlap-load-judged/%s' % f for f in OVERLAP_FAMS] +
                 ['overlapped-ops/%s' % f for f in OVERLAP_FAMS] +
                 ['load-with-notifications-pending/redis', 'load-after-drain/redis'])
SHARDS = {'quick': 8, 'thorough': 16}
BUDGET = {'quick': 45, 'thorough': 800}

# (family, cfg, mode, cases at quick, cases at thorough)
PLAN = [
    ('dict', {}, 'seq', 1600, 20000),
    ('disk', {}, 'seq', 320, 12000),
    ('disk', {}, 'overlap', 240, 8000),
    ('redis', {'delay': False}, 'seq', 200, 8000),
    ('redis', {'delay': True}, 'seq', 80, 4000),
    ('redis', {'delay': False}, 'overlap', 100, 4000),
    ('redis', {'delay': True}, 'overlap', 140, 6000),
    ('cloud-strict', {'mq': False}, 'seq', 300, 8000),
    ('cloud-strict', {'mq': True}, 'seq', 300, 8000),
    ('cloud-strict', {'mq': False}, 'overlap', 200, 6000),
    ('cloud-strict', {'mq': True}, 'overlap', 200, 6000),
    ('cloud-lenient', {'mq': False}, 'seq', 400, 10000),
    ('cloud-lenient', {'mq': True}, 'seq', 400, 10000),
    ('cloud-lenient', {'mq': False}, 'overlap', 300, 10000),
    ('cloud-lenient', {'mq': True}, 'overlap', 300, 10000),
]


# ------------------------------------------------------------------ the reference (trusted)

class RefStore(object):
    def __init__(self):
        self.m = {}

    def write(self, id, sender, content, rcpts, ts):
        self.m[id] = {'sender': sender, 'content': content, 'rcpts': list(rcpts), 'deliv': set(),
                      'attempts': 0, 'ts': ts}

    def get(self, id):
        m = self.m[id]                      # KeyError = gone
        left = [r for i, r in enumerate(m['rcpts']) if i not in m['deliv']]
        return m['sender'], m['content'], left, m['attempts']

    def set_timestamp(self, id, ts):
        self.m[id]['ts'] = ts

    def increment_attempts(self, id):
        self.m[id]['attempts'] += 1
        return self.m[id]['attempts']

    def set_recipients_delivered(self, id, idx):
        self.m[id]['deliv'].update(idx)

    def remove(self, id):
        del self.m[id]

    def load(self):
        return dict((i, m['ts']) for i, m in self.m.items())


# ------------------------------------------------------------------ generation

def gen_track(rnd, ks, nops, fam, drain):
    """ops for one track owning messages ks; valid w.r.t. liveness by construction."""
    state = dict((k, 'new') for k in ks)
    delivd = set()
    ops = []
    while len(ops) < nops:
        live = [k for k in ks if state[k] == 'live']
        gone = [k for k in ks if state[k] == 'gone']
        new = [k for k in ks if state[k] == 'new']
        if not live and not gone:
            op = 'write'
        else:
            op = rnd.choice(['write', 'write', 'get', 'get', 'get', 'load', 'load', 'ts', 'ts', 'inc', 'inc',
                             'deliv', 'deliv', 'remove', 'gone', 'drain'])
        if op == 'write' and new:
            k = new[0]
            state[k] = 'live'
            ops.append(['write', k, rnd.random() * 2e9])
        elif op == 'get' and live:
            ops.append(['get', rnd.choice(live)])
        elif op == 'load':
            ops.append(['load'])
        elif op == 'ts' and live:
            ops.append(['ts', rnd.choice(live), rnd.choice([rnd.random() * 2e9, float(rnd.randrange(10 ** 9))])])
        elif op == 'inc' and live:
            ops.append(['inc', rnd.choice(live)])
        elif op == 'deliv' and [k for k in live if k not in delivd]:
            k = rnd.choice([k for k in live if k not in delivd])
            delivd.add(k)
            ops.append(['deliv', k, rnd.random(), rnd.random()])   # resolved against the recipient count
        elif op == 'remove' and live:
            k = rnd.choice(live)
            state[k] = 'gone'
            ops.append(['remove', k])
        elif op == 'gone' and gone:
            ops.append(['gone', rnd.choice(gone)])
        elif op == 'drain' and drain:
            ops.append(['drain'])
    return ops


def gen_case(fam, cfg, mode, rnd):
    nm = rnd.choice([1, 2, 2, 3, 3, 4, 4]) if mode == 'seq' else rnd.choice([2, 3, 4, 4])
    msgs = []
    for k in range(nm):
        size = rnd.choice([0, 10, 10, 200, 200, 3000, 20000 if rnd.random() < 0.3 else 500,
                           70000 if rnd.random() < 0.15 else 50])
        msgs.append({'nrcpt': rnd.choice([1, 1, 2, 3, 4, 5]), 'size': size, 'hdr8': rnd.random() < 0.2})
    if mode == 'seq':
        tracks = [gen_track(rnd, list(range(nm)), rnd.randrange(5, 41), fam, fam == 'redis')]
    else:
        per = max(3, rnd.randrange(5, 41) // nm)
        tracks = [gen_track(rnd, [k], rnd.randrange(3, per + 3), fam, fam == 'redis' and k == 0)
                  for k in range(nm)]
    case = {'fam': fam, 'cfg': dict(cfg), 'mode': mode, 'msgs': msgs, 'tracks': tracks}
    if cfg.get('delay'):
        case['delay_seed'] = rnd.randrange(1 << 30)
    return case


def gen_cases(tier, seed, shard, nshards):
    col = 3 if tier == 'quick' else 4
    n = 0
    streams = []
    for pi, p in enumerate(PLAN):
        streams.append((p, random.Random('c15-%d-%d' % (seed, pi)), p[col]))
    # round-robin over the plan so that a budget cut thins every backend alike
    left = [s[2] for s in streams]
    while any(left):
        for si, (p, rnd, _) in enumerate(streams):
            if not left[si]:
                continue
            # several per turn for the cheap ones
            for _ in range(min(left[si], 8 if p[0] in ('dict',) or p[0].startswith('cloud') else 1)):
                left[si] -= 1
                case = gen_case(p[0], p[1], p[2], rnd)
                if n % nshards == shard:
                    yield case
                n += 1


# ------------------------------------------------------------------ backends

_MR = [None]
_SEQ = itertools.count()
_TMP = []


def _scratch():
    base = os.environ.get('VERIF_SCRATCH')
    if base and os.path.isdir(base):
        d = os.path.join(base, 'c15-%d' % os.getpid())
        os.makedirs(d, exist_ok=True)
        return d
    if not _TMP:
        _TMP.append(tempfile.mkdtemp(prefix='c15-'))
    return _TMP[0]


def shard_cleanup():
    for d in _TMP:
        shutil.rmtree(d, ignore_errors=True)
    del _TMP[:]


def make_backend(case):
    """-> (storage, cleanup, extra)"""
    fam, cfg = case['fam'], case['cfg']
    if fam == 'dict':
        return DictStorage(), (lambda: None), {}
    if fam == 'disk':
        d = os.path.join(_scratch(), 'd%d' % next(_SEQ))
        for x in ('env', 'meta', 'tmp'):
            os.makedirs(os.path.join(d, x))
        st = DiskStorage(os.path.join(d, 'env'), os.path.join(d, 'meta'), os.path.join(d, 'tmp'))
        return st, (lambda: shutil.rmtree(d, ignore_errors=True)), {}
    if fam == 'redis':
        if _MR[0] is None:
            _MR[0] = MiniRedis()
        mr = _MR[0]
        # the documented prefix is "any string": vary its shape (colon-terminated namespace, several
        # colons, no colon at all, non-alphanumeric end) -- the ids load() lists must not depend on it
        n = next(_SEQ)
        prefix = ('c15-%d-%d:', 'c15:%d:%d:', 'c15-%d-%d-', 'c15.%d.%d/')[n % 4] % (os.getpid(), n)
        st = RedisStorage('127.0.0.1', mr.port, prefix=prefix)
        if 'delay_seed' in case:
            drnd = random.Random(case['delay_seed'])
            mr.delay = lambda c: drnd.choice((0, 0, 0, 0.0002, 0.0005, 0.001))
        else:
            mr.delay = None

        def cleanup():
            mr.delay = None
            try:
                st.redis.connection_pool.disconnect()
            except Exception:
                pass
            pb = prefix.encode()
            for k in [k for k in mr.db if k.startswith(pb)]:
                del mr.db[k]
            del mr.log[:]
        return st, cleanup, {'mr': mr}
    if fam in ('cloud-strict', 'cloud-lenient'):
        obj = MemObjectStore(lenient=(fam == 'cloud-lenient'))
        mq = MemMsgQueue() if cfg.get('mq') else None
        return CloudStorage(obj, mq), (lambda: None), {'obj': obj, 'mq': mq}
    raise ValueError(fam)


def make_envelope(k, spec):
    env = Envelope('s%d@sender.test' % k, ['r%d.%d@d%d.test' % (k, i, i) for i in range(spec['nrcpt'])])
    hdr = b'Subject: m%d\r\nFrom: s%d@sender.test\r\n' % (k, k)
    if spec['hdr8']:
        hdr += b'X-Eight: caf\xc3\xa9\r\n'
    body = (b'body %d \xff\x00\r\n' % k) + bytes(bytearray((i * 7 + k) % 256 for i in range(spec['size'])))
    env.parse(hdr + b'\r\n' + body)
    env.receiver = 'me.test'
    env.timestamp = 1234567890.0 + k
    env.client = {'ip': '192.0.2.%d' % k, 'name': 'c.test'}
    return env


def norm(i):
    return i.decode('ascii', 'replace') if isinstance(i, (bytes, bytearray)) else i


def exc_name(e):
    n = type(e).__name__
    if n == 'ResponseError':
        n += '-' + (str(e).split() or ['?'])[0][:20]
    return n


# ------------------------------------------------------------------ running one case

class Lab(object):

    def __init__(self, case, R):
        self.case, self.R = case, R
        self.fam, self.mode = case['fam'], case['mode']
        self.ref = RefStore()
        self.tick_n = 0
        self.inflight = {}
        self.msg = dict((k, {'id': None, 'raw_id': None, 'w': None, 'ts': [], 'rm': None, 'tainted': False,
                             'failed_write': False})
                        for k in range(len(case['msgs'])))
        self.loads = []
        self.ids_seen = {}
        self.notif_maybe = 0
        self.order = []
        self.viol_in_case = 0

    # --- bookkeeping
    def tick(self):
        self.tick_n += 1
        return self.tick_n

    def call(self, ti, name, fn, *a):
        """one backend call = one evaluation; logical start/end ticks; overlap bookkeeping"""
        rec = {'overl': bool(self.inflight), 'name': name}
        for o in self.inflight.values():
            o['overl'] = True
        self.inflight[id(rec)] = rec
        self.order.append(ti)
        s = self.tick()
        try:
            r, exc = fn(*a), None
        except Exception as e:          # the watchdog's gevent.Timeout is a BaseException: passes through
            r, exc = None, e
        finally:
            self.inflight.pop(id(rec), None)
        e_ = self.tick()
        self.R.eval()
        self.R.count('ops/%s' % self.fam)
        self.R.count('op/%s/%s' % (self.fam, name))
        if rec['overl']:
            self.R.hit('overlapped-ops/%s' % self.fam)
        return r, exc, s, e_, rec

    def violation(self, op, clause, what, detail, k=None, overlap_tag=False):
        mech = '%s/%s/%s' % (self.fam, op, clause)
        if overlap_tag and self.mode == 'overlap':
            mech += '/overlapping'
        self.viol_in_case += 1
        d = {'backend': self.fam, 'cfg': self.case['cfg'], 'mode': self.mode, 'op': op}
        d.update(detail)
        self.R.violation(mech, what, d)
        if k is not None:
            self.msg[k]['tainted'] = True

    def usable(self, k):
        m = self.msg[k]
        return m['id'] is not None and not m['tainted']

    # --- operations
    def do_write(self, ti, k, ts):
        spec = self.case['msgs'][k]
        env = make_envelope(k, spec)
        content = b''.join(env.flatten())
        sender, rcpts = env.sender, list(env.recipients)
        self.notif_maybe += 1
        raw, exc, s, e, _ = self.call(ti, 'write', self.st.write, env, ts)
        m = self.msg[k]
        if exc is not None:
            m['failed_write'] = True
            self.violation('write', 'raises-' + exc_name(exc), 'write raised %r' % exc, {'exc': repr(exc)[:300]})
            return
        i = norm(raw)
        self.R.observe('id-type', (self.fam, 'write', type(raw).__name__))
        self.R.hit('distinct-id-judged/%s' % self.fam)
        if i in self.ids_seen:
            self.violation('write', 'id-not-distinct', 'write returned an id handed out before: %r' % (raw,),
                           {'id': i, 'earlier_message': self.ids_seen[i], 'this_message': k})
            m['tainted'] = True
            self.msg[self.ids_seen[i]]['tainted'] = True
        self.ids_seen.setdefault(i, k)
        m.update(id=i, raw_id=raw, w=(s, e))
        m['ts'].append((ts, s, e))
        self.ref.write(i, sender, content, rcpts, ts)

    def do_get(self, ti, k, final=False):
        if not self.usable(k):
            self.R.count('skipped-ops/%s' % self.fam)
            return
        m = self.msg[k]
        exp = self.ref.get(m['id'])
        res, exc, _, _, _ = self.call(ti, 'get', self.st.get, m['raw_id'])
        if exc is not None:
            self.violation('get', 'raises-' + exc_name(exc), 'get of a live id raised %r' % exc,
                           {'exc': repr(exc)[:300], 'expected': exp[2:]}, k)
            return
        self.R.hit('get-compared/%s' % self.fam)
        if final or len([x for x in self.msg.values() if x['id']]) > 1:
            self.R.hit('other-ids-undisturbed/%s' % self.fam)
        try:
            env, att = res
            got = (env.sender, b''.join(env.flatten()), list(env.recipients), att)
        except Exception as e2:
            self.violation('get', 'malformed-answer', 'get answered %r' % (res,), {'exc': repr(e2)}, k)
            return
        for idx, clause in ((0, 'sender-differs'), (1, 'content-differs'), (2, 'recipients-differ'),
                            (3, 'attempts-differ')):
            if got[idx] != exp[idx] or (idx == 3 and type(got[3]) is not int):
                st = ''
                if idx == 2:
                    st = '/after-delivered-marking' if self.ref.m[m['id']]['deliv'] else '/nothing-marked'
                if idx == 3:
                    st = '/after-increment' if exp[3] else '/never-incremented'
                self.violation('get', clause + st,
                               'get: %s: got %s, reference %s' % (clause, core.short(got[idx], 120),
                                                                  core.short(exp[idx], 120)),
                               {'got': got[idx] if idx != 1 else got[idx][:200],
                                'expected': exp[idx] if idx != 1 else exp[idx][:200], 'message': k}, k, True)
                break

    def do_gone(self, ti, k):
        m = self.msg[k]
        if not self.usable(k):
            self.R.count('skipped-ops/%s' % self.fam)
            return
        res, exc, _, _, _ = self.call(ti, 'get-after-remove', self.st.get, m['raw_id'])
        self.R.hit('gone-judged/%s' % self.fam)
        if exc is None:
            self.violation('get-after-remove', 'returns', 'get of a removed id returned %r' % (res,),
                           {'answer': repr(res)[:200]}, k)
        else:
            self.R.observe('get-after-remove-exception', (self.fam, type(exc).__name__))

    def do_simple(self, ti, name, k, *args):
        """set_timestamp / increment_attempts / set_recipients_delivered / remove"""
        if not self.usable(k):
            self.R.count('skipped-ops/%s' % self.fam)
            return
        m = self.msg[k]
        i = m['id']
        qual = ''
        if name == 'increment_attempts':
            qual = '/first-increment' if self.ref.m[i]['attempts'] == 0 else '/later-increment'
        if name == 'remove':
            m['rm'] = (self.tick_n + 1, None)
        res, exc, s, e, _ = self.call(ti, name, getattr(self.st, name), m['raw_id'], *args)
        if name == 'increment_attempts':
            self.R.hit('increment-judged/%s' % self.fam)
        if exc is not None:
            self.violation(name, 'raises-' + exc_name(exc) + qual, '%s on a live id raised %r' % (name, exc),
                           {'exc': repr(exc)[:300], 'args': args, 'message': k}, k)
            return
        if name == 'set_timestamp':
            m['ts'].append((args[0], s, e))
            self.ref.set_timestamp(i, args[0])
        elif name == 'increment_attempts':
            exp = self.ref.increment_attempts(i)
            if res != exp or type(res) is not int:
                self.violation(name, 'returns-other-count' + qual,
                               'increment_attempts returned %r, reference %r' % (res, exp),
                               {'got': res, 'expected': exp, 'message': k}, k, True)
        elif name == 'set_recipients_delivered':
            self.ref.set_recipients_delivered(i, args[0])
        elif name == 'remove':
            m['rm'] = (s, e)
            self.ref.remove(i)

    def do_load(self, ti, final=''):
        pend0 = self.notif_maybe
        res, exc, s, e, rec = self.call(ti, 'load', lambda: list(self.st.load()))
        self.R.hit('load-judged/%s' % self.fam)
        pending = pend0 > 0 or self.notif_maybe > 0
        if self.fam == 'redis':
            self.R.hit('load-with-notifications-pending/redis' if pending else 'load-after-drain/redis')
        if exc is not None:
            qual = ''
            if self.fam == 'redis':
                qual = '/notifications-pending' if pending else '/no-notifications'
            self.violation('load', 'raises-' + exc_name(exc) + qual, 'load raised %r' % exc,
                           {'exc': repr(exc)[:300], 'live_ids': len(self.ref.m)})
            return
        self.loads.append({'s': s, 'e': e, 'res': res, 'overl': rec['overl'], 'final': final})

    def do_drain(self, ti):
        st = self.st
        n, exc, _, _, _ = self.call(ti, 'llen(harness)', st.redis.llen, st.queue_key)
        if exc is not None:
            raise exc
        got = []
        for _ in range(n):
            res, exc, _, _, _ = self.call(ti, 'wait', st.wait)
            if exc is not None:
                self.violation('wait', 'raises-' + exc_name(exc), 'wait raised %r' % exc, {'exc': repr(exc)[:300]})
                return
            for ts, i in res:
                got.append(i)
                self.R.observe('id-type', (self.fam, 'wait', type(i).__name__))
        self.notif_maybe -= n
        self.R.count('notifications-drained/redis', n)

    # --- tracks
    def run_track(self, ti, ops):
        for op in ops:
            name = op[0]
            if name == 'write':
                self.do_write(ti, op[1], op[2])
            elif name == 'get':
                self.do_get(ti, op[1])
            elif name == 'gone':
                self.do_gone(ti, op[1])
            elif name == 'load':
                self.do_load(ti)
            elif name == 'ts':
                self.do_simple(ti, 'set_timestamp', op[1], op[2])
            elif name == 'inc':
                self.do_simple(ti, 'increment_attempts', op[1])
            elif name == 'deliv':
                n = self.case['msgs'][op[1]]['nrcpt']
                cnt = int(op[2] * (n + 1))
                prnd = random.Random(op[3])
                idx = sorted(prnd.sample(range(n), min(cnt, n)))
                if prnd.random() < 0.3:
                    idx.reverse()
                self.do_simple(ti, 'set_recipients_delivered', op[1], idx)
            elif name == 'remove':
                self.do_simple(ti, 'remove', op[1])
            elif name == 'drain':
                self.do_drain(ti)
            else:
                raise ValueError(name)

    def final_sweep(self):
        for k in sorted(self.msg):
            m = self.msg[k]
            if not self.usable(k):
                continue
            if m['id'] in self.ref.m:
                self.do_get(-1, k, final=True)
            else:
                self.do_gone(-1, k)
        self.do_load(-1, 'final')
        if self.fam == 'redis':
            self.do_drain(-1)
            self.do_load(-1, 'final-after-drain')

    # --- the interval rule for load()
    def judge_loads(self):
        by_id = dict((m['id'], (k, m)) for k, m in self.msg.items() if m['id'] is not None)
        any_failed_write = any(m['failed_write'] for m in self.msg.values())
        for L in self.loads:
            ls, le = L['s'], L['e']
            listed = {}
            dup = None
            for item in L['res']:
                try:
                    ts, raw = item
                    ts = float(ts)
                except Exception:
                    self.violation('load', 'malformed-item', 'load yielded %r' % (item,), {'item': repr(item)})
                    continue
                i = norm(raw)
                self.R.observe('id-type', (self.fam, 'load', type(raw).__name__))
                if i in by_id and type(raw) is not type(by_id[i][1]['raw_id']):
                    self.R.count('id-type-mismatch-write-vs-load/%s' % self.fam)
                if i in listed:
                    dup = i
                listed[i] = ts
            if L['overl']:
                self.R.hit('overlap-load-judged/%s' % self.fam)
            self.R.count('load-items-judged/%s' % self.fam, len(listed))
            if dup is not None:
                self.violation('load', 'lists-id-twice', 'load listed %r twice' % dup, {'id': dup}, None, True)
            for i, ts in listed.items():
                if i not in by_id:
                    if not any_failed_write:
                        self.violation('load', 'lists-unknown-id', 'load listed %r which no write returned' % i,
                                       {'id': i}, None, True)
                    continue
                k, m = by_id[i]
                if m['tainted']:
                    continue
                rm = m['rm']
                may = m['w'][0] < le and (rm is None or rm[1] is None or rm[1] > ls)
                if not may:
                    self.violation('load', 'lists-removed-id',
                                   'load listed message %d (%s) after its removal had completed' % (k, i),
                                   {'message': k, 'remove_ticks': rm, 'load_ticks': (ls, le)}, None, True)
                    continue
                hist = m['ts']
                ok = False
                for j, (v, vs, ve) in enumerate(hist):
                    nxt = hist[j + 1] if j + 1 < len(hist) else None
                    if v == ts and vs < le and (nxt is None or nxt[2] > ls):
                        ok = True
                        break
                if not ok:
                    ever = any(v == ts for v, _, _ in hist)
                    clause = 'timestamp-stale' if ever else 'timestamp-never-written'
                    if rm is not None and (rm[1] is None or rm[1] > ls) and rm[0] < le:
                        clause += '/while-being-removed'
                    elif m['w'][1] > ls:
                        clause += '/while-being-written'
                    self.violation('load', clause,
                                   'load listed message %d with timestamp %r; history %r'
                                   % (k, ts, [v for v, _, _ in hist]),
                                   {'message': k, 'got': ts, 'history': hist, 'load_ticks': (ls, le)}, None, True)
            for i, (k, m) in by_id.items():
                if m['tainted'] or i in listed:
                    continue
                rm = m['rm']
                must = m['w'][1] < ls and (rm is None or rm[0] > le)
                if must:
                    self.violation('load', 'misses-live-id',
                                   'load did not list live message %d (%s)' % (k, i),
                                   {'message': k, 'listed': sorted(listed), 'load_ticks': (ls, le),
                                    'write_ticks': m['w'], 'remove_ticks': rm}, None, True)

    def run(self):
        self.st, cleanup, self.extra = make_backend(self.case)
        try:
            tracks = self.case['tracks']
            glets = [gevent.spawn(self.run_track, ti, ops) for ti, ops in enumerate(tracks)]
            how, _ = core.watchdog_call(lambda: gevent.joinall(glets), 60)
            if how != 'ok' or not all(g.ready() for g in glets):
                gevent.killall(glets)
                self.R.inconclusive('watchdog/%s/%s' % (self.fam, self.mode))
                return
            for g in glets:
                if not g.successful():
                    raise g.exception
            how, _ = core.watchdog_call(self.final_sweep, 60)
            if how != 'ok':
                self.R.inconclusive('watchdog-final/%s/%s' % (self.fam, self.mode))
                return
            self.judge_loads()
        finally:
            cleanup()


def is_nontrivial(case):
    written = set()
    deliv, removed = set(), False
    nt = False
    for ops in case['tracks']:
        removed = False
        for op in ops:
            if op[0] == 'write':
                written.add(op[1])
            elif op[0] == 'deliv':
                deliv.add(op[1])
            elif op[0] == 'get' and op[1] in deliv:
                nt = True
            elif op[0] == 'remove':
                removed = True
            elif op[0] in ('load', 'gone') and removed:
                nt = True
    return nt and len(written) >= 2


def run_case(case, R):
    fam, mode = case['fam'], case['mode']
    R.count('cases/%s/%s' % (fam, mode))
    shape = (fam, mode, tuple(tuple((op[0],) + tuple(op[1:2]) if op[0] != 'load' else ('load',)
                                    for op in ops) for ops in case['tracks']))
    R.observe('history-shape/%s' % fam, shape)
    if is_nontrivial(case):
        R.nontrivial(shape)
    lab = Lab(case, R)
    lab.run()
    if mode == 'overlap':
        R.observe('interleaving/%s' % fam, (shape, tuple(lab.order)))
        R.observe('interleaving-order/%s' % fam, tuple(lab.order))
    if not lab.viol_in_case and mode == 'overlap' and fam != 'dict' and len(case['tracks']) > 2:
        R.sample({'backend': fam, 'cfg': case['cfg'], 'mode': mode,
                  'tracks': [[op[:2] for op in ops] for ops in case['tracks']],
                  'op_start_order_by_track': lab.order[:60],
                  'loads': [{'ticks': (L['s'], L['e']), 'listed': len(L['res'])} for L in lab.loads][:6]})
