"""C15 -- every queue storage backend behaves like the same simple store.

The real backends (DictStorage on its own dicts, on caller-supplied dicts and on two ``shelve``
files; DiskStorage on real pyaio; RedisStorage through the real redis-py client against
vf.miniredis.MiniRedis; CloudStorage over vf.memstore.MemObjectStore +- a message queue) execute
generated operation histories; every answer is compared with ``RefStore`` below.

A case is a list of *tracks*; every message belongs to exactly one track, so the sub-history of
each id is sequential and its answers (get / increment_attempts / get-after-remove) are judged
exactly.  mode 'seq' = one track over 1..4 messages; mode 'overlap' = one greenlet per message,
all running concurrently.  ``load()`` answers are judged with an interval rule over logical ticks
(exact when nothing overlaps): an id that was live during the whole call must be listed, an id may
be listed only if it was possibly live at some moment of the call, and the timestamp listed must be
one the id possibly had at some moment of the call.

Strata added by the coverage audit (each has its own counter / REQUIRED_HITS entry):
  * several delivered-marking rounds per message, indexes relative to what get() currently returns
    (the documented meaning), passed as a list or as a set (what Queue passes);
  * restart ('reopen': a fresh storage object over the same substrate takes over) and two live
    storage objects over one substrate used alternately;
  * operations on removed ids and on an id no write returned: they may raise or return, but the id
    must stay gone (get raises, load does not list it) and nothing else may change;
  * stepped load(): the harness pulls load() item by item and runs other operations of the history
    between two items (deterministic, replayable form of "load while other calls are in flight");
  * wait(): backends without a notification channel must raise NotImplementedError (what
    Queue._wait_store relies on); redis / cloud+mq must announce every write exactly once, with the
    id write() returned and the timestamp it was given;
  * the id-collision branch of write(): the id source of dict / disk / redis (uuid.uuid4,
    secrets.token_hex / token_bytes, os.urandom -- whichever the module uses) is made to offer the id of
    a live message first; a backend drawing from a source the harness cannot stand in for is found out
    by a probe at import, its id-collision-offered monitor is then not required
    (id-collision-not-offerable/<backend> counts the skipped offers);
  * odd envelopes (no / 40 / 300 recipients, duplicate and non-ASCII addresses, null and non-ASCII
    sender, no message at all, 300 kB bodies, custom attributes, client dict with odd values) and
    odd timestamps (int, 0, negative, far future, equal for several messages, 17 significant digits);
  * disk configurations: env_dir == meta_dir, env_dir == meta_dir == tmp_dir, tmp_dir left to the system,
    directories that already hold unrelated entries (README, a sub-directory, a *.tmp leftover), relative
    paths;
  * DictStorage.get_info() (bytes ids for redis are recorded, not judged); cloud+mq whose queue_message() always fails
    (write() must still store the message and return its id).

Events that refute: a write returning an id seen before; get() answering another sender / content /
undelivered-recipient list / attempt count / client / receiver / timestamp attribute than the
reference; increment_attempts() returning another number; load() listing a removed or unknown id,
missing a live one, listing one twice or with a timestamp it did not have; get() after remove() (or
of an unknown id) returning; any operation of the interface raising on a live id; wait() announcing
something no write returned, announcing twice, never announcing, or not raising NotImplementedError
on a backend without notifications.
"""
import os
import uuid
import random
import shelve
import shutil
import tempfile
import itertools

import gevent

from vf import core
from vf.miniredis import MiniRedis
from vf.memstore import MemObjectStore, MemMsgQueue
from slimta.envelope import Envelope
from slimta.queue.dict import DictStorage
from slimta.diskstorage import DiskStorage
from slimta.redisstorage import RedisStorage
from slimta.cloudstorage import CloudStorage
import slimta.queue.dict as _mod_dict
import slimta.diskstorage as _mod_disk
import slimta.redisstorage as _mod_redis

PROPERTY = 'C15'
LEVEL = 'exploration'
LEVEL_TEXT = ('Real DictStorage (own dicts, supplied dicts, shelve files with and without writeback), '
              'DiskStorage(pyaio), RedisStorage(redis-py -> in-process MiniRedis) and CloudStorage(in-memory '
              'object store, strict aws-like and lenient, with/without message queue) run seeded histories of '
              '5..40 operations over 1..4 messages, sequentially and (disk, redis, cloud) with one concurrent '
              'greenlet per message; restarts and two storage objects over one substrate, several '
              'delivered-marking rounds, operations on removed / unknown ids, stepped load(), wait(), forced id '
              'collisions, odd envelopes and timestamps are part of the histories; every answer is compared '
              'with a 30-line reference store, load() with an interval rule. Held = held on the histories '
              'reported; real redis / S3 servers are outside.')
LEVEL_NOTE = ('Trusted: RefStore, the interval rule for load(), MiniRedis (RESP3, Redis typing rules), '
              'MemObjectStore (mirrors slimta.cloudstorage.aws.SimpleStorageService conventions; the real '
              'adapter cannot be imported: boto does not import on this interpreter), the pass-through '
              'shims bound to the names `uuid` / `secrets` (else `os`) of the dict / disk / redis backend '
              'modules (identical to the real modules except that uuid4 / token_hex / token_bytes / urandom '
              'answer a queued id while a collision is being offered, and draw from a per-case PRNG).')
TECHNIQUE = ('runtime monitoring: differential comparison of every backend answer with a reference store over '
             'seeded operation histories; per-id sequential sub-histories under overlapping greenlets')
RULE = ('case = (backend configuration, mode, one or two storage objects, 1..4 message specs, tracks of '
        'operations drawn from write, get, load, stepped load with nested operations, set_timestamp, '
        'increment_attempts, set_recipients_delivered (up to 3 rounds per message, list or set of indexes '
        'relative to the current get()), remove, get-after-remove, one kind of operation on removed ids per '
        'message and one kind on an unknown id per case, reopen (restart), wait (drain of the notification '
        'channel for redis / cloud+mq, NotImplementedError probe elsewhere), get_info); each backend call = '
        'one evaluation. After the tracks a final sweep gets every id and loads (redis, cloud+mq: load, drain, '
        'load). non-trivial & distinct = distinct (backend, mode, operation sequence) with >= 2 messages '
        'written and either a delivered-marking followed by a get of that message or a remove followed by a '
        'load / get-after-remove')
ASSUMPTIONS = ['set_recipients_delivered indexes refer to the recipients get() currently returns (QueueStorage '
               'docstring); the property text promises one round per message, rounds 2..3 are judged by the '
               'docstring meaning',
               'ids are compared after bytes->str normalisation; a type difference between write() and load() '
               'ids is recorded (counters id-type-mismatch-write-vs-load/*), not judged',
               'MiniRedis and MemObjectStore are faithful to Redis / the aws adapter for the commands used',
               'in overlap mode the interleaving of disk and redis operations depends on OS timing; the oracle '
               'is exact for every interleaving, but a replay may schedule differently',
               'any exception type is accepted for get() after remove() / of an unknown id, and any outcome '
               '(raise or return) for the other operations on such an id -- only the later answers are judged',
               'DictStorage operations do not yield: a stepped load() of the dict backends is interleaved only '
               'with operations that do not add or remove messages (a dict changing size under its own '
               'iterator raises RuntimeError; Queue never interleaves there)',
               'an operation on a removed / unknown id may make that id visible to a load() that overlaps this '
               'very operation (counter transient-listing-during-op-on-gone-id/*); once the operation has '
               'returned the id must be gone',
               'custom (undocumented) envelope attributes are counted (custom-attr-kept / -lost), not judged',
               'cloud+mq: one wait() consumer at a time (at-least-once redelivery to competing consumers is '
               'outside)']
FAMS = ['dict', 'dict-shelve', 'disk', 'redis', 'cloud-strict', 'cloud-lenient']
OVERLAP_FAMS = ['disk', 'redis', 'cloud-strict', 'cloud-lenient']
TWO_FAMS = ['dict', 'disk', 'redis', 'cloud-strict', 'cloud-lenient']
COLLIDE_FAMS = ['dict', 'dict-shelve', 'disk', 'redis']
DICT_FAMS = ['dict', 'dict-shelve']
REQUIRED_HITS = (['%s/%s' % (h, f) for f in FAMS
                  for h in ('get-compared', 'load-judged', 'increment-judged', 'gone-judged',
                            'distinct-id-judged', 'other-ids-undisturbed', 'multi-round-get-compared',
                            'set-arg-marking', 'restart-get-compared', 'stepped-load-judged',
                            'op-on-removed-id', 'op-on-unknown-id', 'wait-judged', 'odd-envelope-compared',
                            'odd-timestamp-load-judged')] +
                 ['overlap-load-judged/%s' % f for f in OVERLAP_FAMS] +
                 ['overlapped-ops/%s' % f for f in OVERLAP_FAMS] +
                 ['two-objects-get-compared/%s' % f for f in TWO_FAMS] +
                 ['get-info-judged/%s' % f for f in DICT_FAMS] +
                 ['shared-directory-load-judged/disk'] +
                 ['load-with-notifications-pending/redis', 'load-after-drain/redis',
                  'announcements-judged/redis', 'announcements-judged/cloud-strict',
                  'announcements-judged/cloud-lenient', 'write-with-failing-message-queue/cloud-strict',
                  'write-with-failing-message-queue/cloud-lenient'])
SHARDS = {'quick': 8, 'thorough': 16}
BUDGET = {'quick': 50, 'thorough': 800}

# (family, cfg, mode, cases at quick, cases at thorough)
PLAN = [
    ('dict', {}, 'seq', 1600, 20000),
    ('dict-shelve', {'writeback': False}, 'seq', 320, 6000),
    ('dict-shelve', {'writeback': True}, 'seq', 240, 4000),
    ('disk', {}, 'seq', 320, 12000),
    ('disk', {}, 'overlap', 240, 8000),
    ('redis', {'delay': False}, 'seq', 200, 8000),
    ('redis', {'delay': True}, 'seq', 80, 4000),
    ('redis', {'delay': False}, 'overlap', 100, 4000),
    ('redis', {'delay': True}, 'overlap', 140, 6000),
    ('cloud-strict', {'mq': False}, 'seq', 300, 8000),
    ('cloud-strict', {'mq': True}, 'seq', 300, 8000),
    ('cloud-strict', {'mq': False}, 'overlap', 200, 6000),
    ('cloud-strict', {'mq': True}, 'overlap', 200, 6000),
    ('cloud-lenient', {'mq': False}, 'seq', 400, 10000),
    ('cloud-lenient', {'mq': True}, 'seq', 400, 10000),
    ('cloud-lenient', {'mq': False}, 'overlap', 300, 10000),
    ('cloud-lenient', {'mq': True}, 'overlap', 300, 10000),
]

DISK_LAYOUTS = ['separate', 'separate', 'shared', 'shared', 'shared-all', 'tmp-none']
XOPS = ['set_timestamp', 'increment_attempts', 'set_recipients_delivered', 'remove']
SHARED_TS = 1500000000.0
UNKNOWN_ID = 'feedfacefeedfacefeedfacefeedface'


# ------------------------------------------------------------------ the reference (trusted)

class RefStore(object):
    def __init__(self):
        self.m = {}

    def write(self, id, sender, content, rcpts, ts):
        self.m[id] = {'sender': sender, 'content': content, 'rcpts': list(rcpts), 'deliv': set(),
                      'attempts': 0, 'ts': ts, 'rounds': 0}

    def left(self, id):
        m = self.m[id]
        return [i for i in range(len(m['rcpts'])) if i not in m['deliv']]

    def get(self, id):
        m = self.m[id]                      # KeyError = gone
        return m['sender'], m['content'], [m['rcpts'][i] for i in self.left(id)], m['attempts']

    def set_timestamp(self, id, ts):
        self.m[id]['ts'] = ts

    def increment_attempts(self, id):
        self.m[id]['attempts'] += 1
        return self.m[id]['attempts']

    def set_recipients_delivered(self, id, idx):
        left = self.left(id)                # indexes refer to what get() returns now
        self.m[id]['deliv'].update(left[j] for j in idx)
        self.m[id]['rounds'] += 1

    def remove(self, id):
        del self.m[id]

    def load(self):
        return dict((i, m['ts']) for i, m in self.m.items())


# ------------------------------------------------------------------ generation

def ts_value(rnd):
    c = rnd.randrange(12)
    if c < 4:
        return rnd.random() * 2e9
    if c < 6:
        return float(rnd.randrange(10 ** 9))
    if c == 6:
        return rnd.randrange(10 ** 9)                 # int
    if c == 7:
        return rnd.choice([0, 0.0, -5.5, -1])         # falsy / before the epoch
    if c == 8:
        return SHARED_TS                              # equal for several messages
    if c == 9:
        return rnd.choice([4102444800.125, 1e12, 32503680000])   # far future
    if c == 10:
        return rnd.choice([0.1 + 0.2, 1e-7, 1234567890.1234567, 2.0 ** 52 + 0.5])
    return 1234567890.0 + rnd.randrange(3)            # near-equal / equal small set


def ts_class(v):
    if isinstance(v, int) and not isinstance(v, bool):
        return 'int' if v > 0 else 'int-nonpositive'
    if v <= 0:
        return 'nonpositive'
    if v == SHARED_TS:
        return 'shared'
    if v >= 4e9:
        return 'far-future'
    if v < 1:
        return 'tiny'
    return 'plain'


def gen_track(rnd, ks, nops, fam, drain, mode, msgs, unknown_xop):
    """ops for one track owning messages ks; valid w.r.t. liveness by construction."""
    state = dict((k, 'new') for k in ks)
    rounds = dict((k, 0) for k in ks)
    base = ['write', 'write', 'get', 'get', 'get', 'load', 'load', 'ts', 'ts', 'inc', 'inc',
            'deliv', 'deliv', 'deliv', 'remove', 'gone', 'drain', 'xop', 'xop', 'xunk', 'sload', 'wait',
            'info', 'reopen']

    # inside a stepped load: mostly operations that change what a listing in progress would find
    nest_base = ['remove', 'remove', 'remove', 'write', 'write', 'ts', 'ts', 'inc', 'get', 'deliv', 'xop', 'gone']

    def one(nested):
        live = [k for k in ks if state[k] == 'live']
        gone = [k for k in ks if state[k] == 'gone']
        new = [k for k in ks if state[k] == 'new']
        if not live and not gone and new and not nested:
            op = 'write'
        else:
            op = rnd.choice(nest_base if nested else base)
        if nested and (op in ('load', 'sload', 'reopen', 'drain', 'wait', 'info') or
                       (fam in DICT_FAMS and op in ('write', 'remove'))):
            return None
        if op == 'write' and new:
            k = new[0]
            state[k] = 'live'
            return ['write', k, ts_value(rnd)]
        if op == 'get' and live:
            return ['get', rnd.choice(live)]
        if op == 'load':
            return ['load']
        if op == 'ts' and live:
            return ['ts', rnd.choice(live), ts_value(rnd)]
        if op == 'inc' and live:
            return ['inc', rnd.choice(live)]
        if op == 'deliv' and [k for k in live if rounds[k] < 3]:
            k = rnd.choice([k for k in live if rounds[k] < 3])
            rounds[k] += 1
            # fractions resolved against the number of recipients left when the op runs
            return ['deliv', k, rnd.random(), rnd.random(), rnd.choice(['list', 'set', 'set'])]
        if op == 'remove' and live:
            k = rnd.choice(live)
            state[k] = 'gone'
            return ['remove', k]
        if op == 'gone' and gone:
            return ['gone', rnd.choice(gone)]
        if op == 'drain' and drain:
            return ['drain']
        if op == 'xop' and gone:
            k = rnd.choice(gone)
            return ['xop', msgs[k]['xop'], k]
        if op == 'xunk':
            return ['xop', rnd.choice([unknown_xop, unknown_xop, 'get']), 'unknown']
        if op == 'wait':
            if fam == 'redis' or (fam.startswith('cloud') and drain is not None):
                return ['drain'] if drain else None
            return ['wait-ni']
        if op == 'info':
            return ['info']
        if op == 'reopen' and mode == 'seq':
            return ['reopen']
        if op == 'sload' and (live or gone):
            nest = []
            for _ in range(rnd.randrange(1, 5)):
                o = one(True)
                if o is not None:
                    nest.append(o)
            return ['sload', nest]
        return None

    ops = []
    guard = 0
    while len(ops) < nops and guard < 5000:
        guard += 1
        o = one(False)
        if o is not None:
            ops.append(o)
    return ops


def gen_msg(rnd):
    size = rnd.choice([0, 10, 10, 200, 200, 3000, 20000 if rnd.random() < 0.3 else 500,
                       70000 if rnd.random() < 0.15 else 50, 300000 if rnd.random() < 0.04 else 100])
    nrcpt = rnd.choice([1, 1, 2, 3, 4, 5, 5, 0, 40 if rnd.random() < 0.3 else 2, 300 if rnd.random() < 0.1 else 3])
    return {'nrcpt': nrcpt, 'size': size, 'hdr8': rnd.random() < 0.2,
            'rk': rnd.choice(['plain', 'plain', 'plain', 'dup', 'utf8']),
            'sk': rnd.choice(['plain', 'plain', 'plain', 'null', 'utf8']),
            'extra': rnd.random() < 0.25, 'nomsg': rnd.random() < 0.06,
            'xop': rnd.choice(XOPS)}


def gen_case(fam, cfg, mode, rnd):
    nm = rnd.choice([1, 2, 2, 3, 3, 4, 4]) if mode == 'seq' else rnd.choice([2, 3, 4, 4])
    msgs = [gen_msg(rnd) for _ in range(nm)]
    unknown_xop = rnd.choice(XOPS)
    # drain: True = this track drains the notification channel, False = it has one but another track
    # drains it, None = the backend has none
    has_chan = fam == 'redis' or (fam.startswith('cloud') and cfg.get('mq'))
    if mode == 'seq':
        tracks = [gen_track(rnd, list(range(nm)), rnd.randrange(5, 41), fam, True if has_chan else None,
                            mode, msgs, unknown_xop)]
    else:
        per = max(3, rnd.randrange(5, 41) // nm)
        tracks = [gen_track(rnd, [k], rnd.randrange(3, per + 3), fam,
                            (k == 0) if has_chan else None, mode, msgs, unknown_xop)
                  for k in range(nm)]
    case = {'fam': fam, 'cfg': dict(cfg), 'mode': mode, 'msgs': msgs, 'tracks': tracks,
            'two': fam in TWO_FAMS and rnd.random() < 0.35, 'obj_seed': rnd.randrange(1 << 30),
            'given_dicts': fam == 'dict' and rnd.random() < 0.5,
            # the message queue refuses every announcement: write() must still store and return the id
            'disk_layout': rnd.choice(DISK_LAYOUTS) if fam == 'disk' else None,
            'disk_clutter': fam == 'disk' and rnd.random() < 0.3,
            'disk_relative': fam == 'disk' and rnd.random() < 0.3,
            'mq_fail': bool(fam.startswith('cloud') and cfg.get('mq') and rnd.random() < 0.12),
            'collide': ([k for k in range(1, nm) if rnd.random() < 0.5]
                        if mode == 'seq' and fam in COLLIDE_FAMS and rnd.random() < 0.4 else [])}
    if cfg.get('delay'):
        case['delay_seed'] = rnd.randrange(1 << 30)
    return case


def gen_cases(tier, seed, shard, nshards):
    col = 3 if tier == 'quick' else 4
    n = 0
    streams = []
    for pi, p in enumerate(PLAN):
        streams.append((p, random.Random('c15-%d-%d' % (seed, pi)), p[col]))
    # round-robin over the plan so that a budget cut thins every backend alike
    left = [s[2] for s in streams]
    while any(left):
        for si, (p, rnd, _) in enumerate(streams):
            if not left[si]:
                continue
            # several per turn for the cheap ones
            for _ in range(min(left[si], 8 if p[0] in ('dict',) or p[0].startswith('cloud') else 1)):
                left[si] -= 1
                case = gen_case(p[0], p[1], p[2], rnd)
                # every plan row deals its own cases round the shards (a common counter can fall in
                # step with the turn length and send all disk cases to one worker)
                if (left[si] + si) % nshards == shard:
                    yield case
                n += 1


# ------------------------------------------------------------------ backends

class IdSourceControl(object):
    """What the harness wants the backends' id source to say next.  forced = ids (as handed out by
    write()) to be offered first; rnd = per-case PRNG for all other draws (a replay then meets the
    same ids, hence the same directory / key order) or None for the real source."""

    def __init__(self):
        self.forced = []
        self.offered = 0
        self.rnd = None

    def take(self, fits):
        """-> the queued id if one is queued and the caller can express it, else None"""
        if self.forced and fits(self.forced[0]):
            self.offered += 1
            return self.forced.pop(0)
        return None


CTRL = IdSourceControl()


def _is_hex(h, nbytes):
    try:
        return isinstance(h, str) and len(h) == 2 * nbytes and len(bytes.fromhex(h)) == nbytes
    except ValueError:
        return False


class _SourceShim(object):
    """Stands where a backend module expects one of the modules it draws ids from; everything is
    passed through to the real module except the id-drawing call while the harness has an id queued
    (to reach write()'s collision branch) or a per-case PRNG installed."""

    def __init__(self, real):
        self._real = real

    def __getattr__(self, name):
        return getattr(self._real, name)


class UuidShim(_SourceShim):

    class _Forced(object):            # an id that is not a UUID in any notation
        def __init__(self, h):
            self.hex = h

        def __str__(self):
            return self.hex

    def uuid4(self):
        h = CTRL.take(lambda i: isinstance(i, str))
        if h is not None:
            try:
                return uuid.UUID(h)   # .hex and str() give back the notation the backend uses
            except ValueError:
                return self._Forced(h)
        if CTRL.rnd is not None:
            return uuid.UUID(int=CTRL.rnd.getrandbits(128), version=4)
        return self._real.uuid4()


class BytesSourceShim(_SourceShim):
    """secrets.token_hex / token_bytes and os.urandom"""

    def _bytes(self, n, real):
        h = CTRL.take(lambda i: _is_hex(i, n))
        if h is not None:
            return bytes.fromhex(h)
        if CTRL.rnd is not None and n:
            return CTRL.rnd.getrandbits(8 * n).to_bytes(n, 'big')
        return real(n)

    def token_hex(self, nbytes=None):
        n = 32 if nbytes is None else nbytes
        return self._bytes(n, self._real.token_bytes).hex()

    def token_bytes(self, nbytes=None):
        return self._bytes(32 if nbytes is None else nbytes, self._real.token_bytes)

    def urandom(self, n):
        return self._bytes(n, self._real.urandom)


def _bind_id_sources():
    import types
    import secrets as _secrets
    for mod in (_mod_dict, _mod_disk, _mod_redis):
        if isinstance(getattr(mod, 'uuid', None), types.ModuleType):
            mod.uuid = UuidShim(uuid)
        if isinstance(getattr(mod, 'secrets', None), types.ModuleType):
            mod.secrets = BytesSourceShim(_secrets)
        if getattr(mod, 'os', None) is os and hasattr(mod, 'uuid') is False and not hasattr(mod, 'secrets'):
            # only when no other known source is in sight: the module may draw from os.urandom
            mod.os = BytesSourceShim(os)


_bind_id_sources()


class MQ15(MemMsgQueue):
    """MemMsgQueue that tells when a consumer is parked in sleep()."""
    sleepers = 0

    def sleep(self):
        self.sleepers += 1
        try:
            MemMsgQueue.sleep(self)
        finally:
            self.sleepers -= 1


_MR = [None]
_SEQ = itertools.count()
_TMP = []


def _scratch():
    base = os.environ.get('VERIF_SCRATCH')
    if base and os.path.isdir(base):
        d = os.path.join(base, 'c15-%d' % os.getpid())
        os.makedirs(d, exist_ok=True)
        return d
    if not _TMP:
        _TMP.append(tempfile.mkdtemp(prefix='c15-'))
    return _TMP[0]


def shard_cleanup():
    for d in _TMP:
        shutil.rmtree(d, ignore_errors=True)
    del _TMP[:]


def make_backend(case):
    """-> (factory, cleanup, extra); factory() = a fresh storage object over the same substrate"""
    fam, cfg = case['fam'], case['cfg']
    if fam == 'dict':
        first = []
        dbs = ({}, {})

        def factory():
            if case.get('given_dicts') or case.get('two'):
                return DictStorage(dbs[0], dbs[1])
            # default-constructed: its dicts are its own, there is nothing to restart from
            if not first:
                first.append(DictStorage())
            return first[0]
        return factory, (lambda: None), {}
    if fam == 'dict-shelve':
        d = os.path.join(_scratch(), 's%d' % next(_SEQ))
        os.makedirs(d)
        opened = []

        def close():
            for s in opened:
                s.close()
            del opened[:]

        def factory():
            close()                       # a shelve file has one owner at a time: restart = close + open
            wb = bool(cfg.get('writeback'))
            opened.extend([shelve.open(os.path.join(d, 'env'), writeback=wb),
                           shelve.open(os.path.join(d, 'meta'), writeback=wb)])
            return DictStorage(opened[0], opened[1])

        def cleanup():
            try:
                close()
            finally:
                shutil.rmtree(d, ignore_errors=True)
        return factory, cleanup, {}
    if fam == 'disk':
        d = os.path.join(_scratch(), 'd%d' % next(_SEQ))
        layout = case.get('disk_layout') or 'separate'
        if layout == 'tmp-none' and os.stat(_scratch()).st_dev != os.stat(tempfile.gettempdir()).st_dev:
            layout = 'separate'      # rename() from the system temp directory cannot cross file systems
        # separate: three directories; shared: envelopes and metadata in one directory (files are
        # <id>.env / <id>.meta); shared-all: scratch files there too; tmp-none: tmp_dir left to the system
        names = {'separate': ('env', 'meta', 'tmp'), 'shared': ('q', 'q', 'tmp'), 'shared-all': ('q', 'q', 'q'),
                 'tmp-none': ('env', 'meta', None)}[layout]
        for x in set(names) - {None}:
            os.makedirs(os.path.join(d, x))
        if case.get('disk_clutter'):
            # things a queue directory may hold that are no messages
            for x in set(names[:2]):
                with open(os.path.join(d, x, 'README'), 'w') as f:
                    f.write('queue directory\n')
                os.makedirs(os.path.join(d, x, 'lost+found'))
                with open(os.path.join(d, x, 'tmpleftover.tmp'), 'wb') as f:
                    f.write(b'\x80\x04partial')
        paths = [None if x is None else os.path.join(d, x) for x in names]
        if case.get('disk_relative'):
            paths = [None if x is None else os.path.relpath(x) for x in paths]

        def factory():
            if paths[2] is None:
                return DiskStorage(paths[0], paths[1])
            return DiskStorage(paths[0], paths[1], paths[2])
        return factory, (lambda: shutil.rmtree(d, ignore_errors=True)), {}
    if fam == 'redis':
        if _MR[0] is None:
            _MR[0] = MiniRedis()
        mr = _MR[0]
        # the documented prefix is "any string": vary its shape (colon-terminated namespace, several
        # colons, no colon at all, non-alphanumeric end) -- the ids load() lists must not depend on it
        n = next(_SEQ)
        prefix = ('c15-%d-%d:', 'c15:%d:%d:', 'c15-%d-%d-', 'c15.%d.%d/')[n % 4] % (os.getpid(), n)
        made = []

        def factory():
            st = RedisStorage('127.0.0.1', mr.port, prefix=prefix)
            made.append(st)
            return st
        if 'delay_seed' in case:
            drnd = random.Random(case['delay_seed'])
            mr.delay = lambda c: drnd.choice((0, 0, 0, 0.0002, 0.0005, 0.001))
        else:
            mr.delay = None

        def cleanup():
            mr.delay = None
            for st in made:
                try:
                    st.redis.connection_pool.disconnect()
                except Exception:
                    pass
            pb = prefix.encode()
            for k in [k for k in mr.db if k.startswith(pb)]:
                del mr.db[k]
            del mr.log[:]
        return factory, cleanup, {'mr': mr, 'prefix': prefix}
    if fam in ('cloud-strict', 'cloud-lenient'):
        obj = MemObjectStore(lenient=(fam == 'cloud-lenient'))
        mq = MQ15(fail_queue=bool(case.get('mq_fail'))) if cfg.get('mq') else None
        return (lambda: CloudStorage(obj, mq)), (lambda: None), {'obj': obj, 'mq': mq}
    raise ValueError(fam)


def make_envelope(k, spec):
    sk, rk, n = spec.get('sk', 'plain'), spec.get('rk', 'plain'), spec['nrcpt']
    sender = {'plain': 's%d@sender.test' % k, 'null': '', 'utf8': u's\xe9nder%d@ex\xe4mple.test' % k}[sk]
    if rk == 'dup':
        rcpts = ['r%d.%d@d.test' % (k, (i * 7) % 2) for i in range(n)]       # two addresses, repeated
    elif rk == 'utf8':
        rcpts = [u'r\xe7pt%d.%d@b\xfccher%d.test' % (k, i, i) for i in range(n)]
    else:
        rcpts = ['r%d.%d@d%d.test' % (k, i, i) for i in range(n)]
    env = Envelope(sender, rcpts)
    if not spec.get('nomsg'):
        hdr = b'Subject: m%d\r\nFrom: s%d@sender.test\r\n' % (k, k)
        if spec['hdr8']:
            hdr += b'X-Eight: caf\xc3\xa9\r\n'
        body = (b'body %d \xff\x00\r\n' % k) + bytes(bytearray((i * 7 + k) % 256 for i in range(spec['size'])))
        env.parse(hdr + b'\r\n' + body)
    env.receiver = 'me.test'
    env.timestamp = 1234567890.0 + k
    env.client = {'ip': '192.0.2.%d' % k, 'name': 'c.test'}
    if spec.get('extra'):
        env.client.update({'auth': None, 'protocol': u'ESMTPS\xe9', 'x-tuple': ('t', 1), 'x-bytes': b'\xff\x00'})
        env.c15_custom = {'k': [1, 2, (3,)], 'b': b'\xff\x00', 'u': u' '}
    return env


def content_of(env):
    if env.message is None:
        return None if env.headers is None else 'headers-without-message'
    return b''.join(env.flatten())


def odd_classes(spec):
    out = []
    if spec['nrcpt'] == 0:
        out.append('no-recipients')
    if spec['nrcpt'] >= 40:
        out.append('many-recipients')
    if spec.get('rk') == 'dup' and spec['nrcpt'] >= 3:
        out.append('duplicate-recipients')
    if spec.get('rk') == 'utf8' and spec['nrcpt']:
        out.append('non-ascii-recipients')
    if spec.get('sk') in ('null', 'utf8'):
        out.append(spec['sk'] + '-sender')
    if spec.get('nomsg'):
        out.append('no-message')
    if spec.get('extra'):
        out.append('custom-attributes')
    if spec['size'] >= 300000 and not spec.get('nomsg'):
        out.append('300kB')
    return out


def norm(i):
    return i.decode('ascii', 'replace') if isinstance(i, (bytes, bytearray)) else i


def exc_name(e):
    n = type(e).__name__
    if n == 'ResponseError':
        n += '-' + (str(e).split() or ['?'])[0][:20]
    return n


def op_shape(op):
    if op[0] == 'sload':
        return ('sload', tuple(op_shape(o) for o in op[1]))
    if op[0] == 'xop':
        return ('xop', op[1], op[2])
    if op[0] == 'deliv':
        return ('deliv', op[1], op[4] if len(op) > 4 else 'list')
    return (op[0],) + tuple(op[1:2])


def flat_ops(ops):
    for op in ops:
        if op[0] == 'sload':
            yield ['load']
            for o in flat_ops(op[1]):
                yield o
        else:
            yield op


# ------------------------------------------------------------------ running one case

class Lab(object):

    def __init__(self, case, R):
        self.case, self.R = case, R
        self.fam, self.mode = case['fam'], case['mode']
        self.ref = RefStore()
        self.tick_n = 0
        self.inflight = {}
        self.msg = dict((k, {'id': None, 'raw_id': None, 'w': None, 'ts': [], 'rm': None, 'tainted': False,
                             'failed_write': False, 'xops': [], 'attrs': None, 'last_obj': None,
                             'reopened_since_write': False, 'odd': []})
                        for k in range(len(case['msgs'])))
        self.loads = []
        self.ids_seen = {}
        self.notif_maybe = 0
        self.order = []
        self.viol_in_case = 0
        self.objs = []
        self.picks = {}
        self.unknown_xops = []
        self.announced = []
        self.has_chan = self.fam == 'redis' or (self.fam.startswith('cloud') and case['cfg'].get('mq'))

    # --- bookkeeping
    def tick(self):
        self.tick_n += 1
        return self.tick_n

    def pick(self, ti):
        """-> (object index, storage object) for the next call of track ti"""
        if len(self.objs) == 1:
            return 0, self.objs[0]
        n = self.picks[ti] = self.picks.get(ti, 0) + 1
        oi = random.Random('%s/%s/%s' % (self.case.get('obj_seed'), ti, n)).randrange(len(self.objs))
        return oi, self.objs[oi]

    def idarg(self, raw):
        return raw                      # ids go back exactly as the backend handed them out

    def call(self, ti, name, fn, *a):
        """one backend call = one evaluation; logical start/end ticks; overlap bookkeeping"""
        rec = {'overl': bool(self.inflight), 'name': name}
        for o in self.inflight.values():
            o['overl'] = True
        self.inflight[id(rec)] = rec
        self.order.append(ti)
        s = self.tick()
        try:
            r, exc = fn(*a), None
        except Exception as e:          # the watchdog's gevent.Timeout is a BaseException: passes through
            r, exc = None, e
        finally:
            self.inflight.pop(id(rec), None)
        e_ = self.tick()
        self.R.eval()
        self.R.count('ops/%s' % self.fam)
        self.R.count('op/%s/%s' % (self.fam, name))
        if rec['overl']:
            self.R.hit('overlapped-ops/%s' % self.fam)
        return r, exc, s, e_, rec

    def violation(self, op, clause, what, detail, k=None, overlap_tag=False):
        mech = '%s/%s/%s' % (self.fam, op, clause)
        if overlap_tag and self.mode == 'overlap':
            mech += '/overlapping'
        self.viol_in_case += 1
        d = {'backend': self.fam, 'cfg': self.case['cfg'], 'mode': self.mode, 'op': op,
             'two_objects': len(self.objs) > 1}
        d.update(detail)
        self.R.violation(mech, what, d)
        if k is not None:
            self.msg[k]['tainted'] = True

    def usable(self, k):
        m = self.msg[k]
        return m['id'] is not None and not m['tainted']

    # --- operations
    def do_write(self, ti, k, ts):
        spec = self.case['msgs'][k]
        env = make_envelope(k, spec)
        content = content_of(env)
        sender, rcpts = env.sender, list(env.recipients)
        attrs = {'client': dict(env.client), 'receiver': env.receiver, 'timestamp': env.timestamp}
        self.notif_maybe += 1
        oi, st = self.pick(ti)
        offered0, victim, wanted = CTRL.offered, None, False
        if k in self.case.get('collide', ()) and self.mode == 'seq' and self.fam in COLLIDE_FAMS:
            victims = [j for j in sorted(self.msg) if self.usable(j) and self.msg[j]['id'] in self.ref.m]
            if victims:
                victim, wanted = victims[0], True
                CTRL.forced = [self.msg[victim]['id']]
        try:
            raw, exc, s, e, _ = self.call(ti, 'write', st.write, env, ts)
        finally:
            CTRL.forced = []
        collided = CTRL.offered > offered0
        if collided:
            self.R.hit('id-collision-offered/%s' % self.fam)
        elif wanted:
            # the backend draws its ids from a source the harness cannot stand in for
            self.R.count('id-collision-not-offerable/%s' % self.fam)
        m = self.msg[k]
        if exc is not None:
            m['failed_write'] = True
            self.violation('write', 'raises-' + exc_name(exc) + ('/collision-offered' if collided else ''),
                           'write raised %r' % exc, {'exc': repr(exc)[:300]})
            return
        i = norm(raw)
        self.R.observe('id-type', (self.fam, 'write', type(raw).__name__))
        self.R.hit('distinct-id-judged/%s' % self.fam)
        if self.case.get('mq_fail'):
            self.R.hit('write-with-failing-message-queue/%s' % self.fam)
        if i in self.ids_seen:
            self.violation('write', 'id-not-distinct' + ('/collision-offered' if collided else ''),
                           'write returned an id handed out before: %r' % (raw,),
                           {'id': i, 'earlier_message': self.ids_seen[i], 'this_message': k})
            m['tainted'] = True
            self.msg[self.ids_seen[i]]['tainted'] = True
        self.ids_seen.setdefault(i, k)
        m.update(id=i, raw_id=raw, w=(s, e), attrs=attrs, last_obj=oi, odd=odd_classes(spec))
        m['ts'].append((ts, s, e))
        self.R.count('timestamp-class/%s/%s' % (self.fam, ts_class(ts)))
        self.ref.write(i, sender, content, rcpts, ts)

    def do_get(self, ti, k, final=False):
        if not self.usable(k):
            self.R.count('skipped-ops/%s' % self.fam)
            return
        m = self.msg[k]
        exp = self.ref.get(m['id'])
        rounds = self.ref.m[m['id']]['rounds']
        oi, st = self.pick(ti)
        res, exc, _, _, _ = self.call(ti, 'get', st.get, self.idarg(m['raw_id']))
        if exc is not None:
            self.violation('get', 'raises-' + exc_name(exc), 'get of a live id raised %r' % exc,
                           {'exc': repr(exc)[:300], 'expected': exp[2:]}, k)
            return
        self.R.hit('get-compared/%s' % self.fam)
        if final or len([x for x in self.msg.values() if x['id']]) > 1:
            self.R.hit('other-ids-undisturbed/%s' % self.fam)
        if rounds >= 2:
            self.R.hit('multi-round-get-compared/%s' % self.fam)
        if m['reopened_since_write']:
            self.R.hit('restart-get-compared/%s' % self.fam)
        if m['last_obj'] != oi:
            self.R.hit('two-objects-get-compared/%s' % self.fam)
        for c in m['odd']:
            self.R.hit('odd-envelope-compared/%s' % self.fam)
            self.R.count('odd-envelope/%s/%s' % (self.fam, c))
        try:
            env, att = res
            got = (env.sender, content_of(env), list(env.recipients), att)
        except Exception as e2:
            self.violation('get', 'malformed-answer', 'get answered %r' % (res,), {'exc': repr(e2)}, k)
            return
        for idx, clause in ((0, 'sender-differs'), (1, 'content-differs'), (2, 'recipients-differ'),
                            (3, 'attempts-differ')):
            if got[idx] != exp[idx] or (idx == 3 and type(got[3]) is not int):
                st_ = ''
                if idx == 2:
                    st_ = ('/nothing-marked', '/after-delivered-marking',
                           '/after-several-marking-rounds')[min(rounds, 2)]
                if idx == 3:
                    st_ = '/after-increment' if exp[3] else '/never-incremented'
                self.violation('get', clause + st_,
                               'get: %s: got %s, reference %s' % (clause, core.short(got[idx], 120),
                                                                  core.short(exp[idx], 120)),
                               {'got': got[idx] if idx != 1 else (got[idx] or b'')[:200],
                                'expected': exp[idx] if idx != 1 else (exp[idx] or b'')[:200], 'message': k,
                                'envelope_classes': m['odd'], 'marking_rounds': rounds}, k, True)
                return
        for a, want in sorted(m['attrs'].items()):
            have = getattr(env, a, '<absent>')
            if have != want:
                self.violation('get', 'attribute-differs/' + a,
                               'get: envelope.%s is %s, written %s' % (a, core.short(have, 120),
                                                                       core.short(want, 120)),
                               {'got': repr(have)[:300], 'expected': repr(want)[:300], 'message': k}, k, True)
                return
        if self.case['msgs'][k].get('extra'):
            kept = getattr(env, 'c15_custom', None) == {'k': [1, 2, (3,)], 'b': b'\xff\x00', 'u': u' '}
            self.R.count('custom-attr-%s/%s' % ('kept' if kept else 'lost', self.fam))

    def do_gone(self, ti, k):
        m = self.msg[k]
        if not self.usable(k):
            self.R.count('skipped-ops/%s' % self.fam)
            return
        oi, st = self.pick(ti)
        res, exc, _, _, _ = self.call(ti, 'get-after-remove', st.get, self.idarg(m['raw_id']))
        self.R.hit('gone-judged/%s' % self.fam)
        if exc is None:
            q = ''
            if m['xops']:
                q = '/after-%s-on-removed-id' % m['xops'][0][0]
            self.violation('get-after-remove', 'returns' + q, 'get of a removed id returned %r' % (res,),
                           {'answer': repr(res)[:200], 'ops_on_removed_id': [x[0] for x in m['xops']]}, k)
        else:
            self.R.observe('get-after-remove-exception', (self.fam, type(exc).__name__))

    def do_xop(self, ti, name, target):
        """an operation on a removed id (target = message index) or on an id no write returned"""
        if target == 'unknown':
            raw, tag = UNKNOWN_ID, 'unknown'
        else:
            m = self.msg[target]
            if not self.usable(target) or m['id'] in self.ref.m:
                self.R.count('skipped-ops/%s' % self.fam)
                return
            raw, tag = m['raw_id'], 'removed'
        args = {'set_timestamp': (4242.5,), 'increment_attempts': (), 'set_recipients_delivered': ([0],),
                'remove': (), 'get': ()}[name]
        oi, st = self.pick(ti)
        res, exc, s, e, _ = self.call(ti, '%s-on-%s-id' % (name, tag), getattr(st, name), self.idarg(raw), *args)
        self.R.hit('op-on-%s-id/%s' % (tag, self.fam))
        self.R.observe('op-on-gone-id-outcome', (self.fam, name, tag, type(exc).__name__ if exc else 'returns'))
        if name == 'get':
            if exc is None:
                self.violation('get-unknown-id', 'returns', 'get of an id no write returned answered %r' % (res,),
                               {'answer': repr(res)[:200]})
            return
        if target == 'unknown':
            self.unknown_xops.append((name, s, e))
        else:
            self.msg[target]['xops'].append((name, s, e))

    def do_simple(self, ti, name, k, *args):
        """set_timestamp / increment_attempts / set_recipients_delivered / remove"""
        if not self.usable(k):
            self.R.count('skipped-ops/%s' % self.fam)
            return
        m = self.msg[k]
        i = m['id']
        qual = ''
        if name == 'increment_attempts':
            qual = '/first-increment' if self.ref.m[i]['attempts'] == 0 else '/later-increment'
        if name == 'set_recipients_delivered':
            qual = '/%s-argument' % type(args[0]).__name__
            if self.ref.m[i]['rounds']:
                qual += '/later-round'
        if name == 'remove':
            m['rm'] = (self.tick_n + 1, None)
        oi, st = self.pick(ti)
        res, exc, s, e, _ = self.call(ti, name, getattr(st, name), self.idarg(m['raw_id']), *args)
        m['last_obj'] = oi
        if name == 'increment_attempts':
            self.R.hit('increment-judged/%s' % self.fam)
        if exc is not None:
            self.violation(name, 'raises-' + exc_name(exc) + qual, '%s on a live id raised %r' % (name, exc),
                           {'exc': repr(exc)[:300], 'args': repr(args), 'message': k}, k)
            return
        if name == 'set_timestamp':
            m['ts'].append((args[0], s, e))
            self.R.count('timestamp-class/%s/%s' % (self.fam, ts_class(args[0])))
            self.ref.set_timestamp(i, args[0])
        elif name == 'increment_attempts':
            exp = self.ref.increment_attempts(i)
            if res != exp or type(res) is not int:
                self.violation(name, 'returns-other-count' + qual,
                               'increment_attempts returned %r, reference %r' % (res, exp),
                               {'got': res, 'expected': exp, 'message': k}, k, True)
        elif name == 'set_recipients_delivered':
            if isinstance(args[0], (set, frozenset)):
                self.R.hit('set-arg-marking/%s' % self.fam)
            self.ref.set_recipients_delivered(i, args[0])
        elif name == 'remove':
            m['rm'] = (s, e)
            self.ref.remove(i)

    def do_deliv(self, ti, op):
        k = op[1]
        if not self.usable(k):
            self.R.count('skipped-ops/%s' % self.fam)
            return
        n = len(self.ref.left(self.msg[k]['id']))
        cnt = int(op[2] * (n + 1))
        prnd = random.Random(op[3])
        idx = sorted(prnd.sample(range(n), min(cnt, n)))
        if prnd.random() < 0.3:
            idx.reverse()
        arg = set(idx) if (len(op) > 4 and op[4] == 'set') else idx
        self.do_simple(ti, 'set_recipients_delivered', k, arg)

    def _record_load(self, res, exc, s, e, overl, final, pend0, stepped=False):
        self.R.hit('load-judged/%s' % self.fam)
        if stepped:
            self.R.hit('stepped-load-judged/%s' % self.fam)
        pending = pend0 > 0 or self.notif_maybe > 0
        if self.fam == 'redis':
            self.R.hit('load-with-notifications-pending/redis' if pending else 'load-after-drain/redis')
        if exc is not None:
            qual = ''
            if self.fam == 'redis':
                qual = '/notifications-pending' if pending else '/no-notifications'
            if stepped:
                qual += '/stepped'
            self.violation('load', 'raises-' + exc_name(exc) + qual, 'load raised %r' % exc,
                           {'exc': repr(exc)[:300], 'live_ids': len(self.ref.m)})
            return
        self.loads.append({'s': s, 'e': e, 'res': res, 'overl': overl, 'final': final, 'stepped': stepped})

    def do_load(self, ti, final=''):
        pend0 = self.notif_maybe
        oi, st = self.pick(ti)
        res, exc, s, e, rec = self.call(ti, 'load', lambda: list(st.load()))
        self._record_load(res, exc, s, e, rec['overl'], final, pend0)

    def do_sload(self, ti, nested):
        """load() pulled item by item; one nested operation of the history runs after each item"""
        pend0 = self.notif_maybe
        oi, st = self.pick(ti)
        pending = list(nested)
        rec = {'overl': True, 'name': 'load'}
        for o in self.inflight.values():
            o['overl'] = True
        self.inflight[id(rec)] = rec
        self.order.append(ti)
        s = self.tick()
        res, exc = [], None
        try:
            it = iter(st.load())
            while True:
                try:
                    item = next(it)
                except StopIteration:
                    break
                res.append(item)
                if pending:
                    self.run_op(ti, pending.pop(0))
        except Exception as e:
            exc = e
        finally:
            self.inflight.pop(id(rec), None)
        e_ = self.tick()
        self.R.eval()
        self.R.count('ops/%s' % self.fam)
        self.R.count('op/%s/load-stepped' % self.fam)
        self.R.count('nested-ops-inside-stepped-load/%s' % self.fam, len(nested) - len(pending))
        self._record_load(res, exc, s, e_, True, '', pend0, stepped=True)
        for op in pending:                      # the listing was shorter than the nest: run the rest after it
            self.run_op(ti, op)

    def do_drain(self, ti, full=False):
        if self.fam == 'redis':
            return self.do_drain_redis(ti)
        mq = self.extra.get('mq')
        if mq is None:
            return
        for _ in range(50 if full else 1):
            oi, st = self.pick(ti)
            got = []

            def consume():
                def body():
                    for item in st.wait():
                        got.append(item)
                g = gevent.spawn(body)
                for _ in range(200000):
                    if g.ready() or mq.sleepers:
                        break
                    gevent.sleep(0)
                else:
                    g.kill()
                    raise RuntimeError('harness: wait() consumer neither parked nor finished')
                if not g.ready():
                    g.kill()                  # parked in the message queue's sleep(): everything polled is consumed
                elif not g.successful():
                    raise g.exception
            _, exc, s, e, _ = self.call(ti, 'wait', consume)
            self.R.hit('wait-judged/%s' % self.fam)
            if exc is not None:
                if isinstance(exc, RuntimeError) and 'harness:' in str(exc):
                    self.R.inconclusive('wait-consumer-state/%s' % self.fam)
                    return
                self.violation('wait', 'raises-' + exc_name(exc), 'wait raised %r' % exc, {'exc': repr(exc)[:300]})
                return
            self.note_announced(got, s, e)
            self.R.count('notifications-drained/%s' % self.fam, len(got))
            if not mq.msgs:
                break

    def do_drain_redis(self, ti):
        oi, st = self.pick(ti)
        # pending notices = entries of list values under this storage's prefix, read in the server
        # double (wait() on an empty channel would block for ever)
        pb = self.extra['prefix'].encode()
        n = sum(len(v) for k, v in self.extra['mr'].db.items() if k.startswith(pb) and isinstance(v, list))
        for _ in range(n):
            res, exc, s, e, _ = self.call(ti, 'wait', st.wait)
            self.R.hit('wait-judged/redis')
            if exc is not None:
                self.violation('wait', 'raises-' + exc_name(exc), 'wait raised %r' % exc, {'exc': repr(exc)[:300]})
                return
            try:
                res = list(res)
            except Exception as e2:
                self.violation('wait', 'malformed-answer', 'wait answered %r' % (res,), {'exc': repr(e2)})
                return
            self.note_announced(res, s, e)
        self.notif_maybe -= n
        self.R.count('notifications-drained/redis', n)

    def note_announced(self, items, s, e):
        for item in items:
            try:
                ts, i = item
                ts = float(ts)
            except Exception:
                self.violation('wait', 'malformed-item', 'wait yielded %r' % (item,), {'item': repr(item)})
                continue
            self.R.observe('id-type', (self.fam, 'wait', type(i).__name__))
            self.announced.append((norm(i), ts, s, e))

    def do_wait_ni(self, ti):
        """backend without a notification channel: Queue._wait_store relies on NotImplementedError"""
        oi, st = self.pick(ti)
        res, exc, _, _, _ = self.call(ti, 'wait', lambda: list(itertools.islice(iter(st.wait()), 1)))
        self.R.hit('wait-judged/%s' % self.fam)
        if exc is None:
            self.violation('wait', 'returns-without-notification-channel',
                           'wait() of a backend without notifications answered %r instead of raising '
                           'NotImplementedError' % (res,), {'answer': repr(res)[:200]})
        elif not isinstance(exc, NotImplementedError):
            self.violation('wait', 'raises-' + exc_name(exc) + '/without-notification-channel',
                           'wait raised %r' % exc, {'exc': repr(exc)[:300]})

    def do_info(self, ti):
        oi, st = self.pick(ti)
        res, exc, _, _, _ = self.call(ti, 'get_info', st.get_info)
        self.R.observe('get-info-outcome', (self.fam, type(exc).__name__ if exc else 'returns'))
        if self.fam not in DICT_FAMS:
            return
        if any(m['tainted'] or m['failed_write'] for m in self.msg.values()):
            return
        self.R.hit('get-info-judged/%s' % self.fam)
        if exc is not None:
            self.violation('get_info', 'raises-' + exc_name(exc), 'get_info raised %r' % exc, {'exc': repr(exc)})
            return
        try:
            size = res['size']
        except Exception:
            size = None
        if size != len(self.ref.m):
            self.violation('get_info', 'size-differs', 'get_info answered %r with %d live messages'
                           % (res, len(self.ref.m)), {'got': repr(res), 'live': len(self.ref.m)})

    def do_reopen(self, ti):
        fresh = [self.factory() for _ in self.objs]
        if all(a is b for a, b in zip(fresh, self.objs)):
            self.R.count('reopen-not-possible/%s' % self.fam)     # DictStorage() on its own dicts
            return
        self.objs = fresh
        self.R.count('reopens/%s' % self.fam)
        for m in self.msg.values():
            if m['id'] is not None:
                m['reopened_since_write'] = True
            m['last_obj'] = None if len(self.objs) > 1 else 0

    # --- tracks
    def run_op(self, ti, op):
        name = op[0]
        if name == 'write':
            self.do_write(ti, op[1], op[2])
        elif name == 'get':
            self.do_get(ti, op[1])
        elif name == 'gone':
            self.do_gone(ti, op[1])
        elif name == 'load':
            self.do_load(ti)
        elif name == 'sload':
            self.do_sload(ti, op[1])
        elif name == 'ts':
            self.do_simple(ti, 'set_timestamp', op[1], op[2])
        elif name == 'inc':
            self.do_simple(ti, 'increment_attempts', op[1])
        elif name == 'deliv':
            self.do_deliv(ti, op)
        elif name == 'remove':
            self.do_simple(ti, 'remove', op[1])
        elif name == 'xop':
            self.do_xop(ti, op[1], op[2])
        elif name == 'drain':
            self.do_drain(ti)
        elif name == 'wait-ni':
            self.do_wait_ni(ti)
        elif name == 'info':
            self.do_info(ti)
        elif name == 'reopen':
            self.do_reopen(ti)
        else:
            raise ValueError(name)

    def run_track(self, ti, ops):
        for op in ops:
            self.run_op(ti, op)

    def final_sweep(self):
        for k in sorted(self.msg):
            m = self.msg[k]
            if not self.usable(k):
                continue
            if m['id'] in self.ref.m:
                self.do_get(-1, k, final=True)
            else:
                self.do_gone(-1, k)
        self.do_xop(-1, 'get', 'unknown')
        if self.fam == 'redis':
            # recorded, not judged: does the backend also take the id as bytes?
            for k in sorted(self.msg):
                m = self.msg[k]
                if self.usable(k) and m['id'] in self.ref.m and isinstance(m['raw_id'], str):
                    _, exc, _, _, _ = self.call(-1, 'get(bytes-id)', self.objs[0].get, m['raw_id'].encode('ascii'))
                    self.R.count('bytes-id-%s/redis' % ('refused' if exc else 'accepted'))
                    break
        self.do_load(-1, 'final')
        if self.has_chan:
            self.do_drain(-1, full=True)
            self.do_load(-1, 'final-after-drain')
        else:
            self.do_wait_ni(-1)

    # --- wait(): what was announced
    def judge_announcements(self):
        if not self.has_chan or any(m['failed_write'] for m in self.msg.values()):
            return
        if self.case.get('mq_fail'):
            if self.announced:
                self.violation('wait', 'announces-unknown-id', 'wait announced %r although every queue_message '
                               'call was refused' % (self.announced[:2],), {'announced': len(self.announced)})
            return
        self.R.hit('announcements-judged/%s' % self.fam)
        by_id = dict((m['id'], (k, m)) for k, m in self.msg.items() if m['id'] is not None)
        seen = {}
        for i, ts, s, e in self.announced:
            if i not in by_id:
                self.violation('wait', 'announces-unknown-id', 'wait announced %r which no write returned' % (i,),
                               {'id': i, 'timestamp': ts})
                continue
            k, m = by_id[i]
            seen[i] = seen.get(i, 0) + 1
            if seen[i] == 2:
                self.violation('wait', 'announces-id-twice', 'wait announced message %d twice' % k, {'message': k})
            if ts != m['ts'][0][0]:
                self.violation('wait', 'announces-other-timestamp',
                               'wait announced message %d with timestamp %r, written with %r'
                               % (k, ts, m['ts'][0][0]), {'message': k, 'got': ts, 'written': m['ts'][0][0]})
        for i, (k, m) in by_id.items():
            if i not in seen and not m['tainted']:
                self.violation('wait', 'write-never-announced',
                               'message %d was written but wait() never announced it (channel drained)' % k,
                               {'message': k, 'announced': len(self.announced)})

    # --- the interval rule for load()
    def judge_loads(self):
        by_id = dict((m['id'], (k, m)) for k, m in self.msg.items() if m['id'] is not None)
        any_failed_write = any(m['failed_write'] for m in self.msg.values())
        for L in self.loads:
            ls, le = L['s'], L['e']
            listed = {}
            dup = None
            for item in L['res']:
                try:
                    ts, raw = item
                    ts = float(ts)
                except Exception:
                    self.violation('load', 'malformed-item', 'load yielded %r' % (item,), {'item': repr(item)})
                    continue
                i = norm(raw)
                self.R.observe('id-type', (self.fam, 'load', type(raw).__name__))
                if i in by_id and type(raw) is not type(by_id[i][1]['raw_id']):
                    self.R.count('id-type-mismatch-write-vs-load/%s' % self.fam)
                if i in listed:
                    dup = i
                listed[i] = ts
            if L['overl']:
                self.R.hit('overlap-load-judged/%s' % self.fam)
            if self.fam == 'disk':
                lay = self.case.get('disk_layout') or 'separate'
                self.R.count('disk-load-judged/layout-%s' % lay)
                if lay.startswith('shared'):
                    self.R.hit('shared-directory-load-judged/disk')
                if self.case.get('disk_clutter'):
                    self.R.count('disk-load-judged/cluttered-directory')
                if self.case.get('disk_relative'):
                    self.R.count('disk-load-judged/relative-paths')
            self.R.count('load-items-judged/%s' % self.fam, len(listed))
            if dup is not None:
                self.violation('load', 'lists-id-twice', 'load listed %r twice' % dup, {'id': dup}, None, True)
            for i, ts in listed.items():
                if i not in by_id:
                    if i == UNKNOWN_ID:
                        if any(xs < le and xe > ls for n, xs, xe in self.unknown_xops):
                            self.R.count('transient-listing-during-op-on-gone-id/%s' % self.fam)
                            continue
                        before = sorted(set(n for n, xs, xe in self.unknown_xops if xs < le))
                        self.violation('load', 'lists-unknown-id/after-%s-on-unknown-id'
                                       % ('+'.join(before) or 'nothing'),
                                       'load listed %r which no write returned' % i,
                                       {'id': i, 'timestamp': ts, 'ops_on_it': before}, None, True)
                    elif not any_failed_write:
                        self.violation('load', 'lists-unknown-id', 'load listed %r which no write returned' % i,
                                       {'id': i}, None, True)
                    continue
                k, m = by_id[i]
                if m['tainted']:
                    continue
                rm = m['rm']
                may = m['w'][0] < le and (rm is None or rm[1] is None or rm[1] > ls)
                if not may:
                    if any(xs < le and xe > ls for n, xs, xe in m['xops']):
                        # an operation on the removed id is in flight during this very load: the id may be
                        # visible for that moment; it has to be gone once the operation has returned
                        self.R.count('transient-listing-during-op-on-gone-id/%s' % self.fam)
                        continue
                    before = sorted(set(n for n, xs, xe in m['xops'] if xs < le))
                    q = '/after-%s-on-removed-id' % '+'.join(before) if before else ''
                    self.violation('load', 'lists-removed-id' + q,
                                   'load listed message %d (%s) after its removal had completed' % (k, i),
                                   {'message': k, 'remove_ticks': rm, 'load_ticks': (ls, le),
                                    'ops_on_removed_id': before, 'timestamp': ts}, None, True)
                    continue
                hist = m['ts']
                ok = False
                if ts == 4242.5 and any(xs < le and xe > ls for n, xs, xe in m['xops']):
                    # the harness's marker value: set_timestamp on the removed id is in flight during this
                    # load (which also overlapped the removal): see the transient rule below
                    self.R.count('transient-listing-during-op-on-gone-id/%s' % self.fam)
                    continue
                for j, (v, vs, ve) in enumerate(hist):
                    nxt = hist[j + 1] if j + 1 < len(hist) else None
                    if v == ts and vs < le and (nxt is None or nxt[2] > ls):
                        ok = True
                        if ts_class(v) != 'plain':
                            self.R.hit('odd-timestamp-load-judged/%s' % self.fam)
                        break
                if not ok:
                    ever = any(v == ts for v, _, _ in hist)
                    clause = 'timestamp-stale' if ever else 'timestamp-never-written'
                    if rm is not None and (rm[1] is None or rm[1] > ls) and rm[0] < le:
                        clause += '/while-being-removed'
                    elif m['w'][1] > ls:
                        clause += '/while-being-written'
                    self.violation('load', clause,
                                   'load listed message %d with timestamp %r; history %r'
                                   % (k, ts, [v for v, _, _ in hist]),
                                   {'message': k, 'got': ts, 'history': hist, 'load_ticks': (ls, le)}, None, True)
            for i, (k, m) in by_id.items():
                if m['tainted'] or i in listed:
                    continue
                rm = m['rm']
                must = m['w'][1] < ls and (rm is None or rm[0] > le)
                if must:
                    q = '/after-restart' if m['reopened_since_write'] and not L['overl'] else ''
                    self.violation('load', 'misses-live-id' + q,
                                   'load did not list live message %d (%s)' % (k, i),
                                   {'message': k, 'listed': sorted(listed), 'load_ticks': (ls, le),
                                    'write_ticks': m['w'], 'remove_ticks': rm}, None, True)

    def run(self):
        self.factory, cleanup, self.extra = make_backend(self.case)
        try:
            CTRL.rnd = random.Random('ids-%s' % self.case.get('obj_seed'))
            self.objs = [self.factory()]
            if self.case.get('two'):
                self.objs.append(self.factory())
            tracks = self.case['tracks']
            glets = [gevent.spawn(self.run_track, ti, ops) for ti, ops in enumerate(tracks)]
            how, _ = core.watchdog_call(lambda: gevent.joinall(glets), 60)
            if how != 'ok' or not all(g.ready() for g in glets):
                gevent.killall(glets)
                self.R.inconclusive('watchdog/%s/%s' % (self.fam, self.mode))
                return
            for g in glets:
                if not g.successful():
                    raise g.exception
            how, _ = core.watchdog_call(self.final_sweep, 60)
            if how != 'ok':
                self.R.inconclusive('watchdog-final/%s/%s' % (self.fam, self.mode))
                return
            self.judge_loads()
            self.judge_announcements()
        finally:
            CTRL.forced = []
            CTRL.rnd = None
            cleanup()


def _probe_offerable():
    """Which backends draw their ids from a source the harness can stand in for?  Decided by running
    the real write() once with a marker id queued: offerable = the marker was taken."""
    out = {}
    spec = {'nrcpt': 1, 'size': 0, 'hdr8': False}
    marker = 'c15c0111de' + '0' * 22
    for fam in ('dict', 'disk', 'redis'):
        ok = False
        try:
            factory, cleanup, _ = make_backend({'fam': fam, 'cfg': {}, 'given_dicts': True})
            try:
                st = factory()
                before = CTRL.offered
                CTRL.forced = [marker]
                st.write(make_envelope(0, spec), 1.0)
                ok = CTRL.offered > before
            finally:
                CTRL.forced = []
                cleanup()
        except Exception:
            ok = False
        out[fam] = ok
    out['dict-shelve'] = out['dict']
    return out


OFFERABLE = _probe_offerable()
# the collision stratum decides nothing for a backend whose id source cannot be substituted (distinct
# ids are judged within every case all the same; counter id-collision-not-offerable/<backend>)
REQUIRED_HITS = REQUIRED_HITS + ['id-collision-offered/%s' % f for f in COLLIDE_FAMS if OFFERABLE.get(f)]


def is_nontrivial(case):
    written = set()
    deliv, removed = set(), False
    nt = False
    for ops in case['tracks']:
        removed = False
        for op in flat_ops(ops):
            if op[0] == 'write':
                written.add(op[1])
            elif op[0] == 'deliv':
                deliv.add(op[1])
            elif op[0] == 'get' and op[1] in deliv:
                nt = True
            elif op[0] == 'remove':
                removed = True
            elif op[0] in ('load', 'gone') and removed:
                nt = True
    return nt and len(written) >= 2


def run_case(case, R):
    fam, mode = case['fam'], case['mode']
    R.count('cases/%s/%s' % (fam, mode))
    if case.get('two'):
        R.count('cases-two-objects/%s' % fam)
    shape = (fam, mode, bool(case.get('two')), tuple(tuple(op_shape(op) for op in ops) for ops in case['tracks']))
    R.observe('history-shape/%s' % fam, shape)
    if is_nontrivial(case):
        R.nontrivial(shape)
    lab = Lab(case, R)
    lab.run()
    if mode == 'overlap':
        R.observe('interleaving/%s' % fam, (shape, tuple(lab.order)))
        R.observe('interleaving-order/%s' % fam, tuple(lab.order))
    if not lab.viol_in_case and mode == 'overlap' and fam != 'dict' and len(case['tracks']) > 2:
        R.sample({'backend': fam, 'cfg': case['cfg'], 'mode': mode,
                  'tracks': [[op[:2] for op in ops] for ops in case['tracks']],
                  'op_start_order_by_track': lab.order[:60],
                  'loads': [{'ticks': (L['s'], L['e']), 'listed': len(L['res'])} for L in lab.loads][:6]})
