"""C16 -- queue policies conserve recipients and content.

The real ``slimta.queue.Queue(store=<recording DictStorage>, relay=None[, store_pool=n])`` runs a
generated chain of the real built-in policies on a generated envelope; the monitor records every
envelope handed to ``QueueStorage.write`` during that one ``enqueue`` call.  A second, independently
built queue runs the same chain through ``Queue._run_policies`` directly (cross-check of the two
entry points).

Events that refute (each is an oracle clause, see ``judge_round``):
  rcpts        multiset of recipients over the written envelopes != multiset of the expected
               (rewritten) recipients; the expected rewriting is ``ref_forward`` below, an
               independent restatement of "first matching rule wins".  A rule whose result would be
               the empty string is judged under both readings (rule skipped / search stops, recipient
               unchanged); an address that comes out as '' is never accepted
  sender/body  a written envelope with another sender or another body
  orig-headers an original header missing / altered / reordered in a written envelope (parsed
               items, then the raw field bytes of ``flatten()``)
  date/mid     Date / Message-Id added although present (also: present with an empty value, present
               twice), or missing although absent (also: only look-alike names present) and the
               policy is in the chain, or present although nobody should have added it
  received     the n new Received headers are not the first n headers
  alias        mutating recipients / headers / client of one written envelope changes another;
               id()-graph walk finds a mutable object reachable from two written envelopes;
               the same envelope object written twice
  crash        enqueue (or flatten of a written envelope) raised
  reuse-*      any of the above on a second enqueue of an equal envelope on the same Queue (same
               policy objects) that did not occur on the first
  direct-*     Queue._run_policies called directly disagrees with the above / with what enqueue wrote
"""
import re
import json
import random
import itertools
import collections
import email.message

from slimta.queue import Queue
from slimta.queue.dict import DictStorage
from slimta.envelope import Envelope
from slimta.policy import QueuePolicy
from slimta.policy.split import RecipientSplit, RecipientDomainSplit
from slimta.policy.forward import Forward
from slimta.policy.headers import AddDateHeader, AddMessageIdHeader, AddReceivedHeader

PROPERTY = 'C16'
LEVEL = 'exploration'
LEVEL_TEXT = ('Real Queue.enqueue (and Queue._run_policies directly) with the real built-in policies and a '
              'recording DictStorage: every chain of length <= 3 (quick) / <= 4 (thorough) over 10 policy kinds, '
              'each with several seeded recipient lists / forwarding rule sets / header blocks / client dicts, '
              'plus seeded random chains of length 0..8 over 11 kinds; with and without a store pool, with shared '
              'policy objects, and a second enqueue on the same queue; conservation, header and aliasing clauses '
              'judged on every enqueue. Held = held on the enqueues reported, not a proof for longer chains or '
              'other rule sets.')
LEVEL_NOTE = ('Trusted: the recording wrapper (3 lines), ref_forward (10 lines, uses re.subn like the '
              'implementation but its own control flow), the multiset / header / raw-field / aliasing comparisons.')
TECHNIQUE = ('runtime monitoring: record envelopes reaching QueueStorage.write for one enqueue; multiset '
             'conservation oracle + mutation/aliasing probe + id()-graph walk + raw header field comparison; '
             'witnesses are shrunk before classification')
RULE = ('case = (chain of policy specs, recipient list, original header block, body, client dict, store pool, '
        'shared policy objects y/n, second enqueue y/n); one enqueue on a real Queue = one evaluation. Chains: '
        'exhaustive over 10 kinds {split, domsplit, forward(rule set), date, mid, received, ident(returns [env]), '
        'none(returns None), peel(returns [env, copy] after moving one recipient), genpeel(the same as a generator '
        'function, yields nothing below 2 recipients)} up to the tier length, then seeded random length 0..8 (also '
        'tuppeel: returns a tuple). Recipients: 0..8 (sometimes 12..40) drawn with replacement from a small pool '
        '(duplicates, mixed-case domains, no "@", empty domain, empty string, two "@", UTF-8 local parts and '
        'domains, up to 8 domains). Forward rules: str or compiled patterns (with flags), str or function '
        'replacements, count 0/1/2, rules whose result is the empty string, rules with the same pattern text '
        '(other flags / replacement / count, str vs compiled, one compiled object registered twice; both '
        'orders). Header blocks: plain, or odd (empty '
        'valued / repeated Date and Message-Id, look-alike names, folded, 8-bit, RFC 2047, bare-LF, a line that '
        'is no header, none). non-trivial & distinct = distinct (chain kinds, recipient list) whose chain has >= 1 '
        'split/domsplit/peel/genpeel/tuppeel and whose recipient list has >= 2 distinct lower-cased domains or a '
        'duplicate')
ASSUMPTIONS = ['a forwarding rule whose result is the empty string: the documentation ("no further rules are '
               'processed") and the implementation (rule skipped, later rules tried) disagree; both outcomes '
               'are accepted, the empty address is not',
               'the storage backend is DictStorage, which stores the envelope object it is given (so the '
               'objects recorded at write() are the ones the queue would later relay)',
               'the policy object email.policy.SMTP referenced by every header block is treated as immutable '
               'and not followed by the id()-graph walk',
               'user policies in the documented forms only: return None / a list / a tuple, or generate '
               '(QueuePolicy.apply: "Optionally return or generate an iterable of Envelope objects")']
REQUIRED_HITS = ['write-recorded', 'rcpt-multiset-compared', 'sender-body-compared', 'alias-probed',
                 'idgraph-walked', 'date-mid-judged', 'received-judged', 'unmatched-unchanged-judged',
                 'odd-header-block-judged', 'header-bytes-compared', 'utf8-rcpt-judged',
                 'empty-result-rule-judged', 'compiled-pattern-judged', 'same-pattern-text-rules-judged', 'second-enqueue-judged',
                 'direct-path-compared', 'generator-form-judged', 'sparse-client-received-judged',
                 'store-pool-enqueue-judged', 'shared-policy-object-judged']
SHARDS = {'quick': 8, 'thorough': 16}
BUDGET = {'quick': 55, 'thorough': 800}

KINDS = ['split', 'domsplit', 'forward', 'date', 'mid', 'received', 'ident', 'none', 'peel', 'genpeel']
RAND_KINDS = KINDS + ['tuppeel']
SPLITTERS = ('split', 'domsplit', 'peel', 'genpeel', 'tuppeel')
EXH_LEN = {'quick': 3, 'thorough': 4}
PER_CHAIN = {'quick': 6, 'thorough': 12}
NRANDOM = {'quick': 16000, 'thorough': 250000}

# (pattern, replacement, count[, flags]).  flags: 'c' = handed to add_mapping as a compiled pattern,
# 'ci' = compiled with re.IGNORECASE.  Rules of RULE_POOL can never make the whole recipient empty
# (every replacement text contains a literal character); those of EMPTY_POOL can.
RULE_POOL = [
    (r'^(.*)@old\.test$', r'\1@new.test', 0),
    (r'^alias@', 'real@', 0),
    (r'@D1\.test$', '@d2.test', 0),
    (r'^x', 'y', 0),
    (r'(?i)@d3\.test$', '@D1.test', 0),
    (r'a', 'bb', 1),
    (r'a', 'bb', 0),
    (r'^nodomain(\d)$', r'nd\1@fixed.test', 0),
    (r'@$', '@filled.test', 0),
    (r'@', '@', 0),                    # matches, result identical: must still stop the search
    (r'@[a-z0-9.]+$', 'FN:upper', 0),  # function replacement
    (r'^(.+)@e(\d)\.test$', r'\1+e\2@old.test', 0),
    (r'^never-matches-anything$', 'zz@zz.test', 0),
]
RULE_POOL2 = RULE_POOL + [
    (r'a', 'bb', 2),
    (r'@e1\.test$', '@E-one.test', 0, 'ci'),      # only matches E1.TEST through the compiled flag
    (r'^(.*)@d1\.test$', r'\1@c-d1.test', 0, 'c'),
    (r'^A@', 'upper-a@', 0, 'c'),
    (r'@dömain\.test$', '@idn.test', 0),
    (r'^ü@', 'ue@', 0, 'ci'),
    (r'@.*$', '', 0),                             # strips the domain: result never empty here
]
EMPTY_POOL = [
    (r'^alias@.*$', '', 0),
    (r'^.*@old\.test$', '', 0),
    (r'.+', '', 0),
    (r'^nodomain\d$', '', 1),
    (r'[^@]+@(?:d1|e\d)\.test', 'FN:empty', 0),
]
# Ordered rule pairs with the SAME pattern text (flags 's' = one compiled object shared by the rules of
# that text in the Forward): the rules count as given, the first that matches wins -- a later twin is
# reachable exactly when its flags make it match what the earlier one does not.
TWIN_POOL = [
    [(r'@e1\.test$', '@first.test', 0), (r'@e1\.test$', '@second.test', 0, 'ci')],
    [(r'@e1\.test$', '@first.test', 0, 'ci'), (r'@e1\.test$', '@second.test', 0)],
    [(r'@d3\.test$', '@p.test', 0, 'c'), (r'@d3\.test$', '@q.test', 0, 'ci')],
    [(r'@d3\.test$', '@p.test', 0, 'ci'), (r'@d3\.test$', '@q.test', 0, 'c')],
    [(r'^a@', 'lower-a@', 0), (r'^a@', 'any-a@', 1, 'ci')],
    [(r'^alias@', 'one@', 0), (r'^alias@', 'two@', 0, 'c')],
    [(r'^alias@', 'one@', 0, 'c'), (r'^alias@', 'two@', 0)],
    [(r'^x', 'y', 0), (r'^x', 'z', 0)],
    [(r'a', 'bb', 1), (r'a', 'bb', 0)],
    [(r'a', 'bb', 0), (r'a', 'bb', 1)],
    [(r'a', 'bb', 2, 'c'), (r'a', 'bb', 1, 'c')],
    [(r'@old\.test$', '@o1.test', 0, 'cs'), (r'@old\.test$', '@o2.test', 0, 'cs')],
    [(r'@e2\.test$', '@s1.test', 0, 'cis'), (r'@e2\.test$', '@s2.test', 0, 'cis'), (r'@e2\.test$', '@s3.test', 0)],
]
LOCALS = ['a', 'b', 'alias', 'x1', 'c', 'A', 'a@b']
DOMAINS = ['d1.test', 'D1.test', 'old.test', 'd3.test', 'D3.Test', '', 'e1.test', 'e2.test', 'e3.test',
           'E1.TEST', 'e4.test', 'e5.test']
LOCALS2 = LOCALS + ['ü', 'Ωmega', 'alias']
DOMAINS2 = DOMAINS + ['dömain.test', 'DÖMAIN.test', 'ω.test', 'old.test']
DATE_NAMES = ['Date', 'date', 'DATE']
MID_NAMES = ['Message-Id', 'Message-ID', 'message-id']

ODD_DATE = [b'Date:\r\n', b'Date: \r\n', b'date:\r\n', b'Date: keep-date\r\n', b'DATE: k1\r\nDate: k2\r\n',
            b'Date:\r\n Thu, 1 Jan 1970\r\n\t00:00:00 +0000\r\n']
ODD_MID = [b'Message-Id:\r\n', b'Message-ID: \r\n', b'message-id:\r\n', b'Message-Id: <keep@x>\r\n',
           b'Message-ID: <k1@x>\r\nMessage-Id: <k2@x>\r\n', b'Message-Id:\r\n <folded@x>\r\n']
NEAR_MISS = [b'X-Date: 1\r\n', b'Resent-Date: 2\r\n', b'Resent-Message-Id: <r@x>\r\n', b'Message-Id-X: 1\r\n',
             b'Dated: 1\r\n', b'Subject: x\r\n Date: not-a-header\r\n', b'X-Note: message-id: <n@x> date: none\r\n',
             b'X-Message-Id: <x@x>\r\n', b'Delivery-Date: 3\r\n']
ODD_OTHER = [b'Subject: a\r\n folded\r\n\tmore\r\n', b'Subject: ' + b'long ' * 60 + b'\r\n',
             b'Subject: caf\xc3\xa9\r\n', b'X-Bin: \xff\xfe\r\n', b'From: "J\xf6rg" <j@x.test>\r\n',
             b'X-Sep: a\xe2\x80\xa8b\xc2\x85c\r\n', b'Subject: =?utf-8?q?caf=C3=A9?=\r\n', b'X-Empty:\r\n',
             b'Received: old hop 1\r\n', b'Received: from a by b;\r\n Thu, 1 Jan 1970 00:00:00 +0000\r\n',
             b'To: a@x.test,\r\n b@x.test\r\n', b'X-Tab:\tv\r\n', b'x-lower: v\r\n']
GARBAGE = [b'no colon line\r\n', b' leading continuation\r\n', b'>From x\r\n']
CLIENTS = [
    {'ip': '192.0.2.1', 'name': 'c.test', 'host': 'h.test', 'protocol': 'ESMTP', 'auth': None},
    {},
    {'ip': '192.0.2.1'},
    {'ip': None, 'name': None, 'host': None, 'protocol': None, 'auth': None},
    {'name': 'c.test', 'protocol': 'ESMTPSA', 'auth': 'user'},
]


def _fn_upper(m):
    return m.group(0).upper()


def _fn_empty(m):
    return ''


def _repl(r):
    return _fn_upper if r == 'FN:upper' else _fn_empty if r == 'FN:empty' else r


def _flags(rule):
    return rule[3] if len(rule) > 3 else ''


def _compiled(rule):
    return re.compile(rule[0], re.IGNORECASE if 'i' in _flags(rule) else 0)


class Ident(QueuePolicy):
    def apply(self, envelope):
        return [envelope]


class NoneP(QueuePolicy):
    def apply(self, envelope):
        return None


class Peel(QueuePolicy):
    """A user policy that returns the input envelope among its outputs: moves the last recipient
    into a copy of its own.  Conserves recipients by construction."""
    def apply(self, envelope):
        if len(envelope.recipients) < 2:
            return None
        last = envelope.recipients.pop()
        return [envelope, envelope.copy([last])]


class TupPeel(QueuePolicy):
    """Peel returning a tuple (an iterable that is not a list)."""
    def apply(self, envelope):
        if len(envelope.recipients) < 2:
            return ()
        last = envelope.recipients.pop()
        return (envelope, envelope.copy([last]))


class GenPeel(QueuePolicy):
    """Peel written as a generator function (QueuePolicy.apply: "return or generate an iterable"):
    yields nothing when there is nothing to peel.  ``outs`` / ``empty_calls`` are read by the
    classifier only."""
    def __init__(self):
        self.outs = []
        self.empty_calls = 0

    def apply(self, envelope):
        if len(envelope.recipients) < 2:
            self.empty_calls += 1
            return
        last = envelope.recipients.pop()
        for e in (envelope, envelope.copy([last])):
            self.outs.append(e)
            yield e


class Rec(DictStorage):
    """The monitor: records what reaches QueueStorage.write."""
    def __init__(self):
        super(Rec, self).__init__()
        self.w = []

    def write(self, envelope, timestamp):
        self.w.append((envelope, list(envelope.recipients)))
        return super(Rec, self).write(envelope, timestamp)


def ref_forward(rules, rcpt, on_empty='skip'):
    """Independent restatement of Forward: the first rule that matches rewrites, nothing else does.
    A match whose result is '' is never applied: on_empty='skip' tries the later rules (what the
    implementation does), 'stop' ends the search with the recipient unchanged (the documentation)."""
    for rule in rules:
        new, n = _compiled(rule).subn(_repl(rule[1]), rcpt, rule[2])
        if n > 0:
            if new == '':
                if on_empty == 'skip':
                    continue
                return rcpt
            return new
    return rcpt


# ------------------------------------------------------------------ generation

def mk_rcpt(rnd, wide):
    x = rnd.random()
    if x < 0.12:
        return 'nodomain%d' % rnd.randrange(3)
    if wide and x < 0.14:
        return ''
    if wide:
        return rnd.choice(LOCALS2) + '@' + rnd.choice(DOMAINS2)
    return rnd.choice(LOCALS) + '@' + rnd.choice(DOMAINS)


def mk_rcpts(rnd, wide):
    n = rnd.choice([0, 1, 1, 2, 2, 3, 3, 4, 5, 6, 7, 8])
    if wide and rnd.random() < 0.03:
        n = rnd.choice([12, 24, 40])
    pool = [mk_rcpt(rnd, wide) for _ in range(rnd.choice([1, 2, 3, 5, 8, 8]))]
    return [rnd.choice(pool) for _ in range(n)]


def mk_headers(rnd):
    h = []
    if rnd.random() < 0.1:
        return h
    for _ in range(rnd.choice([0, 0, 1, 2])):
        h.append(['Received', 'old hop %d' % rnd.randrange(9)])
    h.append(['Subject', 's %d' % rnd.randrange(99)])
    if rnd.random() < 0.5:
        h.append([rnd.choice(DATE_NAMES), 'keep-date'])
    if rnd.random() < 0.5:
        h.append([rnd.choice(MID_NAMES), '<keep@x>'])
    if rnd.random() < 0.3:
        h.append(['X-Tra', 'v'])
    rnd.shuffle(h)
    return h


def mk_odd_headers(rnd):
    """(list of raw header fields, bare-LF flag)."""
    f = []
    if rnd.random() < 0.45:
        f.append(rnd.choice(ODD_DATE))
    if rnd.random() < 0.45:
        f.append(rnd.choice(ODD_MID))
    for _ in range(rnd.choice([0, 1, 1, 2])):
        f.append(rnd.choice(NEAR_MISS))
    for _ in range(rnd.choice([0, 1, 2, 3])):
        f.append(rnd.choice(ODD_OTHER))
    rnd.shuffle(f)
    if rnd.random() < 0.08:
        f.insert(rnd.randrange(len(f) + 1), rnd.choice(GARBAGE))
    return f, rnd.random() < 0.12


def mk_spec(kind, rnd, wide):
    if kind == 'forward':
        if not wide:
            rules = [list(r) for r in rnd.sample(RULE_POOL, rnd.choice([0, 1, 1, 2, 3, 4]))]
        else:
            rules = [list(r) for r in rnd.sample(RULE_POOL2, rnd.choice([0, 1, 1, 2, 3, 4]))]
            if rnd.random() < 0.4:
                rules.insert(rnd.randrange(len(rules) + 1), list(rnd.choice(EMPTY_POOL)))
            if rnd.random() < 0.3:
                rules = [r if len(r) > 3 else r + ['c'] for r in rules]
            if rnd.random() < 0.35:
                for tw in rnd.choice(TWIN_POOL):         # in order, other rules may sit between them
                    at = [i for i, r in enumerate(rules) if r[0] == tw[0]]
                    rules.insert(rnd.randrange(at[-1] + 1 if at else 0, len(rules) + 1), list(tw))
        return ['forward', rules]
    return [kind]


def mk_case(kinds, rnd, origin):
    case = {'chain': None, 'rcpts': None, 'headers': None,
            'body': None, 'origin': origin}
    wide = rnd.random() < 0.5
    case['chain'] = [mk_spec(k, rnd, wide) for k in kinds]
    case['rcpts'] = mk_rcpts(rnd, wide)
    plain = mk_headers(rnd)
    case['body'] = rnd.choice([b'body \xff\r\n', b'', b'l1\r\n.\r\nl3', b'\r\n\r\nx\r\n'])
    if rnd.random() < 0.5:
        del case['headers']
        case['hfields'], case['lf'] = mk_odd_headers(rnd)
    else:
        case['headers'] = plain
    case['client'] = rnd.choice([0, 0, 0, 1, 2, 3, 4])
    case['pool'] = rnd.choice([None, None, None, 1, 3])
    case['share'] = rnd.random() < 0.3
    case['twice'] = rnd.random() < 0.25
    case['direct'] = rnd.random() < 0.5
    return case


def gen_cases(tier, seed, shard, nshards):
    n = 0
    for L in range(0, EXH_LEN[tier] + 1):
        for kinds in itertools.product(KINDS, repeat=L):
            for rep in range(PER_CHAIN[tier]):
                if n % nshards == shard:
                    rnd = random.Random('c16-%d-%s-%d' % (seed, ','.join(kinds), rep))
                    yield mk_case(kinds, rnd, 'exh')
                n += 1
    rnd = random.Random('c16r-%d-%d' % (seed, shard))
    for _ in range(NRANDOM[tier] // nshards):
        kinds = [rnd.choice(RAND_KINDS) for _ in range(rnd.choice([0, 1, 2, 3, 4, 5, 1, 2, 3, 4, 5, 6, 7, 8]))]
        yield mk_case(kinds, rnd, 'rand')


# ------------------------------------------------------------------ running the real code

def build_policy(spec):
    k = spec[0]
    if k == 'split':
        return RecipientSplit()
    if k == 'domsplit':
        return RecipientDomainSplit()
    if k == 'forward':
        f = Forward()
        shared = {}
        for rule in spec[1]:
            pat = rule[0]
            if 's' in _flags(rule):
                pat = shared.setdefault((rule[0], 'i' in _flags(rule)), _compiled(rule))
            elif 'c' in _flags(rule):
                pat = _compiled(rule)
            f.add_mapping(pat, _repl(rule[1]), rule[2])
        return f
    if k == 'date':
        return AddDateHeader()
    if k == 'mid':
        return AddMessageIdHeader('verif.test')
    if k == 'received':
        return AddReceivedHeader()
    if k == 'ident':
        return Ident()
    if k == 'none':
        return NoneP()
    if k == 'peel':
        return Peel()
    if k == 'tuppeel':
        return TupPeel()
    if k == 'genpeel':
        return GenPeel()
    raise ValueError(k)


def build_chain(case, share=None):
    """The policy objects of the chain; with 'share', equal specs are one object added several times."""
    share = case.get('share') if share is None else share
    made = {}
    out = []
    for spec in case['chain']:
        key = json.dumps(spec)
        if share and key in made:
            out.append(made[key])
            continue
        p = build_policy(spec)
        made[key] = p
        out.append(p)
    return out


def header_fields(case):
    if 'hfields' in case:
        return list(case['hfields'])
    return [('%s: %s\r\n' % (n, v)).encode('ascii') for n, v in case['headers']]


def build_envelope(case):
    raw = b''.join(header_fields(case)) + b'\r\n'
    if case.get('lf'):
        raw = raw.replace(b'\r\n', b'\n')
    env = Envelope('snd@x.test', list(case['rcpts']))
    env.parse(raw + case['body'])
    env.receiver = 'me.test'
    env.timestamp = 1234567890.0
    env.client = dict(CLIENTS[case.get('client', 0)])
    return env


def hdr_items(env):
    return [(str(k), str(v)) for k, v in env.headers.items()]


def raw_fields(hb):
    """The raw header fields of a flattened header block (continuation lines stay with their field)."""
    lines = hb.split(b'\r\n')
    while lines and lines[-1] == b'':
        lines.pop()
    out = []
    for ln in lines:
        if out and ln[:1] in (b' ', b'\t'):
            out[-1] += b'\r\n' + ln
        else:
            out.append(ln)
    return out


def snapshot(env):
    # the header list as stored (name, source text), not re-parsed: the probe takes ~3*n*n snapshots
    return (list(env.recipients), [(k, str(v)) for k, v in env.headers._headers], dict(env.client),
            env.sender, env.message)


def mutable_ids(env):
    """ids of the mutable objects reachable from an envelope (not through the shared policy)."""
    seen = {}
    stack = [('env', env)]
    while stack:
        path, o = stack.pop()
        if o is None or isinstance(o, (str, bytes, int, float, bool, type)):
            continue
        if id(o) in seen:
            continue
        if isinstance(o, (list, set, bytearray)):
            seen[id(o)] = path
            stack.extend((path + '[]', x) for x in o)
        elif isinstance(o, tuple):
            stack.extend((path + '()', x) for x in o)
        elif isinstance(o, dict):
            seen[id(o)] = path
            stack.extend((path + '{}', x) for x in o.values())
        elif isinstance(o, (Envelope, email.message.Message)):
            seen[id(o)] = path
            stack.extend((path + '.' + a, v) for a, v in vars(o).items() if a != 'policy')
    return seen


def expected_recipients(case):
    """(expected under 'skip', expected under 'stop', Counter of never-matched originals, did a rule
    produce an empty result)."""
    chain = case['chain']
    flows = {}
    touched = [False] * len(case['rcpts'])
    emptied = False
    for sem in ('skip', 'stop'):
        cur = list(case['rcpts'])
        for spec in chain:
            if spec[0] != 'forward':
                continue
            for i, r in enumerate(cur):
                for rule in spec[1]:
                    new, n = _compiled(rule).subn(_repl(rule[1]), r, rule[2])
                    if n > 0:
                        touched[i] = True
                        if new == '':
                            emptied = True
            cur = [ref_forward(spec[1], r, sem) for r in cur]
        flows[sem] = cur
    if any(s[0] == 'forward' and s[1] for s in chain):
        unmatched = collections.Counter(r for r, t in zip(case['rcpts'], touched) if not t)
    else:
        unmatched = collections.Counter()
    return flows['skip'], flows['stop'], unmatched, emptied


def judge_round(case, q, st, env, exp, info):
    """One enqueue of env on q, judged.  Returns the list of (clause, what, detail)."""
    kinds = [s[0] for s in case['chain']]
    expected, expected_stop, unmatched, _ = exp
    orig_items = hdr_items(env)
    orig_body = env.message
    orig_names = [k.lower() for k, _ in orig_items]
    orig_fields = raw_fields(env.flatten()[0])
    probs = []
    st.w = []
    try:
        res = q.enqueue(env)
    except Exception as e:
        probs.append(('crash', 'enqueue raised %s' % type(e).__name__, {'exc': repr(e)[:200]}))
        return probs
    w = st.w
    info['written'] = len(w)
    info['returned'] = len(res)
    info['w'] = w
    if len(w) == 0:
        probs.append(('rcpts', 'nothing was written', {}))
        return probs
    # --- recipients: multiset conservation
    got = collections.Counter(r for _, rc in w for r in rc)
    exp_c = collections.Counter(expected)
    info['got'] = sorted(got.elements())
    if got != exp_c and got != collections.Counter(expected_stop):
        missing = sorted((exp_c - got).elements())
        extra = sorted((got - exp_c).elements())
        kind = 'altered' if missing and extra else 'lost' if missing else 'duplicated'
        if '' in extra and '' not in case['rcpts']:
            kind = 'emptied'                # an address was rewritten to the empty string
        elif (collections.Counter(missing) & unmatched):
            kind = 'unmatched-' + kind      # a recipient that matches no rule did not come out unchanged
        probs.append(('rcpts', 'recipient %s: missing %r extra %r' % (kind, missing, extra),
                      {'kind': kind, 'missing': missing, 'extra': extra, 'expected': sorted(expected),
                       'written': [rc for _, rc in w]}))
    # recipients at write time == recipients now (nothing rewrote them after the write)
    for e, rc in w:
        if list(e.recipients) != rc:
            probs.append(('rcpts', 'recipients changed after write()', {'kind': 'changed-after-write',
                          'at_write': rc, 'now': list(e.recipients)}))
            break
    info['unmatched'] = sum(unmatched.values())
    # --- sender / body / original headers
    n_recv = kinds.count('received')
    had_date = 'date' in orig_names
    had_mid = 'message-id' in orig_names
    n_app = (1 if not had_date and 'date' in kinds else 0) + (1 if not had_mid and 'mid' in kinds else 0)
    for e, _ in w:
        if e.sender != 'snd@x.test':
            probs.append(('sender', 'sender differs: %r' % (e.sender,), {}))
        try:
            hb, body = e.flatten()
        except Exception as ex:
            probs.append(('crash', 'flatten() of a written envelope raised %s' % type(ex).__name__,
                          {'kind': 'flatten', 'exc': repr(ex)[:200]}))
            continue
        if body != orig_body or e.message != orig_body:
            probs.append(('body', 'body differs', {'got': body, 'expected': orig_body}))
        items = hdr_items(e)
        n_before = len(probs)
        # --- Received first
        new_recv = items[:n_recv]
        if n_recv and not (len(new_recv) == n_recv and
                           all(k == 'Received' and v.startswith('from ') for k, v in new_recv)):
            probs.append(('received', 'the %d new Received headers are not the first headers' % n_recv,
                          {'first': items[:n_recv + 1]}))
        n_now = sum(1 for k, _ in items if k.lower() == 'received')
        n_old = sum(1 for k in orig_names if k == 'received')
        if n_now != n_old + n_recv:
            probs.append(('received', 'Received count %d, expected %d old + %d new' % (n_now, n_old, n_recv),
                          {'headers': items}))
        # --- Date / Message-Id
        for low, had, kind, clause in (('date', had_date, 'date', 'date'),
                                       ('message-id', had_mid, 'mid', 'mid')):
            vals = [v for k, v in items if k.lower() == low]
            ovals = [v for k, v in orig_items if k.lower() == low]
            if had and vals != ovals:
                probs.append((clause, '%s present in the original but now %r' % (low, vals), {'orig': ovals}))
            elif not had and kind in kinds and len(vals) != 1:
                probs.append((clause, '%s absent, policy in chain, but %d such headers' % (low, len(vals)),
                              {'headers': items}))
            elif not had and kind not in kinds and vals:
                probs.append((clause, '%s appeared although no policy adds it' % low, {'headers': items}))
        # --- original headers preserved, in order, after removing what the chain added
        rest = items[n_recv:] if n_recv and len(items) >= n_recv else items
        added = set()
        if not had_date and 'date' in kinds:
            added.add('date')
        if not had_mid and 'mid' in kinds:
            added.add('message-id')
        rest = [(k, v) for k, v in rest if k.lower() not in added]
        if rest != orig_items:
            probs.append(('orig-headers', 'original headers not preserved', {'got': rest, 'orig': orig_items}))
        elif len(probs) == n_before:
            # the same on the wire form: new Received fields, the original fields byte for byte, appended fields
            fields = raw_fields(hb)
            info['bytes_compared'] = info.get('bytes_compared', 0) + 1
            if len(fields) != n_recv + len(orig_fields) + n_app or \
                    fields[n_recv:n_recv + len(orig_fields)] != orig_fields:
                probs.append(('orig-headers', 'original header fields not preserved byte for byte',
                              {'kind': 'bytes', 'got': fields, 'orig': orig_fields}))
    # --- aliasing: object identity
    objs = [e for e, _ in w]
    if len(set(id(e) for e in objs)) != len(objs):
        probs.append(('alias', 'the same envelope object was written twice', {'how': 'same-object'}))
    else:
        # mutation probe
        for i, e in enumerate(objs):
            snaps = [snapshot(o) for o in objs]
            for what in ('recipients', 'headers', 'client'):
                if what == 'recipients':
                    e.recipients.append('ZZ@probe')
                    if len(e.recipients) > 1:
                        e.recipients[0], keep = 'YY@probe', e.recipients[0]
                elif what == 'headers':
                    e.headers['X-Probe'] = '1'
                    e.prepend_header('X-Probe-First', '2')
                else:
                    e.client['probe'] = 1
                bad = [j for j, o in enumerate(objs) if j != i and snapshot(o) != snaps[j]]
                # undo
                if what == 'recipients':
                    if len(e.recipients) > 1:
                        e.recipients[0] = keep
                    e.recipients.pop()
                elif what == 'headers':
                    del e.headers['X-Probe']
                    del e.headers['X-Probe-First']
                else:
                    del e.client['probe']
                if bad:
                    probs.append(('alias', 'changing %s of written envelope %d changed envelope %d'
                                  % (what, i, bad[0]), {'how': 'mutation/' + what}))
            if snapshot(e) != snaps[i]:
                raise RuntimeError('probe did not undo itself')
        # id()-graph walk
        owner = {}
        for i, e in enumerate(objs):
            for oid, path in mutable_ids(e).items():
                if oid in owner and owner[oid][0] != i:
                    probs.append(('alias', 'mutable object shared: %s of #%d is %s of #%d'
                                  % (owner[oid][1], owner[oid][0], path, i),
                                  {'how': 'idgraph/' + re.sub(r'[\[\]\(\)\{\}]+', '', path)}))
                    break
                owner[oid] = (i, path)
        # observation only (the statement is about the envelopes produced, not the discarded input)
        if all(env is not o for o in objs):
            info['input_shared'] = any(oid in owner for oid in mutable_ids(env))
    return probs


def evaluate(case, spy=None):
    """Run the real queue and judge.  Returns (problems, info); problems is a list of
    (clause, what, detail).  spy: dict filled with classifier evidence (calls seen by each policy)."""
    chain = case['chain']
    kinds = [s[0] for s in chain]
    info = {'written': 0, 'kinds': kinds}
    exp = expected_recipients(case)
    info['emptied'] = exp[3]
    st = Rec()
    q = Queue(st, relay=None, store_pool=case.get('pool') or None)
    pols = build_chain(case)
    if spy is not None:
        spy['pols'] = pols
        spy['calls'] = calls = []
        for p in set(pols):
            def wrapped(envelope, _p=p, _orig=p.apply):
                calls.append((id(_p), id(envelope)))
                return _orig(envelope)
            p.apply = wrapped
    for p in pols:
        q.add_policy(p)
    probs = judge_round(case, q, st, build_envelope(case), exp, info)
    first = set(c for c, _, _ in probs)
    w0 = info.get('w')
    if case.get('twice'):
        info2 = {}
        p2 = judge_round(case, q, st, build_envelope(case), exp, info2)
        info['second'] = True
        probs.extend(('reuse-' + c, what, d) for c, what, d in p2 if c not in first)
    if case.get('direct') and spy is None:
        # the other entry point, on a queue and policy objects of its own
        q2 = Queue(Rec(), relay=None)
        for p in build_chain(case):
            q2.add_policy(p)
        try:
            direct = list(q2._run_policies(build_envelope(case)))
        except Exception as e:
            direct = None
            if 'crash' not in first:
                probs.append(('direct-crash', '_run_policies raised %s' % type(e).__name__, {'exc': repr(e)[:200]}))
        if direct is not None:
            info['direct'] = True
            dgot = collections.Counter(r for e in direct for r in e.recipients)
            if 'rcpts' not in first and dgot != collections.Counter(exp[0]) and dgot != collections.Counter(exp[1]):
                probs.append(('direct-rcpts', '_run_policies result does not conserve the recipients',
                              {'got': sorted(dgot.elements()), 'expected': sorted(exp[0])}))
            if 'alias' not in first and len(set(id(e) for e in direct)) != len(direct):
                probs.append(('direct-alias', '_run_policies returned the same envelope object twice', {}))
            if not probs and w0 is not None:
                a = [(list(e.recipients), [k for k, _ in hdr_items(e)]) for e in direct]
                b = [(rc, [k for k, _ in hdr_items(e)]) for e, rc in w0]
                if a != b:
                    probs.append(('direct-vs-enqueue', 'enqueue did not write what _run_policies returns',
                                  {'direct': a, 'written': b}))
    info.pop('w', None)
    return probs, info


def clauses(probs):
    out = collections.OrderedDict()
    for p in probs:
        out.setdefault(p[0], p)
    return out


def rcpt_class(rcpts):
    c = set()
    if not rcpts:
        c.add('none')
    if len(rcpts) != len(set(rcpts)):
        c.add('dup')
    if len(rcpts) > 8:
        c.add('many')
    doms = set()
    for r in rcpts:
        if r == '':
            c.add('empty-string')
        elif '@' not in r:
            c.add('no-at')
        elif r.endswith('@'):
            c.add('empty-domain')
        else:
            doms.add(r.rsplit('@', 1)[1].lower())
            if r.count('@') > 1:
                c.add('two-at')
        if any(ord(ch) > 127 for ch in r):
            c.add('utf8')
    if len(doms) > 1:
        c.add('multi-domain')
    return '+'.join(sorted(c)) or 'plain'


def hdr_class(case):
    """Features of the original header block (a classifier over the raw fields)."""
    c = set()
    fields = header_fields(case)
    if not fields:
        return 'none'
    names = []
    for f in fields:
        for part in re.split(br'\r\n(?=[^ \t])', f.rstrip(b'\r\n')):
            first = part.split(b'\r\n')[0]
            if b':' not in first or first[:1] in (b' ', b'\t'):
                c.add('no-header-line')
                continue
            name, value = part.split(b':', 1)
            name = name.strip().lower()
            names.append(name)
            if name in (b'date', b'message-id') and not value.strip():
                c.add('empty-' + ('date' if name == b'date' else 'mid'))
            elif name not in (b'date', b'message-id') and (b'date' in name or b'message-id' in name or
                                                          b'date:' in value.lower() or
                                                          b'message-id' in value.lower()):
                c.add('look-alike')
            if b'\r\n' in part:
                c.add('folded')
            if any(b > 127 for b in part):
                c.add('8bit')
            if len(first) > 200:
                c.add('long')
    for n, lab in ((b'date', 'dup-date'), (b'message-id', 'dup-mid')):
        if names.count(n) > 1:
            c.add(lab)
    if case.get('lf'):
        c.add('bare-lf')
    return '+'.join(sorted(c)) or 'plain'


FLAG_DEFAULTS = (('twice', False), ('share', False), ('pool', None), ('client', 0), ('lf', False),
                 ('direct', False))
FLAG_NAMES = {'twice': 'second-enqueue', 'share': 'shared-policy-object', 'pool': 'store-pool',
              'client': 'sparse-client', 'lf': 'bare-lf', 'direct': None}


def shrink(case, clause):
    """Greedy witness minimisation: drop chain elements, forwarding rules, recipients and headers,
    reset the configuration flags, while the same clause still fails.  Gives the mechanism a stable,
    root-cause-shaped key."""
    cur = dict(case)
    hkey = 'hfields' if 'hfields' in cur else 'headers'

    def fails(c):
        try:
            return clause in clauses(evaluate(c)[0])
        except Exception:
            return False
    for flag, default in FLAG_DEFAULTS:
        if cur.get(flag, default) != default:
            cand = dict(cur)
            cand[flag] = default
            if fails(cand):
                cur = cand
    changed = True
    while changed:
        changed = False
        for key in ('chain', 'rcpts', hkey):
            i = 0
            while i < len(cur[key]):
                cand = dict(cur)
                cand[key] = cur[key][:i] + cur[key][i + 1:]
                if fails(cand):
                    cur = cand
                    changed = True
                else:
                    i += 1
        for ci, spec in enumerate(cur['chain']):
            if spec[0] == 'forward':
                i = 0
                while i < len(cur['chain'][ci][1]):
                    rules = cur['chain'][ci][1]
                    cand = dict(cur)
                    cand['chain'] = list(cur['chain'])
                    cand['chain'][ci] = ['forward', rules[:i] + rules[i + 1:]]
                    if fails(cand):
                        cur = cand
                        changed = True
                    else:
                        i += 1
    # replace every distinct recipient value by a plain one where the clause still fails, so that
    # the recipient class in the mechanism names only features the failure needs
    for k, v in enumerate(list(collections.OrderedDict.fromkeys(cur['rcpts']))):
        for plain in ('u%d@plain%d.test' % (k, k), 'u%d@plain.test' % k):
            cand = dict(cur)
            cand['rcpts'] = [plain if r == v else r for r in cur['rcpts']]
            if fails(cand):
                cur = cand
                break
    # the same for the header fields: a field the failure does not need as it is becomes a plain one
    if hkey == 'hfields':
        for k in range(len(cur['hfields'])):
            cand = dict(cur)
            cand['hfields'] = cur['hfields'][:k] + [b'X-Plain: v\r\n'] + cur['hfields'][k + 1:]
            if cur['hfields'][k] != b'X-Plain: v\r\n' and fails(cand):
                cur = cand
    return cur


def generator_form_mechanism(case, clause):
    """The one root cause 'the iterable a policy generates is consumed once': the clause holds when
    the generator-form policy returns the same envelopes as a list, and the monitor saw either a
    generator that yielded nothing with envelopes missing afterwards, or no later policy ever applied
    to an envelope the generator produced."""
    if not any(s[0] == 'genpeel' for s in case['chain']):
        return None
    base = clause[6:] if clause.startswith('reuse-') else clause
    alt = dict(case)
    alt['chain'] = [['peel'] if s[0] == 'genpeel' else s for s in case['chain']]
    try:
        if clause in clauses(evaluate(alt)[0]):
            return None
        spy = {}
        probs, info = evaluate(dict(case, share=False), spy)   # one object per chain position
        if clause not in clauses(probs):
            return None
    except Exception:
        return None
    pols = spy['pols']
    gens = [(i, p) for i, p in enumerate(pols) if isinstance(p, GenPeel)]
    if base == 'rcpts' and any(p.empty_calls for _, p in gens):
        pr = clauses(probs).get(clause)
        if pr is not None and (not pr[2] or pr[2].get('kind') in ('lost', 'unmatched-lost')):
            return 'generator-form-policy/empty-generator-drops-message'
    for i, p in gens:
        outs = set(id(e) for e in p.outs)
        later = set(id(x) for x in pols[i + 1:])
        if outs and later and not any(pid in later and eid in outs for pid, eid in spy['calls']):
            return 'generator-form-policy/rest-of-chain-not-applied'
    return None


def is_nontrivial(case):
    kinds = [s[0] for s in case['chain']]
    if not any(k in SPLITTERS for k in kinds):
        return False
    rc = case['rcpts']
    doms = set(r.rsplit('@', 1)[1].lower() if '@' in r else None for r in rc)
    return len(doms) >= 2 or len(rc) != len(set(rc))


def run_case(case, R):
    probs, info = evaluate(case)
    R.eval(2 if info.get('second') else 1)
    kinds = tuple(info['kinds'])
    hclass = hdr_class(case)
    rclass = rcpt_class(case['rcpts'])
    if info['written']:
        R.hit('write-recorded', info['written'])
        R.count('envelopes-written', info['written'])
        if not any(p[0] == 'crash' for p in probs):
            R.hit('rcpt-multiset-compared')
            R.hit('sender-body-compared', info['written'])
            R.hit('date-mid-judged', info['written'])
            if 'received' in kinds:
                R.hit('received-judged', info['written'])
                if case.get('client', 0):
                    R.hit('sparse-client-received-judged', info['written'])
            if info['written'] > 1:
                R.hit('alias-probed', info['written'] * 3)
                R.hit('idgraph-walked')
            if info.get('unmatched'):
                R.hit('unmatched-unchanged-judged', info['unmatched'])
            if hclass not in ('plain', 'none') and ('date' in kinds or 'mid' in kinds or 'received' in kinds):
                R.hit('odd-header-block-judged', info['written'])
            if info.get('bytes_compared'):
                R.hit('header-bytes-compared', info['bytes_compared'])
            if 'utf8' in rclass and len(kinds):
                R.hit('utf8-rcpt-judged')
            if info.get('emptied'):
                R.hit('empty-result-rule-judged')
            if any(s[0] == 'forward' and any('c' in _flags(r) for r in s[1]) for s in case['chain']):
                R.hit('compiled-pattern-judged')
            for s in case['chain']:
                if s[0] == 'forward' and len(set(r[0] for r in s[1])) < len(s[1]):
                    R.hit('same-pattern-text-rules-judged')
                    texts = [r[0] for r in s[1]]
                    R.observe('same-pattern-text-forms', tuple(sorted(
                        (_flags(r), r[2]) for r in s[1] if texts.count(r[0]) > 1)))
            if info.get('second'):
                R.hit('second-enqueue-judged')
            if info.get('direct'):
                R.hit('direct-path-compared')
            if 'genpeel' in kinds or 'tuppeel' in kinds:
                R.hit('generator-form-judged')
            if case.get('pool'):
                R.hit('store-pool-enqueue-judged')
            if case.get('share') and len(set(json.dumps(s) for s in case['chain'])) < len(kinds):
                R.hit('shared-policy-object-judged')
            if info.get('input_shared'):
                R.count('input-envelope-shares-mutable-state-with-an-output(observed,not-judged)')
    R.observe('chain-kinds', kinds)
    R.observe('chain-length-%d' % len(kinds), kinds)
    R.observe('rcpt-class', rclass)
    R.observe('hdr-class', hclass)
    R.observe('rcpt-lists', tuple(case['rcpts']))
    R.observe('written-count', info['written'])
    R.observe('config', (case.get('pool'), bool(case.get('share')), bool(case.get('twice')),
                         case.get('client', 0), bool(case.get('direct'))))
    R.observe('output-shape', (kinds, info['written'], tuple(info.get('got', ()))))
    R.count('written-%s' % ('1' if info['written'] == 1 else '2-3' if info['written'] <= 3 else '4+'))
    if is_nontrivial(case):
        R.nontrivial((kinds, tuple(case['rcpts'])))
        if info['written'] > 2 and not probs and sorted(case['rcpts']) != info['got']:
            R.sample({'chain': case['chain'], 'rcpts': case['rcpts'], 'written_recipients': info['got'],
                      'envelopes_written': info['written']})
    for clause, (_, what, detail) in clauses(probs).items():
        gm = generator_form_mechanism(case, clause)
        if gm:
            R.violation(gm, what, {'clause': clause, 'detail': detail})
            continue
        small = shrink(case, clause)
        gm = generator_form_mechanism(small, clause)
        if gm:
            R.violation(gm, what, {'clause': clause, 'shrunk_case': small, 'detail': detail})
            continue
        sp = clauses(evaluate(small)[0]).get(clause, (clause, what, detail))
        skinds = '+'.join(s[0] for s in small['chain']) or 'empty-chain'
        sub = ''
        if isinstance(sp[2], dict):
            sub = sp[2].get('kind') or sp[2].get('how') or ''
        mech = '%s%s/%s' % (clause, '-' + sub if sub else '', skinds)
        base = clause[6:] if clause.startswith('reuse-') else clause
        if base in ('rcpts', 'crash', 'direct-rcpts', 'direct-crash'):
            mech += '/rcpts-' + rcpt_class(small['rcpts'])
        if any(sp_[0] == 'forward' and len(set(r[0] for r in sp_[1])) < len(sp_[1]) for sp_ in small['chain']):
            mech += '/same-pattern-text-rules'       # the failure needs two rules with one pattern text
        if header_fields(small) and hdr_class(small) != 'plain':
            mech += '/hdr-' + hdr_class(small)       # the failure needs an odd header block
        for flag, default in FLAG_DEFAULTS:
            if small.get(flag, default) != default and FLAG_NAMES[flag] and \
                    not (flag == 'twice' and clause.startswith('reuse-')) and \
                    not (flag == 'lf' and header_fields(small)):
                mech += '/' + FLAG_NAMES[flag]
        R.violation(mech, sp[1], {'shrunk_case': small, 'shrunk_detail': sp[2], 'original_what': what,
                                  'original_detail': detail})
