"""C16 -- queue policies conserve recipients and content.

The real ``slimta.queue.Queue(store=<recording DictStorage>, relay=None)`` runs a generated
chain of the real built-in policies on a generated envelope; the monitor records every
envelope handed to ``QueueStorage.write`` during that one ``enqueue`` call.

Events that refute (each is an oracle clause, see ``judge``):
  rcpts        multiset of recipients over the written envelopes != multiset of the expected
               (rewritten) recipients; the expected rewriting is ``ref_forward`` below, an
               independent restatement of "first matching rule wins"
  sender/body  a written envelope with another sender or another body
  orig-headers an original header missing / altered / reordered in a written envelope
  date/mid     Date / Message-Id added although present, or missing although absent and the
               policy is in the chain, or present although nobody should have added it
  received     the n new Received headers are not the first n headers
  alias        mutating recipients / headers / client of one written envelope changes another;
               id()-graph walk finds a mutable object reachable from two written envelopes;
               the same envelope object written twice
  crash        enqueue raised
"""
import re
import random
import itertools
import collections
import email.message

from slimta.queue import Queue
from slimta.queue.dict import DictStorage
from slimta.envelope import Envelope
from slimta.policy import QueuePolicy
from slimta.policy.split import RecipientSplit, RecipientDomainSplit
from slimta.policy.forward import Forward
from slimta.policy.headers import AddDateHeader, AddMessageIdHeader, AddReceivedHeader

PROPERTY = 'C16'
LEVEL = 'exploration'
LEVEL_TEXT = ('Real Queue._run_policies/enqueue with the real built-in policies and a recording DictStorage: '
              'every chain of length <= 3 (quick) / <= 4 (thorough) over 9 policy kinds, each with several '
              'seeded recipient lists / forwarding rule sets / header blocks, plus seeded random chains of '
              'length 0..5; conservation, header and aliasing clauses judged on every enqueue. Held = held on '
              'the enqueues reported, not a proof for longer chains or other rule sets.')
LEVEL_NOTE = ('Trusted: the recording wrapper (3 lines), ref_forward (6 lines, uses re.subn like the '
              'implementation but its own control flow), the multiset/ header/ aliasing comparisons.')
TECHNIQUE = ('runtime monitoring: record envelopes reaching QueueStorage.write for one enqueue; multiset '
             'conservation oracle + mutation/aliasing probe + id()-graph walk; witnesses are shrunk before '
             'classification')
RULE = ('case = (chain of policy specs, recipient list, original header block, body); one enqueue on a fresh '
        'real Queue = one evaluation. Chains: exhaustive over 9 kinds {split, domsplit, forward(rule set), '
        'date, mid, received, ident(returns [env]), none(returns None), peel(returns [env, copy] after moving '
        'one recipient)} up to the tier length, then seeded random length 0..5. Recipients: 0..8 drawn with '
        'replacement from a small pool (duplicates, mixed-case domains, no "@", empty domain, two "@", up to '
        '8 domains). Forward rules drawn from a pool whose replacements can never be empty. non-trivial & '
        'distinct = distinct (chain kinds, recipient list) whose chain has >= 1 split/domsplit/peel and whose '
        'recipient list has >= 2 distinct lower-cased domains or a duplicate')
ASSUMPTIONS = ['generated forwarding rules never produce an empty replacement (documented behaviour and the '
               'implementation\'s "non-empty result" condition cannot disagree)',
               'the storage backend is DictStorage, which stores the envelope object it is given (so the '
               'objects recorded at write() are the ones the queue would later relay)',
               'the policy object email.policy.SMTP referenced by every header block is treated as immutable '
               'and not followed by the id()-graph walk']
REQUIRED_HITS = ['write-recorded', 'rcpt-multiset-compared', 'sender-body-compared', 'alias-probed',
                 'idgraph-walked', 'date-mid-judged', 'received-judged', 'unmatched-unchanged-judged']
SHARDS = {'quick': 8, 'thorough': 16}
BUDGET = {'quick': 45, 'thorough': 800}

KINDS = ['split', 'domsplit', 'forward', 'date', 'mid', 'received', 'ident', 'none', 'peel']
EXH_LEN = {'quick': 3, 'thorough': 4}
PER_CHAIN = {'quick': 6, 'thorough': 12}
NRANDOM = {'quick': 24000, 'thorough': 250000}

# (pattern, replacement, count).  No replacement can make the whole recipient empty:
# every replacement text contains at least one literal character.
RULE_POOL = [
    (r'^(.*)@old\.test$', r'\1@new.test', 0),
    (r'^alias@', 'real@', 0),
    (r'@D1\.test$', '@d2.test', 0),
    (r'^x', 'y', 0),
    (r'(?i)@d3\.test$', '@D1.test', 0),
    (r'a', 'bb', 1),
    (r'a', 'bb', 0),
    (r'^nodomain(\d)$', r'nd\1@fixed.test', 0),
    (r'@$', '@filled.test', 0),
    (r'@', '@', 0),                    # matches, result identical: must still stop the search
    (r'@[a-z0-9.]+$', 'FN:upper', 0),  # function replacement
    (r'^(.+)@e(\d)\.test$', r'\1+e\2@old.test', 0),
    (r'^never-matches-anything$', 'zz@zz.test', 0),
]
LOCALS = ['a', 'b', 'alias', 'x1', 'c', 'A', 'a@b']
DOMAINS = ['d1.test', 'D1.test', 'old.test', 'd3.test', 'D3.Test', '', 'e1.test', 'e2.test', 'e3.test',
           'E1.TEST', 'e4.test', 'e5.test']
DATE_NAMES = ['Date', 'date', 'DATE']
MID_NAMES = ['Message-Id', 'Message-ID', 'message-id']


def _fn_upper(m):
    return m.group(0).upper()


def _repl(r):
    return _fn_upper if r == 'FN:upper' else r


class Ident(QueuePolicy):
    def apply(self, envelope):
        return [envelope]


class NoneP(QueuePolicy):
    def apply(self, envelope):
        return None


class Peel(QueuePolicy):
    """A user policy that returns the input envelope among its outputs: moves the last recipient
    into a copy of its own.  Conserves recipients by construction."""
    def apply(self, envelope):
        if len(envelope.recipients) < 2:
            return None
        last = envelope.recipients.pop()
        return [envelope, envelope.copy([last])]


class Rec(DictStorage):
    """The monitor: records what reaches QueueStorage.write."""
    def __init__(self):
        super(Rec, self).__init__()
        self.w = []

    def write(self, envelope, timestamp):
        self.w.append((envelope, list(envelope.recipients)))
        return super(Rec, self).write(envelope, timestamp)


def ref_forward(rules, rcpt):
    """Independent restatement of Forward: the first rule that matches rewrites, nothing else does."""
    for pat, repl, count in rules:
        new, n = re.compile(pat).subn(_repl(repl), rcpt, count)
        if n > 0:
            return new
    return rcpt


# ------------------------------------------------------------------ generation

def mk_rcpt(rnd):
    if rnd.random() < 0.12:
        return 'nodomain%d' % rnd.randrange(3)
    return rnd.choice(LOCALS) + '@' + rnd.choice(DOMAINS)


def mk_rcpts(rnd):
    n = rnd.choice([0, 1, 1, 2, 2, 3, 3, 4, 5, 6, 7, 8])
    pool = [mk_rcpt(rnd) for _ in range(rnd.choice([1, 2, 3, 5, 8, 8]))]
    return [rnd.choice(pool) for _ in range(n)]


def mk_headers(rnd):
    h = []
    if rnd.random() < 0.1:
        return h
    for _ in range(rnd.choice([0, 0, 1, 2])):
        h.append(['Received', 'old hop %d' % rnd.randrange(9)])
    h.append(['Subject', 's %d' % rnd.randrange(99)])
    if rnd.random() < 0.5:
        h.append([rnd.choice(DATE_NAMES), 'keep-date'])
    if rnd.random() < 0.5:
        h.append([rnd.choice(MID_NAMES), '<keep@x>'])
    if rnd.random() < 0.3:
        h.append(['X-Tra', 'v'])
    rnd.shuffle(h)
    return h


def mk_spec(kind, rnd):
    if kind == 'forward':
        rules = [list(r) for r in rnd.sample(RULE_POOL, rnd.choice([0, 1, 1, 2, 3, 4]))]
        return ['forward', rules]
    return [kind]


def mk_case(kinds, rnd, origin):
    return {'chain': [mk_spec(k, rnd) for k in kinds], 'rcpts': mk_rcpts(rnd), 'headers': mk_headers(rnd),
            'body': rnd.choice([b'body \xff\r\n', b'', b'l1\r\n.\r\nl3', b'\r\n\r\nx\r\n']), 'origin': origin}


def gen_cases(tier, seed, shard, nshards):
    n = 0
    for L in range(0, EXH_LEN[tier] + 1):
        for kinds in itertools.product(KINDS, repeat=L):
            for rep in range(PER_CHAIN[tier]):
                if n % nshards == shard:
                    rnd = random.Random('c16-%d-%s-%d' % (seed, ','.join(kinds), rep))
                    yield mk_case(kinds, rnd, 'exh')
                n += 1
    rnd = random.Random('c16r-%d-%d' % (seed, shard))
    for _ in range(NRANDOM[tier] // nshards):
        kinds = [rnd.choice(KINDS) for _ in range(rnd.randrange(0, 6))]
        yield mk_case(kinds, rnd, 'rand')


# ------------------------------------------------------------------ running the real code

def build_policy(spec):
    k = spec[0]
    if k == 'split':
        return RecipientSplit()
    if k == 'domsplit':
        return RecipientDomainSplit()
    if k == 'forward':
        f = Forward()
        for pat, repl, count in spec[1]:
            f.add_mapping(pat, _repl(repl), count)
        return f
    if k == 'date':
        return AddDateHeader()
    if k == 'mid':
        return AddMessageIdHeader('verif.test')
    if k == 'received':
        return AddReceivedHeader()
    if k == 'ident':
        return Ident()
    if k == 'none':
        return NoneP()
    if k == 'peel':
        return Peel()
    raise ValueError(k)


def build_envelope(case):
    raw = b''.join(('%s: %s\r\n' % (n, v)).encode('ascii') for n, v in case['headers'])
    env = Envelope('snd@x.test', list(case['rcpts']))
    env.parse(raw + b'\r\n' + case['body'])
    env.receiver = 'me.test'
    env.timestamp = 1234567890.0
    env.client = {'ip': '192.0.2.1', 'name': 'c.test', 'host': 'h.test', 'protocol': 'ESMTP', 'auth': None}
    return env


def hdr_items(env):
    return [(str(k), str(v)) for k, v in env.headers.items()]


def snapshot(env):
    return (list(env.recipients), hdr_items(env), dict(env.client), env.sender, env.message)


def mutable_ids(env):
    """ids of the mutable objects reachable from an envelope (not through the shared policy)."""
    seen = {}
    stack = [('env', env)]
    while stack:
        path, o = stack.pop()
        if o is None or isinstance(o, (str, bytes, int, float, bool, type)):
            continue
        if id(o) in seen:
            continue
        if isinstance(o, (list, set, bytearray)):
            seen[id(o)] = path
            stack.extend((path + '[]', x) for x in o)
        elif isinstance(o, tuple):
            stack.extend((path + '()', x) for x in o)
        elif isinstance(o, dict):
            seen[id(o)] = path
            stack.extend((path + '{}', x) for x in o.values())
        elif isinstance(o, (Envelope, email.message.Message)):
            seen[id(o)] = path
            stack.extend((path + '.' + a, v) for a, v in vars(o).items() if a != 'policy')
    return seen


def evaluate(case):
    """Run the real queue once and judge.  Returns (problems, info); problems is a list of
    (clause, what, detail)."""
    chain = case['chain']
    kinds = [s[0] for s in chain]
    env = build_envelope(case)
    orig_items = hdr_items(env)
    orig_body = env.message
    orig_names = [k.lower() for k, _ in orig_items]
    st = Rec()
    q = Queue(st, relay=None)
    for spec in chain:
        q.add_policy(build_policy(spec))
    # expected rewriting, and which input recipients no rule of any Forward ever matches
    expected = list(case['rcpts'])
    touched = [False] * len(expected)
    for spec in chain:
        if spec[0] == 'forward':
            for i, r in enumerate(expected):
                if any(re.compile(p).search(r) for p, _, _ in spec[1]):
                    touched[i] = True
            expected = [ref_forward(spec[1], r) for r in expected]
    unmatched = collections.Counter(r for r, t in zip(case['rcpts'], touched) if not t) \
        if any(s[0] == 'forward' and s[1] for s in chain) else collections.Counter()
    probs = []
    info = {'written': 0, 'kinds': kinds}
    try:
        res = q.enqueue(env)
    except Exception as e:
        probs.append(('crash', 'enqueue raised %s' % type(e).__name__, {'exc': repr(e)[:200]}))
        return probs, info
    w = st.w
    info['written'] = len(w)
    info['returned'] = len(res)
    if len(w) == 0:
        probs.append(('rcpts', 'nothing was written', {}))
        return probs, info
    # --- recipients: multiset conservation
    got = collections.Counter(r for _, rc in w for r in rc)
    exp = collections.Counter(expected)
    info['got'] = sorted(got.elements())
    if got != exp:
        missing = sorted((exp - got).elements())
        extra = sorted((got - exp).elements())
        kind = 'altered' if missing and extra else 'lost' if missing else 'duplicated'
        if (collections.Counter(missing) & unmatched):
            kind = 'unmatched-' + kind      # a recipient that matches no rule did not come out unchanged
        probs.append(('rcpts', 'recipient %s: missing %r extra %r' % (kind, missing, extra),
                      {'kind': kind, 'missing': missing, 'extra': extra, 'expected': sorted(expected),
                       'written': [rc for _, rc in w]}))
    # recipients at write time == recipients now (nothing rewrote them after the write)
    for e, rc in w:
        if list(e.recipients) != rc:
            probs.append(('rcpts', 'recipients changed after write()', {'kind': 'changed-after-write',
                          'at_write': rc, 'now': list(e.recipients)}))
            break
    info['unmatched'] = sum(unmatched.values())
    # --- sender / body / original headers
    n_recv = kinds.count('received')
    had_date = 'date' in orig_names
    had_mid = 'message-id' in orig_names
    for e, _ in w:
        if e.sender != 'snd@x.test':
            probs.append(('sender', 'sender differs: %r' % (e.sender,), {}))
        hb, body = e.flatten()
        if body != orig_body or e.message != orig_body:
            probs.append(('body', 'body differs', {'got': body, 'expected': orig_body}))
        items = hdr_items(e)
        # --- Received first
        new_recv = items[:n_recv]
        if n_recv and not (len(new_recv) == n_recv and
                           all(k == 'Received' and v.startswith('from ') for k, v in new_recv)):
            probs.append(('received', 'the %d new Received headers are not the first headers' % n_recv,
                          {'first': items[:n_recv + 1]}))
        n_now = sum(1 for k, _ in items if k.lower() == 'received')
        n_old = sum(1 for k in orig_names if k == 'received')
        if n_now != n_old + n_recv:
            probs.append(('received', 'Received count %d, expected %d old + %d new' % (n_now, n_old, n_recv),
                          {'headers': items}))
        # --- Date / Message-Id
        for low, had, kind, clause in (('date', had_date, 'date', 'date'),
                                       ('message-id', had_mid, 'mid', 'mid')):
            vals = [v for k, v in items if k.lower() == low]
            ovals = [v for k, v in orig_items if k.lower() == low]
            if had and vals != ovals:
                probs.append((clause, '%s present in the original but now %r' % (low, vals), {'orig': ovals}))
            elif not had and kind in kinds and len(vals) != 1:
                probs.append((clause, '%s absent, policy in chain, but %d such headers' % (low, len(vals)),
                              {'headers': items}))
            elif not had and kind not in kinds and vals:
                probs.append((clause, '%s appeared although no policy adds it' % low, {'headers': items}))
        # --- original headers preserved, in order, after removing what the chain added
        rest = items[n_recv:] if n_recv and len(items) >= n_recv else items
        added = set()
        if not had_date and 'date' in kinds:
            added.add('date')
        if not had_mid and 'mid' in kinds:
            added.add('message-id')
        rest = [(k, v) for k, v in rest if k.lower() not in added]
        if rest != orig_items:
            probs.append(('orig-headers', 'original headers not preserved', {'got': rest, 'orig': orig_items}))
    # --- aliasing: object identity
    objs = [e for e, _ in w]
    if len(set(id(e) for e in objs)) != len(objs):
        probs.append(('alias', 'the same envelope object was written twice', {'how': 'same-object'}))
    else:
        # mutation probe
        for i, e in enumerate(objs):
            snaps = [snapshot(o) for o in objs]
            for what in ('recipients', 'headers', 'client'):
                if what == 'recipients':
                    e.recipients.append('ZZ@probe')
                    if len(e.recipients) > 1:
                        e.recipients[0], keep = 'YY@probe', e.recipients[0]
                elif what == 'headers':
                    e.headers['X-Probe'] = '1'
                    e.prepend_header('X-Probe-First', '2')
                else:
                    e.client['probe'] = 1
                bad = [j for j, o in enumerate(objs) if j != i and snapshot(o) != snaps[j]]
                # undo
                if what == 'recipients':
                    if len(e.recipients) > 1:
                        e.recipients[0] = keep
                    e.recipients.pop()
                elif what == 'headers':
                    del e.headers['X-Probe']
                    del e.headers['X-Probe-First']
                else:
                    del e.client['probe']
                if bad:
                    probs.append(('alias', 'changing %s of written envelope %d changed envelope %d'
                                  % (what, i, bad[0]), {'how': 'mutation/' + what}))
            if snapshot(e) != snaps[i]:
                raise RuntimeError('probe did not undo itself')
        # id()-graph walk
        owner = {}
        for i, e in enumerate(objs):
            for oid, path in mutable_ids(e).items():
                if oid in owner and owner[oid][0] != i:
                    probs.append(('alias', 'mutable object shared: %s of #%d is %s of #%d'
                                  % (owner[oid][1], owner[oid][0], path, i),
                                  {'how': 'idgraph/' + re.sub(r'[\[\]\(\)\{\}]+', '', path)}))
                    break
                owner[oid] = (i, path)
    return probs, info


def clauses(probs):
    out = collections.OrderedDict()
    for p in probs:
        out.setdefault(p[0], p)
    return out


def rcpt_class(rcpts):
    c = set()
    if not rcpts:
        c.add('none')
    if len(rcpts) != len(set(rcpts)):
        c.add('dup')
    doms = set()
    for r in rcpts:
        if '@' not in r:
            c.add('no-at')
        elif r.endswith('@'):
            c.add('empty-domain')
        else:
            doms.add(r.rsplit('@', 1)[1].lower())
            if r.count('@') > 1:
                c.add('two-at')
    if len(doms) > 1:
        c.add('multi-domain')
    return '+'.join(sorted(c)) or 'plain'


def shrink(case, clause):
    """Greedy witness minimisation: drop chain elements, forwarding rules, recipients and headers
    while the same clause still fails.  Gives the mechanism a stable, root-cause-shaped key."""
    cur = dict(case)

    def fails(c):
        try:
            return clause in clauses(evaluate(c)[0])
        except Exception:
            return False
    changed = True
    while changed:
        changed = False
        for key in ('chain', 'rcpts', 'headers'):
            i = 0
            while i < len(cur[key]):
                cand = dict(cur)
                cand[key] = cur[key][:i] + cur[key][i + 1:]
                if fails(cand):
                    cur = cand
                    changed = True
                else:
                    i += 1
        for ci, spec in enumerate(cur['chain']):
            if spec[0] == 'forward':
                i = 0
                while i < len(cur['chain'][ci][1]):
                    rules = cur['chain'][ci][1]
                    cand = dict(cur)
                    cand['chain'] = list(cur['chain'])
                    cand['chain'][ci] = ['forward', rules[:i] + rules[i + 1:]]
                    if fails(cand):
                        cur = cand
                        changed = True
                    else:
                        i += 1
    # replace every distinct recipient value by a plain one where the clause still fails, so that
    # the recipient class in the mechanism names only features the failure needs
    for k, v in enumerate(list(collections.OrderedDict.fromkeys(cur['rcpts']))):
        for plain in ('u%d@plain%d.test' % (k, k), 'u%d@plain.test' % k):
            cand = dict(cur)
            cand['rcpts'] = [plain if r == v else r for r in cur['rcpts']]
            if fails(cand):
                cur = cand
                break
    return cur


def is_nontrivial(case):
    kinds = [s[0] for s in case['chain']]
    if not any(k in ('split', 'domsplit', 'peel') for k in kinds):
        return False
    rc = case['rcpts']
    doms = set(r.rsplit('@', 1)[1].lower() if '@' in r else None for r in rc)
    return len(doms) >= 2 or len(rc) != len(set(rc))


def run_case(case, R):
    probs, info = evaluate(case)
    R.eval()
    kinds = tuple(info['kinds'])
    if info['written']:
        R.hit('write-recorded', info['written'])
        R.count('envelopes-written', info['written'])
        if not any(p[0] == 'crash' for p in probs):
            R.hit('rcpt-multiset-compared')
            R.hit('sender-body-compared', info['written'])
            R.hit('date-mid-judged', info['written'])
            if 'received' in kinds:
                R.hit('received-judged', info['written'])
            if info['written'] > 1:
                R.hit('alias-probed', info['written'] * 3)
                R.hit('idgraph-walked')
            if info.get('unmatched'):
                R.hit('unmatched-unchanged-judged', info['unmatched'])
    R.observe('chain-kinds', kinds)
    R.observe('chain-length-%d' % len(kinds), kinds)
    R.observe('rcpt-class', rcpt_class(case['rcpts']))
    R.observe('rcpt-lists', tuple(case['rcpts']))
    R.observe('written-count', info['written'])
    R.observe('output-shape', (kinds, info['written'], tuple(info.get('got', ()))))
    R.count('written-%s' % ('1' if info['written'] == 1 else '2-3' if info['written'] <= 3 else '4+'))
    if is_nontrivial(case):
        R.nontrivial((kinds, tuple(case['rcpts'])))
        if info['written'] > 2 and not probs and sorted(case['rcpts']) != info['got']:
            R.sample({'chain': case['chain'], 'rcpts': case['rcpts'], 'written_recipients': info['got'],
                      'envelopes_written': info['written']})
    for clause, (_, what, detail) in clauses(probs).items():
        small = shrink(case, clause)
        sp = clauses(evaluate(small)[0]).get(clause, (clause, what, detail))
        skinds = '+'.join(s[0] for s in small['chain']) or 'empty-chain'
        sub = ''
        if isinstance(sp[2], dict):
            sub = sp[2].get('kind') or sp[2].get('how') or ''
        mech = '%s%s/%s' % (clause, '-' + sub if sub else '', skinds)
        if clause in ('rcpts', 'crash'):
            mech += '/rcpts-' + rcpt_class(small['rcpts'])
        R.violation(mech, sp[1], {'shrunk_case': small, 'shrunk_detail': sp[2], 'original_what': what,
                                  'original_detail': detail})
