"""C17 -- replies survive the wire: Reply.send/IO.send_reply -> bytes -> Reply.recv/IO.recv_reply.

Events that refute
  round trip : (code, text) parsed != (code, text) written under some segmentation; the parser asks for
               more input (WouldBlock) or raises while a complete library-written reply is buffered;
               bytes after the reply (pipelined successor, partial successor) consumed or damaged;
               enhanced-status class != reply-code class (on the wire and on the parsed object).
  malformed  : for every byte string over a small alphabet the real IO.recv_reply is compared, call by
               call, with a ~25-line reference parser: well-formed prefix <=> the same reply is returned
               and exactly its bytes are consumed; a decisive malformed line (different code inside a
               multi-line reply, non-numeric code / no separator, invalid UTF-8 in a completed reply)
               => BadReply; anything else incomplete => the parser must ask for more (WouldBlock on the
               scripted socket, ConnectionLost at EOF) and must not return a partial reply.

The real IO and Reply classes run unmodified on vf.sock.ScriptSocket.
"""
import re
import random
import itertools

from vf.sock import ScriptSocket, WouldBlock, segmentations, cut
from slimta.smtp.io import IO
from slimta.smtp.reply import Reply
from slimta.smtp import BadReply, ConnectionLost

PROPERTY = 'C17'
LEVEL = 'exploration'
LEVEL_TEXT = ('Real Reply.send/IO.send_reply and Reply.recv/IO.recv_reply run on a scripted socket: every code '
              '200..599 x a directed text list (Unicode incl. astral, embedded CR/LF/CRLF, enhanced-status-looking '
              'prefixes of every class, empty inner lines, trailing blanks), seeded random sequences of 1..3 '
              'concatenated replies with trailers, each under whole/bytewise/every single cut/pairs of cuts '
              'around reply boundaries/seeded segmentations; plus EVERY byte string over '
              '{2,5,x,-,SP,CR,LF,0xFF} up to length 7 (quick) / 8 (thorough) compared call-by-call with a '
              'reference reply parser. Held = held on the evaluations reported; not a proof for longer inputs.')
LEVEL_NOTE = ('Trusted: ScriptSocket, the reference parser ref_parse() (25 lines), norm() (LF->CRLF), the ESC '
              'regular expression used on the wire.')
TECHNIQUE = ('runtime monitoring: round-trip identity + exact-consumption oracle; differential comparison with a '
             'reference parser over an exhaustive small-alphabet input space')
RULE = ('three case kinds. dir: one (code, text) for every code 200..599 x every directed text; rand: seeded '
        'sequence of 1..3 replies (random code 200..599, text built from a token pool) + trailer; for both every '
        'segmentation of the wire (all 2^(n-1) when <= 9 bytes, else whole, bytewise, every single cut, pairs of '
        'cuts within +-3 of each reply boundary, seeded random; long wires: whole + seeded only) is one '
        'evaluation. mal: every byte string over the 8-symbol alphabet up to the tier bound, grouped by 3-byte '
        'prefix; each string x (all segmentations when <= 5 bytes, else whole, bytewise, 1 seeded) x EOF variant '
        'for unfinished inputs (whole and bytewise) is one evaluation. lines: every sequence of up to 3 (quick) / '
        '4 (thorough) of 13 '
        'whole-line shapes (good final/continuation lines of two codes, invalid UTF-8, non-numeric code, code '
        'only, no separator, empty line, split multi-byte character, unterminated tails) x whole/bytewise/every '
        'single cut/pairs around line ends/seeded. non-trivial & distinct = distinct (codes, texts) with a '
        'multi-line text, an ESC prefix whose class differs from the code, or a pipelined successor; and '
        'distinct malformed strings holding at least one complete line')
ASSUMPTIONS = ['ScriptSocket hands out exactly the scripted segments (recv(n) never returns more than n)',
               'a line ends at LF, one preceding CR belongs to the terminator (what the library documents and '
               'its own writer produces); bare CR is text',
               'texts are str without lone surrogates; first line does not start with white space (statement)',
               'reply lines consisting of the code only ("250" CRLF, valid in RFC 5321 but never written by the '
               'library) and numeric codes outside 1xx-5xx are recorded, not judged',
               'invalid UTF-8 is judged when the reply is complete (the parser may decode at the end)']
REQUIRED_HITS = ['roundtrip-compared', 'successor-compared', 'esc-class-compared', 'malformed-judged',
                 'malformed-badreply-confirmed', 'malformed-pending-confirmed']
SHARDS = {'quick': 16, 'thorough': 16}
BUDGET = {'quick': 60, 'thorough': 900}
EXHAUSTIVE = {'quick': False, 'thorough': False}

MAL_ALPHA = [b'2', b'5', b'x', b'-', b' ', b'\r', b'\n', b'\xff']
MAL_BOUND = {'quick': 7, 'thorough': 8}
NRANDOM = {'quick': 6000, 'thorough': 200000}
PREFIX = 3
# second malformed space: every sequence of whole-line shapes (the named malformations need two complete lines,
# which the byte alphabet cannot reach within its length bound)
LINE_TOKENS = [b'222 x\r\n', b'222-x\r\n', b'555 y\n', b'555-y\n', b'222 \xff\r\n', b'222-\xff\n', b'2x2 z\r\n',
               b'222\r\n', b'222x\r\n', b'\r\n', b'222-\xc3\xa9\r\n', b'222 p', b'55']
LINES_BOUND = {'quick': 3, 'thorough': 4}

DIRECTED = [
    '', 'OK', 'two\r\nlines', 'a\nb', 'a\rb', 'a\r\r\nb', 'x\r\n\r\ny', 'x\n\n\ny', 'trail  ', 'trail\t',
    'end\r\n', 'end\n', 'end\r', 'end\r\n\r\n', 'é ü', '日本語',
    'astral \U0001F600\U00010000\U0010FFFF', 'ls\u2028x\u2029y', 'a\x85b', 'a\x0bb\x0cc', 'a\x00b',
    '2.0.0 ok', '4.2.0 later', '5.1.1 no', '2.0.0 5.1.1 both', '5.1.1 2.0.0 both', '2.1.5\tTab',
    '2.0.0\r\nnext', '2.0.0  \r\n', '2.0.0 ', '5.7.1', '3.0.0 x', '1.2.3 x', '2.1000.0 x', '2.0.0 2.1.0 x',
    '4.0.0 4.1.0 4.2.0 x', '5.999.999 max', '2.0.0 two\r\n2.1.0 second', '250 looks like code',
    '250-x\r\n250 y', '-dash', 'x\r\n2.0.0 inner', 'x\r\n.\r\ny', '2.٣.0 arabic-digit',
    'x\r\n  indented\r\n\ttab', 'three\r\nline\r\ntext', 'w' * 70 + '\r\n' + 'v' * 70,
]
TOKENS = ['a', 'b', 'OK', ' ', '  ', '\t', '\r', '\n', '\r\n', '\r\n', '\r\n\r\n', '2.0.0 ', '5.1.1 ', '4.2.2 ',
          '2.1.5\t', '4.', '3.0.0 ', '5.7.1\r\n', 'é', '\U0001F600', '日', '-', '.', '250 ', '250-',
          '\x00', '\x85', '2.0.0', 'x y']
TRAILERS = [b'', b'', b'250-pa', b'x', b'5', b'\r']
LONG = 'L' * 4090 + '\r\n2.0.0 ' + 'é' * 3000

ESC_WIRE = re.compile(r'^([245])\.\d{1,3}\.\d{1,3}(?:\s|$)')
ESC_LOOK = re.compile(r'^[245]\.\d\d?\d?\.\d\d?\d?\s')


def norm(m):
    return re.sub(r'\r?\n', '\r\n', m)


# ------------------------------------------------------------------ reference parser
def ref_parse(s):
    """Reference reading of a byte stream as a sequence of SMTP replies.
    Returns a list of events, the last of which is never ('reply', ...):
       ('reply', code, text, end)   a complete well-formed reply ending at offset end
       ('bad', cls, end)            decisive malformed line (cls: non-numeric-code | bad-separator |
                                    code-mismatch | invalid-utf8)
       ('unjudged', cls, end)       code-only line / numeric code outside 1xx..5xx
       ('pending', dirty)           nothing decisive buffered; dirty = complete lines of the unfinished
                                    reply hold invalid UTF-8 (early BadReply tolerated)"""
    ev, code, texts, pos = [], None, [], 0
    while True:
        i = s.find(b'\n', pos)
        if i < 0:
            break
        line, pos = s[pos:i], i + 1
        if line.endswith(b'\r'):
            line = line[:-1]
        if len(line) < 3 or not line[:3].isdigit():
            return ev + [('bad', 'non-numeric-code', pos)]
        if len(line) == 3:
            return ev + [('unjudged', 'code-only-line', pos)]
        sep = line[3:4]
        if sep not in (b' ', b'-'):
            return ev + [('bad', 'bad-separator', pos)]
        if code is not None and line[:3] != code:
            return ev + [('bad', 'code-mismatch', pos)]
        code = line[:3]
        texts.append(line[4:])
        if sep == b' ':
            try:
                text = b'\r\n'.join(texts).decode('utf-8')
            except UnicodeDecodeError:
                return ev + [('bad', 'invalid-utf8', pos)]
            if code[:1] not in b'12345':
                return ev + [('unjudged', 'code-out-of-range', pos)]
            ev.append(('reply', code.decode('ascii'), text, pos))
            code, texts = None, []
    dirty = False
    try:
        b'\r\n'.join(texts).decode('utf-8')
    except UnicodeDecodeError:
        dirty = True
    return ev + [('pending', dirty)]


# ------------------------------------------------------------------ generators
def gen_cases(tier, seed, shard, nshards):
    n = 0
    for total in range(0, LINES_BOUND[tier] + 1):
        for first in (range(len(LINE_TOKENS)) if total else [None]):
            if n % nshards == shard:
                yield {'kind': 'lines', 'first': first, 'total': total, 'rs': seed * 7919 + n}
            n += 1
    for s in (b'600 x\r\n', b'099 x\r\n', b'000-a\r\n000 b\r\n', b'999 \r\n', b'250\r\n', b'250-a\r\n250\r\n'):
        if n % nshards == shard:
            yield {'kind': 'unj', 'stream': s}
        n += 1
    for code in range(200, 600):
        for t in DIRECTED:
            if n % nshards == shard:
                yield {'kind': 'dir', 'replies': [[str(code), t]], 'trailer': b'', 'rs': code}
            n += 1
    for code in (250, 354, 451, 550):
        if n % nshards == shard:
            yield {'kind': 'long', 'replies': [[str(code), LONG], ['250', 'next']], 'trailer': b'', 'rs': code}
        n += 1
    rnd = random.Random('c17-%d-%d' % (seed, shard))
    for i in range(NRANDOM[tier] // nshards):
        reps = []
        for _ in range(rnd.choice([1, 2, 2, 3])):
            code = str(rnd.randrange(200, 600))
            while True:
                t = ''.join(rnd.choice(TOKENS) for _ in range(rnd.randrange(0, 9)))
                if not t[:1].isspace():
                    break
            reps.append([code, t])
        yield {'kind': 'rand', 'replies': reps, 'trailer': rnd.choice(TRAILERS), 'rs': rnd.randrange(1 << 30)}
    # exhaustive byte-alphabet space last, shortest strings first: a budget cut only ever trims its tail
    for total in range(0, MAL_BOUND[tier] + 1):
        for pre in itertools.product(MAL_ALPHA, repeat=min(total, PREFIX)):
            if n % nshards == shard:
                yield {'kind': 'mal', 'prefix': b''.join(pre), 'total': total, 'rs': seed * 1000003 + n}
            n += 1


# ------------------------------------------------------------------ round trip
def text_class(code, sent, got=None):
    """Input class of a written message (for shapes and for the mechanism of a text mismatch). The 1xx/3xx
    class is only used for a mismatch when the parsed text is exactly the written one minus its leading
    ESC-looking token, so that another defect on such inputs keeps its own mechanism."""
    if code[0] not in '245' and ESC_LOOK.match(sent):
        if got is None or got == re.sub(r'^[245]\.\d\d?\d?\.\d\d?\d?\s+', '', norm(sent), count=1):
            return 'esc-looking-text-under-1xx-3xx-code'
    if '\r' in sent.replace('\r\n', ''):
        return 'bare-cr'
    if '\n' in sent:
        return 'multi-line'
    if any(ord(c) > 127 for c in sent):
        return 'non-ascii'
    return 'plain'


def is_nontrivial(replies, sents):
    if len(replies) > 1:
        return True
    (code, arg), sent = replies[0], sents[0]
    if '\n' in sent:
        return True
    m = ESC_LOOK.match(arg)
    return bool(m and arg[0] != code[0])


def write_wire(replies, variant):
    """Real writer. Returns (wire bytes, [Reply.message of each written reply], per-reply wire lengths)."""
    ss = ScriptSocket()
    io = IO(ss, address=('h', 1))
    sents, lens = [], []
    for code, text in replies:
        r = Reply(code, text)
        sents.append(r.message)
        before = len(io.send_buffer.getvalue())
        if variant:
            io.send_reply(r)
        else:
            r.send(io)
        lens.append(len(io.send_buffer.getvalue()) - before)
    io.flush_send()
    return b''.join(ss.sent), sents, lens


def roundtrip_segs(data, rnd, focus, kind):
    if kind == 'long':
        yield 'whole', [data]
        for f in focus:
            for d in (-1, 0, 1):
                if 0 < f + d < len(data):
                    yield 'cut1', cut(data, [f + d])
        yield '4096+1', cut(data, [1])
        for _ in range(6):
            cuts = sorted(rnd.sample(range(1, len(data)), rnd.randint(1, 6)))
            yield 'rand', cut(data, cuts)
        return
    for lab, segs in segmentations(data, rnd, focus=focus, nrandom=6 if kind == 'dir' else 10):
        yield lab, segs


def run_roundtrip(case, R):
    replies = [tuple(x) for x in case['replies']]
    trailer = case['trailer']
    rnd = random.Random(case['rs'])
    variant = case['rs'] & 1
    try:
        wire, sents, lens = write_wire(replies, variant)
    except Exception as ex:   # the writer itself failed on an in-scope reply
        R.eval()
        R.violation('send-raises/%s' % type(ex).__name__, 'writer raised %r for %r' % (ex, replies),
                    {'replies': replies})
        return
    if any(s[:1].isspace() for s in sents):
        R.count('skipped-first-line-starts-with-white-space')
        return
    exp = [(c, norm(s)) for (c, _), s in zip(replies, sents)]
    ends = list(itertools.accumulate(lens))
    if is_nontrivial(replies, sents):
        R.nontrivial(('rt', replies))
    # what the reference reader makes of the wire: only used to attribute a mismatch to writer or parser
    ref = [(e[1], e[2]) for e in ref_parse(wire) if e[0] == 'reply']
    writer_ok = ref == exp
    for (code, arg), sent in zip(replies, sents):
        R.observe('wire-shape', (code[0], min(sent.count('\n'), 3), bool(ESC_LOOK.match(arg)),
                                 bool(ESC_LOOK.match(arg)) and arg[0] != code[0], len(replies),
                                 text_class(code, sent)))
    # ESC class on the wire (2xx/4xx/5xx only: RFC 2034 defines no ESC for other classes)
    off = 0
    for (code, _), ln in zip(replies, lens):
        first = wire[off:off + ln].split(b'\r\n')[0][4:].decode('utf-8')
        off += ln
        m = ESC_WIRE.match(first)
        if code[0] in '245' and m:
            R.hit('esc-class-compared')
            if m.group(1) != code[0]:
                R.violation('esc-class-differs/on-wire', 'wire %r carries ESC class %s under code %s'
                            % (first[:30], m.group(1), code), {'replies': replies, 'wire': wire})
    data = wire + trailer
    sampled = False
    nev = 0
    for label, segs in roundtrip_segs(data, rnd, ends, case['kind']):
        nev += 1
        ss = ScriptSocket(segs)
        io = IO(ss, address=('h', 1))
        for k, (code, text) in enumerate(exp):
            r2 = Reply()
            why = got = None
            try:
                r2.recv(io)
            except WouldBlock:
                why = 'parser-asks-for-more-with-complete-reply-buffered'
            except BadReply as ex:
                why, got = 'parser-rejects-library-written-reply', repr(ex)
            except ConnectionLost:
                why = 'unclassified/connection-lost-without-eof'
            except Exception as ex:
                why, got = 'recv-raises/%s' % type(ex).__name__, repr(ex)
            if why is None:
                R.hit('roundtrip-compared')
                got = (r2.code, r2.message)
                left = io.recv_buffer + ss.unread()
                if r2.code != code:
                    why = 'code-differs'
                elif r2.message != text:
                    why = 'text-differs/%s/%s' % ('parser' if writer_ok else 'writer',
                                                  text_class(code, sents[k], r2.message))
                else:
                    R.hit('successor-compared')
                    if left != data[ends[k]:]:
                        why = 'successor-damaged/%s' % ('last' if k == len(exp) - 1 else 'pipelined')
                        got = (got, left)
                esc = r2.enhanced_status_code
                if esc:
                    R.hit('esc-class-compared')
                    if esc[0] != r2.code[0]:
                        R.violation('esc-class-differs/parsed-object', 'ESC %s under code %s' % (esc, r2.code),
                                    {'replies': replies, 'segments': segs})
            if why:
                R.violation(why, '%s: reply %d of %r (written message %r)' % (why, k, replies, sents[k][:60]),
                            {'replies': replies, 'written_messages': sents, 'wire': wire, 'trailer': trailer,
                             'segments': segs, 'reply_index': k, 'expected': (code, text), 'got': got,
                             'reference_reading_of_wire': ref, 'seg_label': label})
                break
        else:
            if not sampled and case['kind'] == 'rand' and len(exp) > 1:
                sampled = True
                R.sample({'replies': replies, 'wire': wire, 'trailer': trailer, 'segments': segs[:8],
                          'parsed_back': exp})
    R.eval(nev)
    R.observe('seg-count', min(nev, 400) // 20)


# ------------------------------------------------------------------ malformed space
def drive(s, segs, eof, ncalls):
    """Call the real IO.recv_reply until it stops returning replies (at most ncalls times: a parser that does
    not consume would otherwise return the same reply for ever).
    Returns list of outcomes: ('reply', code, text, consumed_offset) ... then one terminal outcome."""
    ss = ScriptSocket(segs, eof=eof)
    io = IO(ss, address=('h', 1))
    outs = []
    n = len(s)
    for _ in range(ncalls):
        try:
            code, text = io.recv_reply()
        except BadReply:
            outs.append(('bad',))
        except WouldBlock:
            outs.append(('block',))
        except ConnectionLost:
            outs.append(('lost',))
        except Exception as ex:
            outs.append(('exc', type(ex).__name__))
        else:
            outs.append(('reply', code, text, n - len(io.recv_buffer) - sum(map(len, ss.segments))))
            continue
        break
    return outs


def judge(events, outs, eof):
    """Compare the library's outcomes with the reference events. Returns (mechanism, what) or None,
    plus the terminal (ref-class, lib-outcome) pair for the evidence."""
    for i, ev in enumerate(events):
        out = outs[i] if i < len(outs) else ('none',)
        if ev[0] == 'reply':
            if out[0] == 'reply':
                if (out[1], out[2]) != (ev[1], ev[2]):
                    return ('malformed-space/reply-differs-from-reference', (ev, out)), None
                if out[3] != ev[3]:
                    return ('malformed-space/consumption-differs', (ev, out)), None
                continue
            if out[0] in ('block', 'lost'):
                return ('malformed-space/asks-for-more-with-complete-reply-buffered', (ev, out)), None
            if out[0] == 'bad':
                return ('malformed-space/well-formed-reply-rejected', (ev, out)), None
            return ('unclassified/malformed-space-exception-%s' % out[-1], (ev, out)), None
        term = (ev[0] + ':' + str(ev[1]), out[0])
        if ev[0] == 'bad':
            if out[0] == 'bad':
                return None, term
            if out[0] == 'reply':
                return ('malformed-accepted/%s' % ev[1], (ev, out)), term
            if out[0] in ('block', 'lost'):
                return ('hangs-on-decisive-malformed-line/%s' % ev[1], (ev, out)), term
            return ('unclassified/malformed-%s-raises-%s' % (ev[1], out[-1]), (ev, out)), term
        if ev[0] == 'unjudged':
            return None, term
        # pending
        if out[0] == ('lost' if eof else 'block'):
            return None, term
        if out[0] == 'reply':
            return ('partial-reply-returned', (ev, out)), term
        if out[0] == 'bad' and ev[1]:
            return None, term       # early rejection of invalid UTF-8 is acceptable
        if out[0] == 'bad':
            return ('unclassified/badreply-on-incomplete-input', (ev, out)), term
        return ('unclassified/incomplete-input-%s' % '-'.join(map(str, out)), (ev, out)), term
    return None, None


def mal_segs(s, rnd):
    n = len(s)
    if n <= 5:
        for lab, segs in segmentations(s, rnd, exhaustive_upto=5):
            yield segs
        return
    yield [s]
    yield [s[i:i + 1] for i in range(n)]
    yield cut(s, sorted(rnd.sample(range(1, n), rnd.randint(1, 3))))


def run_lines(case, R):
    rnd = random.Random(case['rs'])
    acc = {'ev': 0, 'judged': 0, 'nt': 0, 'term': {}, 'refclass': set()}
    if case['first'] is None:
        run_stream(b'', rnd, R, acc)
    else:
        for rest in itertools.product(LINE_TOKENS, repeat=case['total'] - 1):
            toks = (LINE_TOKENS[case['first']],) + rest
            s = b''.join(toks)
            focus = list(itertools.accumulate(map(len, toks)))
            run_stream(s, rnd, R, acc, (segs for _, segs in segmentations(s, rnd, focus=focus, nrandom=4,
                                                                          pair_window=2)))
    flush_acc(R, acc, ('lines', case['first'], case['total']))


def run_stream(s, rnd, R, acc, seglist=None):
    events = ref_parse(s)
    last = events[-1]
    acc['refclass'].add(tuple(e[0] if e[0] == 'reply' else e[0] + ':' + str(e[1]) for e in events))
    if b'\n' in s:
        acc['nt'] += 1
    for nseg, segs in enumerate(seglist if seglist is not None else mal_segs(s, rnd)):
        # unfinished input is also run with EOF after it (strings <= 5 bytes: every segmentation; else whole, bytewise)
        for eof in ((False, True) if last[0] == 'pending' and (nseg < 2 or len(s) <= 5) else (False,)):
            acc['ev'] += 1
            outs = drive(s, segs, eof, len(events))
            viol, term = judge(events, outs, eof)
            if term:
                acc['term'][term] = acc['term'].get(term, 0) + 1
            acc['judged'] += 1
            if viol:
                R.violation(viol[0], '%s on stream %r' % (viol[0], s),
                            {'stream': s, 'segments': segs, 'eof': eof, 'reference_events': events,
                             'library_outcomes': outs, 'disagreement': viol[1]})


def run_malformed(case, R):
    pre, total = case['prefix'], case['total']
    rnd = random.Random(case['rs'])
    acc = {'ev': 0, 'judged': 0, 'nt': 0, 'term': {}, 'refclass': set()}
    for suf in itertools.product(MAL_ALPHA, repeat=total - len(pre)):
        run_stream(pre + b''.join(suf), rnd, R, acc)
    flush_acc(R, acc, ('mal', pre, total))


def flush_acc(R, acc, key):
    R.eval(acc['ev'])
    R.hit('malformed-judged', acc['judged'])
    if acc['nt']:
        R.nontrivial(key)
        R.count('malformed-strings-with-a-complete-line', acc['nt'])
    for (refc, out), n in acc['term'].items():
        R.observe('malformed-terminal(ref,lib)', (refc, out))
        R.count('terminal/%s->%s' % (refc, out), n)
        if refc.startswith('bad') and out == 'bad':
            R.hit('malformed-badreply-confirmed', n)
        elif refc.startswith('pending') and out in ('block', 'lost'):
            R.hit('malformed-pending-confirmed', n)
    for c in acc['refclass']:
        R.observe('malformed-reference-shape', c)


def run_unjudged(case, R):
    """Recorded, not judged: what the library does with code-only lines and out-of-range codes."""
    s = case['stream']
    acc = {'ev': 0, 'judged': 0, 'nt': 0, 'term': {}, 'refclass': set()}
    run_stream(s, random.Random(0), R, acc)
    flush_acc(R, acc, ('unj', s))
    io = IO(ScriptSocket([s]), address=('h', 1))
    try:
        Reply().recv(io)
        out = 'returned'
    except BaseException as ex:
        out = type(ex).__name__
    R.count('unjudged/Reply.recv(%r)->%s' % (s, out))


def run_case(case, R):
    kind = case['kind']
    if kind == 'mal':
        run_malformed(case, R)
    elif kind == 'lines':
        run_lines(case, R)
    elif kind == 'unj':
        run_unjudged(case, R)
    else:
        run_roundtrip(case, R)
