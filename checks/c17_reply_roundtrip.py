"""C17 -- replies survive the wire: Reply.send/IO.send_reply -> bytes -> Reply.recv/IO.recv_reply.

Events that refute
  round trip : (code, text) parsed != (code, text) written under some segmentation; the parser asks for
               more input (WouldBlock) or raises while a complete library-written reply is buffered;
               bytes after the reply (pipelined successor, partial successor) consumed or damaged;
               enhanced-status class != reply-code class (on the wire and on the parsed object).
  malformed  : for every byte string over a small alphabet the real IO.recv_reply is compared, call by
               call, with a ~25-line reference parser: well-formed prefix <=> the same reply is returned
               and exactly its bytes are consumed; a decisive malformed line (different code inside a
               multi-line reply, non-numeric code / no separator, invalid UTF-8 in a completed reply)
               => BadReply; anything else incomplete => the parser must ask for more (WouldBlock on the
               scripted socket, ConnectionLost at EOF) and must not return a partial reply.

  build paths: the same round trip for every public way of populating the written Reply (constructor, attribute
               assignment in both orders, copy(), explicit / disabled enhanced status code, code or message
               re-assigned afterwards, the pre-defined module-level replies, newline_first, send(flush=True)) x every
               way the library reads one (fresh Reply, the Client's Reply with the enhanced status code disabled,
               a re-used Reply object, IO.recv_reply directly); the written Reply.message is also compared with
               the caller's text (documented normalisation: ESC class rewritten to the code class, default
               X.0.0 added, white space after the ESC collapsed); Reply.recv on malformed input must agree with
               IO.recv_reply and leave the object unpopulated.

The real IO and Reply classes run unmodified on vf.sock.ScriptSocket.
"""
import re
import random
import itertools

import gevent
from vf.sock import ScriptSocket, WouldBlock, segmentations, cut
from vf.yieldsock_c17_c18 import YieldSocket, settle, interleavings
from slimta.smtp.io import IO
from slimta.smtp.reply import Reply
from slimta.smtp import BadReply, ConnectionLost

PROPERTY = 'C17'
LEVEL = 'exploration'
LEVEL_TEXT = ('Real Reply.send/IO.send_reply and Reply.recv/IO.recv_reply run on a scripted socket: every code '
              '200..599 x a directed text list (Unicode incl. astral, embedded CR/LF/CRLF, enhanced-status-looking '
              'prefixes of every class, empty inner lines, trailing blanks, BOM / zero-width / combining / control '
              'characters at the start, alone and after an ESC), seeded random sequences of 1..3 '
              'concatenated replies with trailers, each under whole/bytewise/every single cut/pairs of cuts '
              'around reply boundaries/seeded segmentations; plus EVERY byte string over '
              '{2,5,x,-,SP,CR,LF,0xFF} up to length 7 (quick) / 8 (thorough) compared call-by-call with a '
              'reference reply parser. Build paths: 11 ways of populating the written Reply x 10 codes x the directed '
              'texts (+ seeded sequences over all codes) x 4 reader modes, newline_first and send(flush=True) '
              'included. Held = held on the evaluations reported; not a proof for longer inputs.')
LEVEL_NOTE = ('Trusted: ScriptSocket, the reference parser ref_parse() (25 lines), norm() (LF->CRLF), the ESC '
              'regular expression used on the wire, model_message() (10 lines: what Reply.message documents for a '
              'caller-supplied text).')
TECHNIQUE = ('runtime monitoring: round-trip identity + exact-consumption oracle; differential comparison with a '
             'reference parser over an exhaustive small-alphabet input space')
RULE = ('three case kinds. dir: one (code, text) for every code 200..599 x every directed text; rand: seeded '
        'sequence of 1..3 replies (random code 200..599, text built from a token pool) + trailer; for both every '
        'segmentation of the wire (all 2^(n-1) when <= 9 bytes, else whole, bytewise, every single cut, pairs of '
        'cuts within +-3 of each reply boundary, seeded random; long wires: whole + seeded only) is one '
        'evaluation. mal: every byte string over the 8-symbol alphabet up to the tier bound, grouped by 3-byte '
        'prefix; each string x (all segmentations when <= 5 bytes, else whole, bytewise, 1 seeded) x EOF variant '
        'for unfinished inputs (whole and bytewise) is one evaluation. lines: every sequence of up to 3 (quick) / '
        '4 (thorough) of 13 '
        'whole-line shapes (good final/continuation lines of two codes, invalid UTF-8, non-numeric code, code '
        'only, no separator, empty line, split multi-byte character, unterminated tails) x whole/bytewise/every '
        'single cut/pairs around line ends/seeded; the whole and bytewise deliveries are also read through '
        'Reply.recv. ctor: sequence of 1..3 replies, each populated by one of 11 build paths (directed: every '
        'build x 10 codes x every directed text + a seeded successor; seeded: random builds/codes 200..599/token '
        'texts, newline_first, flush) x whole/bytewise/every single cut/pairs around reply boundaries/seeded, '
        'reader mode fresh|client-noesc|reused|raw (all four on whole and bytewise, rotating on the rest). '
        'conc: 2..3 IO objects, each reading its own 1..2 library-written replies in its own greenlet over a '
        'socket whose empty read switches greenlets; pieces fed in every interleaving (<= 7 pieces, else seeded) '
        '= evaluations; every reader must read what its bytes give alone. '
        'non-trivial & distinct = distinct (codes, texts) with a '
        'multi-line text, an ESC prefix whose class differs from the code, or a pipelined successor; and '
        'distinct malformed strings holding at least one complete line')
ASSUMPTIONS = ['ScriptSocket hands out exactly the scripted segments (recv(n) never returns more than n)',
               'a line ends at LF, one preceding CR belongs to the terminator (what the library documents and '
               'its own writer produces); bare CR is text',
               'texts are str without lone surrogates; first line does not start with white space (statement)',
               'reply lines consisting of the code only ("250" CRLF, valid in RFC 5321 but never written by the '
               'library) and numeric codes outside 1xx-5xx are recorded, not judged',
               'invalid UTF-8 is judged when the reply is complete (the parser may decode at the end)',
               'a reply written with the enhanced status code disabled (banner/EHLO/HELO path) is compared exactly '
               'when read the way the library reads it (Reply with the ESC disabled, or IO.recv_reply); read into a '
               'plain Reply the documented default X.0.0 / class rewrite of reader_model() is the expected text',
               'the blank line written for newline_first is not a reply: the reader may skip it or reject it with '
               'BadReply, consuming exactly that line; the reply after it is judged as usual',
               'bytes or None as message, a TAB as code/text separator: recorded, not judged',
               'concurrent readers: YieldSocket (vf/yieldsock_c17_c18.py) blocks the reading greenlet on a gevent '
               'Event when nothing is ready, as a gevent socket does; the feed order is the schedule']
REQUIRED_HITS = ['roundtrip-compared', 'successor-compared', 'esc-class-compared', 'malformed-judged',
                 'malformed-badreply-confirmed', 'malformed-pending-confirmed',
                 'caller-text-compared', 'build-path-compared', 'noesc-pair-compared', 'reused-reader-compared',
                 'raw-reader-compared', 'newline-first-judged', 'flush-judged', 'is-error-compared',
                 'reply-recv-malformed-compared', 'conc-reader-compared', 'conc-readers-interleaved']
SHARDS = {'quick': 16, 'thorough': 16}
BUDGET = {'quick': 60, 'thorough': 900}
EXHAUSTIVE = {'quick': False, 'thorough': False}

MAL_ALPHA = [b'2', b'5', b'x', b'-', b' ', b'\r', b'\n', b'\xff']
MAL_BOUND = {'quick': 7, 'thorough': 8}
NRANDOM = {'quick': 6000, 'thorough': 200000}
PREFIX = 3
# second malformed space: every sequence of whole-line shapes (the named malformations need two complete lines,
# which the byte alphabet cannot reach within its length bound)
LINE_TOKENS = [b'222 x\r\n', b'222-x\r\n', b'555 y\n', b'555-y\n', b'222 \xff\r\n', b'222-\xff\n', b'2x2 z\r\n',
               b'222\r\n', b'222x\r\n', b'\r\n', b'222-\xc3\xa9\r\n', b'222 p', b'55']
LINES_BOUND = {'quick': 3, 'thorough': 4}

DIRECTED = [
    '', 'OK', 'two\r\nlines', 'a\nb', 'a\rb', 'a\r\r\nb', 'x\r\n\r\ny', 'x\n\n\ny', 'trail  ', 'trail\t',
    'end\r\n', 'end\n', 'end\r', 'end\r\n\r\n', 'é ü', '日本語',
    'astral \U0001F600\U00010000\U0010FFFF', 'ls\u2028x\u2029y', 'a\x85b', 'a\x0bb\x0cc', 'a\x00b',
    '2.0.0 ok', '4.2.0 later', '5.1.1 no', '2.0.0 5.1.1 both', '5.1.1 2.0.0 both', '2.1.5\tTab',
    '2.0.0\r\nnext', '2.0.0  \r\n', '2.0.0 ', '5.7.1', '3.0.0 x', '1.2.3 x', '2.1000.0 x', '2.0.0 2.1.0 x',
    '4.0.0 4.1.0 4.2.0 x', '5.999.999 max', '2.0.0 two\r\n2.1.0 second', '250 looks like code',
    '250-x\r\n250 y', '-dash', 'x\r\n2.0.0 inner', 'x\r\n.\r\ny', '2.٣.0 arabic-digit',
    'x\r\n  indented\r\n\ttab', 'three\r\nline\r\ntext', 'w' * 70 + '\r\n' + 'v' * 70,
    # characters a codec or a text layer may treat specially at the start of the text (BOM / byte-order
    # non-character / zero-width / lone combining mark / control characters): first, in the middle, alone, on a
    # later line, and after an enhanced status code
    '\ufeffBOM first', 'mid\ufeffdle', '\ufeff', '\ufeff\ufeff twice', '\ufffe reversed', '\u200bzero width',
    '\u2060word joiner', '\u0301combining', '\x00nul first', '\x7fdel first', 'x\r\n\ufeffsecond line',
    '2.0.0 \ufeffafter esc', '5.1.1 \ufeff', '4.2.0 \u200bafter esc', '2.1.5 \x00', '2.0.0 \u0301', '\ufeff2.0.0 esc after',
]
NDIR_ALL_CODES = DIRECTED.index('\ufeffBOM first')
TOKENS = ['a', 'b', 'OK', ' ', '  ', '\t', '\r', '\n', '\r\n', '\r\n', '\r\n\r\n', '2.0.0 ', '5.1.1 ', '4.2.2 ',
          '2.1.5\t', '4.', '3.0.0 ', '5.7.1\r\n', 'é', '\U0001F600', '日', '-', '.', '250 ', '250-',
          '\x00', '\x85', '2.0.0', 'x y', '\ufeff', '\u200b', '\u0301', '\x7f']
TRAILERS = [b'', b'', b'250-pa', b'x', b'5', b'\r']
LONG = 'L' * 4090 + '\r\n2.0.0 ' + 'é' * 3000

MANY = '\r\n'.join('line %d' % i for i in range(300))
# build paths of the written Reply, reader modes, codes of the directed build-path stratum
BUILDS = ['ctor', 'attrs', 'msg-first', 'copy', 'esc-explicit', 'esc-false', 'esc-false-remsg', 'recode', 'remsg',
          'esc-none', 'copy-noesc']
READERS = ['fresh', 'client-noesc', 'reused', 'raw']
CTOR_CODES = ['220', '250', '251', '300', '354', '421', '451', '550', '554', '599']
AUX_ESC = ['2.1.5', '4.2.2', '5.7.1', '5.999.0', '2.0.0']
AUX_CODE = ['250', '354', '451', '550', '220']
PREDEFINED = ['unknown_command', 'unknown_parameter', 'bad_sequence', 'bad_arguments', 'timed_out',
              'unhandled_error', 'connection_failed', 'tls_failure', 'invalid_credentials']
NCTOR = {'quick': 4000, 'thorough': 120000}

ESC_WIRE = re.compile(r'^([245])\.\d{1,3}\.\d{1,3}(?:\s|$)')
ESC_LOOK = re.compile(r'^[245]\.\d\d?\d?\.\d\d?\d?\s')


def norm(m):
    return re.sub(r'\r?\n', '\r\n', m)


# ------------------------------------------------------------------ reference parser
def ref_parse(s):
    """Reference reading of a byte stream as a sequence of SMTP replies.
    Returns a list of events, the last of which is never ('reply', ...):
       ('reply', code, text, end)   a complete well-formed reply ending at offset end
       ('bad', cls, end)            decisive malformed line (cls: non-numeric-code | bad-separator |
                                    code-mismatch | invalid-utf8)
       ('unjudged', cls, end)       code-only line / numeric code outside 1xx..5xx / TAB after the code
       ('pending', dirty)           nothing decisive buffered; dirty = complete lines of the unfinished
                                    reply hold invalid UTF-8 (early BadReply tolerated)"""
    ev, code, texts, pos = [], None, [], 0
    while True:
        i = s.find(b'\n', pos)
        if i < 0:
            break
        line, pos = s[pos:i], i + 1
        if line.endswith(b'\r'):
            line = line[:-1]
        if len(line) < 3 or not line[:3].isdigit():
            return ev + [('bad', 'non-numeric-code', pos)]
        if len(line) == 3:
            return ev + [('unjudged', 'code-only-line', pos)]
        sep = line[3:4]
        if sep == b'\t':
            return ev + [('unjudged', 'tab-separator', pos)]
        if sep not in (b' ', b'-'):
            return ev + [('bad', 'bad-separator', pos)]
        if code is not None and line[:3] != code:
            return ev + [('bad', 'code-mismatch', pos)]
        code = line[:3]
        texts.append(line[4:])
        if sep == b' ':
            try:
                text = b'\r\n'.join(texts).decode('utf-8')
            except UnicodeDecodeError:
                return ev + [('bad', 'invalid-utf8', pos)]
            if code[:1] not in b'12345':
                return ev + [('unjudged', 'code-out-of-range', pos)]
            ev.append(('reply', code.decode('ascii'), text, pos))
            code, texts = None, []
    dirty = False
    try:
        b'\r\n'.join(texts).decode('utf-8')
    except UnicodeDecodeError:
        dirty = True
    return ev + [('pending', dirty)]


# ------------------------------------------------------------------ generators
def gen_cases(tier, seed, shard, nshards):
    n = 0
    for total in range(0, LINES_BOUND[tier] + 1):
        for first in (range(len(LINE_TOKENS)) if total else [None]):
            if n % nshards == shard:
                yield {'kind': 'lines', 'first': first, 'total': total, 'rs': seed * 7919 + n}
            n += 1
    for s in (b'600 x\r\n', b'099 x\r\n', b'000-a\r\n000 b\r\n', b'999 \r\n', b'250\r\n', b'250-a\r\n250\r\n',
              b'250\tx\r\n', b'250-a\r\n250\tb\r\n250 c\r\n'):
        if n % nshards == shard:
            yield {'kind': 'unj', 'stream': s}
        n += 1
    for code in range(200, 600):
        for ti, t in enumerate(DIRECTED):
            if ti >= NDIR_ALL_CODES and code % 7:      # the special-character texts: every 7th code (all classes)
                continue
            if n % nshards == shard:
                yield {'kind': 'dir', 'replies': [[str(code), t]], 'trailer': b'', 'rs': code}
            n += 1
    for code in (250, 354, 451, 550):
        if n % nshards == shard:
            yield {'kind': 'long', 'replies': [[str(code), LONG], ['250', 'next']], 'trailer': b'', 'rs': code}
        n += 1
        if n % nshards == shard:
            yield {'kind': 'long', 'replies': [[str(code), MANY], ['250', 'next']], 'trailer': b'250-', 'rs': code}
        n += 1
    if n % nshards == shard:
        yield {'kind': 'odd'}
    n += 1
    # build paths: every build x code x directed text, followed by a seeded successor
    g = random.Random('c17-ctor-%d' % seed)
    for bi, build in enumerate(BUILDS):
        for code in CTOR_CODES:
            for ti, t in enumerate(DIRECTED):
                aux = (bi + ti + int(code)) % 5
                succ = [g.choice(BUILDS), str(g.randrange(200, 600)), g.choice(DIRECTED), g.randrange(5)]
                nl = g.choice([-1, -1, -1, 0, 1])
                fl = g.randrange(3)
                rs = g.randrange(1 << 30)
                if n % nshards == shard:
                    yield {'kind': 'ctor', 'items': [[build, code, t, aux], succ], 'trailer': b'', 'nl': nl,
                           'send': fl, 'rs': rs}
                n += 1
    for name in PREDEFINED:
        for via in ('direct', 'copy'):
            if n % nshards == shard:
                yield {'kind': 'ctor', 'items': [['pre-' + via, name, '', 0], ['ctor', '250', 'next', 0]],
                       'trailer': b'25', 'nl': -1, 'send': 0, 'rs': n}
            n += 1
    rnd = random.Random('c17-%d-%d' % (seed, shard))
    for i in range(NRANDOM[tier] // nshards):
        reps = []
        for _ in range(rnd.choice([1, 2, 2, 3])):
            code = str(rnd.randrange(200, 600))
            while True:
                t = ''.join(rnd.choice(TOKENS) for _ in range(rnd.randrange(0, 9)))
                if not t[:1].isspace():
                    break
            reps.append([code, t])
        yield {'kind': 'rand', 'replies': reps, 'trailer': rnd.choice(TRAILERS), 'rs': rnd.randrange(1 << 30)}
    for i in range(NCTOR[tier] // nshards):
        items = []
        for _ in range(rnd.choice([1, 2, 2, 3])):
            while True:
                t = ''.join(rnd.choice(TOKENS) for _ in range(rnd.randrange(0, 9)))
                if not t[:1].isspace():
                    break
            items.append([rnd.choice(BUILDS), str(rnd.randrange(200, 600)), t, rnd.randrange(5)])
        yield {'kind': 'ctor', 'items': items, 'trailer': rnd.choice(TRAILERS),
               'nl': rnd.choice([-1, -1, 0, 1, 2]), 'send': rnd.randrange(3), 'rs': rnd.randrange(1 << 30)}
    for i, c in enumerate(gen_conc(tier, seed)):
        if i % nshards == shard:
            yield c
    # exhaustive byte-alphabet space last, shortest strings first: a budget cut only ever trims its tail
    for total in range(0, MAL_BOUND[tier] + 1):
        for pre in itertools.product(MAL_ALPHA, repeat=min(total, PREFIX)):
            if n % nshards == shard:
                yield {'kind': 'mal', 'prefix': b''.join(pre), 'total': total, 'rs': seed * 1000003 + n}
            n += 1


# ------------------------------------------------------------------ round trip
def text_class(code, sent, got=None):
    """Input class of a written message (for shapes and for the mechanism of a text mismatch). The 1xx/3xx
    class is only used for a mismatch when the parsed text is exactly the written one minus its leading
    ESC-looking token, so that another defect on such inputs keeps its own mechanism."""
    if code[0] not in '245' and ESC_LOOK.match(sent):
        if got is None or got == re.sub(r'^[245]\.\d\d?\d?\.\d\d?\d?\s+', '', norm(sent), count=1):
            return 'esc-looking-text-under-1xx-3xx-code'
    if '\r' in sent.replace('\r\n', ''):
        return 'bare-cr'
    if '\n' in sent:
        return 'multi-line'
    if any(ord(c) > 127 for c in sent):
        return 'non-ascii'
    return 'plain'


def is_nontrivial(replies, sents):
    if len(replies) > 1:
        return True
    (code, arg), sent = replies[0], sents[0]
    if '\n' in sent:
        return True
    m = ESC_LOOK.match(arg)
    return bool(m and arg[0] != code[0])


def write_wire(replies, variant):
    """Real writer. Returns (wire bytes, [Reply.message of each written reply], per-reply wire lengths)."""
    ss = ScriptSocket()
    io = IO(ss, address=('h', 1))
    sents, lens = [], []
    for code, text in replies:
        r = Reply(code, text)
        sents.append(r.message)
        before = len(io.send_buffer.getvalue())
        if variant:
            io.send_reply(r)
        else:
            r.send(io)
        lens.append(len(io.send_buffer.getvalue()) - before)
    io.flush_send()
    return b''.join(ss.sent), sents, lens


def roundtrip_segs(data, rnd, focus, kind):
    if kind == 'long':
        yield 'whole', [data]
        for f in focus:
            for d in (-1, 0, 1):
                if 0 < f + d < len(data):
                    yield 'cut1', cut(data, [f + d])
        yield '4096+1', cut(data, [1])
        for _ in range(6):
            cuts = sorted(rnd.sample(range(1, len(data)), rnd.randint(1, 6)))
            yield 'rand', cut(data, cuts)
        return
    for lab, segs in segmentations(data, rnd, focus=focus, nrandom=6 if kind == 'dir' else 10):
        yield lab, segs


def run_roundtrip(case, R):
    replies = [tuple(x) for x in case['replies']]
    trailer = case['trailer']
    rnd = random.Random(case['rs'])
    variant = case['rs'] & 1
    try:
        wire, sents, lens = write_wire(replies, variant)
    except Exception as ex:   # the writer itself failed on an in-scope reply
        R.eval()
        R.violation('send-raises/%s' % type(ex).__name__, 'writer raised %r for %r' % (ex, replies),
                    {'replies': replies})
        return
    if any(s[:1].isspace() for s in sents):
        R.count('skipped-first-line-starts-with-white-space')
        return
    exp = [(c, norm(s)) for (c, _), s in zip(replies, sents)]
    ends = list(itertools.accumulate(lens))
    if is_nontrivial(replies, sents):
        R.nontrivial(('rt', replies))
    # what the reference reader makes of the wire: only used to attribute a mismatch to writer or parser
    ref = [(e[1], e[2]) for e in ref_parse(wire) if e[0] == 'reply']
    writer_ok = ref == exp
    for (code, arg), sent in zip(replies, sents):
        R.observe('wire-shape', (code[0], min(sent.count('\n'), 3), bool(ESC_LOOK.match(arg)),
                                 bool(ESC_LOOK.match(arg)) and arg[0] != code[0], len(replies),
                                 text_class(code, sent)))
    # ESC class on the wire (2xx/4xx/5xx only: RFC 2034 defines no ESC for other classes)
    off = 0
    for (code, _), ln in zip(replies, lens):
        first = wire[off:off + ln].split(b'\r\n')[0][4:].decode('utf-8')
        off += ln
        m = ESC_WIRE.match(first)
        if code[0] in '245' and m:
            R.hit('esc-class-compared')
            if m.group(1) != code[0]:
                R.violation('esc-class-differs/on-wire', 'wire %r carries ESC class %s under code %s'
                            % (first[:30], m.group(1), code), {'replies': replies, 'wire': wire})
    data = wire + trailer
    sampled = False
    nev = 0
    for label, segs in roundtrip_segs(data, rnd, ends, case['kind']):
        nev += 1
        ss = ScriptSocket(segs)
        io = IO(ss, address=('h', 1))
        for k, (code, text) in enumerate(exp):
            r2 = Reply()
            why = got = None
            try:
                r2.recv(io)
            except WouldBlock:
                why = 'parser-asks-for-more-with-complete-reply-buffered'
            except BadReply as ex:
                why, got = 'parser-rejects-library-written-reply', repr(ex)
            except ConnectionLost:
                why = 'unclassified/connection-lost-without-eof'
            except Exception as ex:
                why, got = 'recv-raises/%s' % type(ex).__name__, repr(ex)
            if why is None:
                R.hit('roundtrip-compared')
                got = (r2.code, r2.message)
                left = io.recv_buffer + ss.unread()
                if r2.code != code:
                    why = 'code-differs'
                elif r2.message != text:
                    why = 'text-differs/%s/%s' % ('parser' if writer_ok else 'writer',
                                                  text_class(code, sents[k], r2.message))
                else:
                    R.hit('successor-compared')
                    if left != data[ends[k]:]:
                        why = 'successor-damaged/%s' % ('last' if k == len(exp) - 1 else 'pipelined')
                        got = (got, left)
                esc = r2.enhanced_status_code
                if esc:
                    R.hit('esc-class-compared')
                    if esc[0] != r2.code[0]:
                        R.violation('esc-class-differs/parsed-object', 'ESC %s under code %s' % (esc, r2.code),
                                    {'replies': replies, 'segments': segs})
            if why:
                R.violation(why, '%s: reply %d of %r (written message %r)' % (why, k, replies, sents[k][:60]),
                            {'replies': replies, 'written_messages': sents, 'wire': wire, 'trailer': trailer,
                             'segments': segs, 'reply_index': k, 'expected': (code, text), 'got': got,
                             'reference_reading_of_wire': ref, 'seg_label': label})
                break
        else:
            if not sampled and case['kind'] == 'rand' and len(exp) > 1:
                sampled = True
                R.sample({'replies': replies, 'wire': wire, 'trailer': trailer, 'segments': segs[:8],
                          'parsed_back': exp})
    R.eval(nev)
    R.observe('seg-count', min(nev, 400) // 20)


# ------------------------------------------------------------------ build paths x reader modes
MODEL_ESC = re.compile(r'^[245](\.\d\d?\d?\.\d\d?\d?)\s+')


def model_parts(code, text):
    """What Reply documents for a caller-supplied text under a 2xx/4xx/5xx code: a leading ESC token is pulled
    out (its class digit follows the reply code), white space after it is dropped.  Returns (esc-tail, body)."""
    m = MODEL_ESC.match(text)
    if m:
        return m.group(1), text[m.end():]
    return '.0.0', text


def model_message(code, text, esc_tail=None):
    if code[0] not in '245':
        return text
    tail, body = model_parts(code, text)
    return '%s%s %s' % (code[0], esc_tail or tail, body) if body else ''


def build_reply(build, code, text, aux):
    """Populate a Reply the way `build` names it. Returns (reply, expected Reply.message or None = not judged)."""
    import slimta.smtp.reply as reply_mod
    c245 = code[0] in '245'
    if build == 'ctor':
        return Reply(code, text, command=b'RCPT'), model_message(code, text)
    if build == 'attrs':
        r = Reply()
        r.code = code
        r.message = text
        return r, model_message(code, text)
    if build == 'msg-first':      # without a code the ESC is always pulled out; judged for 2xx/4xx/5xx only
        r = Reply()
        r.message = text
        r.code = code
        return r, (model_message(code, text) if c245 else None)
    if build == 'copy':
        src = Reply(code, text)
        r = Reply('550', '5.1.1 previous', command=b'RCPT').copy(src)
        return r, model_message(code, text)
    if build == 'copy-noesc':     # copy() must carry the disabled ESC along
        src = Reply(code, text)
        src.enhanced_status_code = False
        r = Reply('550', '5.1.1 previous').copy(src)
        return r, (model_parts(code, text)[1] if c245 else text)
    if build == 'esc-explicit':   # class digit of the explicit ESC is irrelevant: it follows the code
        r = Reply(code, text)
        r.enhanced_status_code = AUX_ESC[aux]
        return r, model_message(code, text, esc_tail=AUX_ESC[aux][1:])
    if build == 'esc-none':       # None means "default", whatever was there before
        r = Reply(code, text)
        r.enhanced_status_code = None
        if not c245:
            return r, text
        body = model_parts(code, text)[1]
        return r, ('%s.0.0 %s' % (code[0], body) if body else '')
    if build == 'esc-false':
        r = Reply(code, text)
        r.enhanced_status_code = False
        return r, (model_parts(code, text)[1] if c245 else text)
    if build == 'esc-false-remsg':   # the EHLO path: ESC disabled, message replaced afterwards
        r = Reply(code, 'Hello')
        r.enhanced_status_code = False
        r.message = text
        return r, (model_message(code, text) if c245 and MODEL_ESC.match(text) else text)
    if build == 'recode':
        first = AUX_CODE[aux]
        r = Reply(first, text)
        r.code = code
        if (first[0] in '245') == c245:
            return r, model_message(code, text)
        return r, None
    if build == 'remsg':          # a previous ESC must not leak into the new message
        r = Reply(code, '4.7.1 previous text')
        r.message = text
        return r, model_message(code, text)
    if build == 'pre-direct':
        return getattr(reply_mod, code), None
    if build == 'pre-copy':
        pre = getattr(reply_mod, code)
        r = Reply(command=b'DATA').copy(pre)
        r.newline_first = pre.newline_first
        return r, pre.message
    raise ValueError(build)


def reader_model(mode, code, text):
    """The text a reader of this mode presents for wire text `text` (documented Reply behaviour): IO.recv_reply
    gives the wire text; a Reply pulls a leading ESC out and shows it with the class of the code; a plain Reply
    also adds the default X.0.0 when there is none, the Client's ESC-disabled Reply does not."""
    if mode == 'raw' or code[0] not in '245':
        return text
    if mode == 'client-noesc' and not MODEL_ESC.match(text):
        return text
    return model_message(code, text)


def make_reader(mode, reused):
    if mode == 'client-noesc':
        r = Reply(command=b'EHLO')
        r.enhanced_status_code = False
        return r
    if mode == 'reused':
        return reused
    return Reply(command=b'MAIL')


def run_ctor(case, R):
    items = [tuple(x) for x in case['items']]
    trailer, nl, sendv = case['trailer'], case['nl'], case['send']
    rnd = random.Random(case['rs'])
    ss = ScriptSocket()
    wio = IO(ss, address=('h', 1))
    wires, meta = [], []      # meta: (code, sent, noesc, pre_len, build)
    for k, (build, code, text, aux) in enumerate(items):
        try:
            r, model = build_reply(build, code, text, aux)
            code = r.code
            sent = r.message
            wesc = r.enhanced_status_code
        except Exception as ex:
            R.eval()
            R.violation('build-raises/%s/%s' % (build, type(ex).__name__), 'building %r raised %r'
                        % (items[k], ex), {'items': items, 'index': k})
            return
        if sent[:1].isspace():
            R.count('skipped-first-line-starts-with-white-space')
            return
        R.observe('build-shape', (build, code[0], bool(ESC_LOOK.match(text)), wesc is None, '\n' in sent))
        if model is not None:
            R.hit('caller-text-compared')
            if sent != model:
                R.violation('written-message-differs-from-caller-text/%s' % build,
                            'Reply.message is %r for caller text %r under code %s (expected %r)'
                            % (sent[:60], text[:60], code, model[:60]), {'item': items[k], 'message': sent,
                                                                         'expected': model})
        if wesc is not None:
            R.hit('esc-class-compared')
            if wesc[0] != code[0]:
                R.violation('esc-class-differs/written-object', 'ESC %s under code %s (%s)' % (wesc, code, build),
                            {'item': items[k]})
        if r.is_error() != (code[0] in '45'):
            R.violation('is-error-differs/written-object', 'is_error() %r under code %s' % (r.is_error(), code),
                        {'item': items[k]})
        nlf = (k == nl and not build.startswith('pre-')) or (build.startswith('pre-') and r.newline_first)
        old_nl = r.newline_first
        before = len(b''.join(ss.sent)) + len(wio.send_buffer.getvalue())
        try:
            if nlf:
                r.newline_first = True
            if sendv == 2 or (sendv == 1 and nlf):
                r.send(wio, flush=True)
                R.hit('flush-judged')
                if wio.send_buffer.getvalue() != b'' or len(b''.join(ss.sent)) <= before:
                    R.violation('send-flush/reply-not-on-the-socket', 'Reply.send(io, flush=True) left %r buffered'
                                % wio.send_buffer.getvalue()[:40], {'items': items, 'index': k})
            elif sendv == 1:
                wio.send_reply(r)
            else:
                r.send(wio)
        except Exception as ex:
            R.eval()
            R.violation('send-raises/%s' % type(ex).__name__, 'writer raised %r for %r' % (ex, items[k]),
                        {'items': items, 'index': k})
            return
        finally:
            r.newline_first = old_nl
        w = (b''.join(ss.sent) + wio.send_buffer.getvalue())[before:]
        pre = 0
        if nlf:
            R.hit('newline-first-judged')
            if not w.startswith(b'\r\n' + code.encode('ascii')):
                R.violation('newline-first/blank-line-not-written', 'newline_first reply written as %r' % w[:20],
                            {'items': items, 'index': k, 'wire': w})
                R.eval()
                return      # the reply boundaries are unknown now: reading it back would only add knock-on names
            pre = 2
        wires.append(w)
        meta.append((code, sent, code[0] in '245' and wesc is None and sent != '', pre, build))
    wio.flush_send()
    wire = b''.join(ss.sent)
    if wire != b''.join(wires):
        R.violation('unclassified/send-buffer-reordered', 'flushed bytes differ from the bytes buffered in order',
                    {'items': items, 'wire': wire, 'pieces': wires})
        return
    ends = list(itertools.accumulate(map(len, wires)))
    starts = [0] + ends[:-1]
    if len(items) > 1 or any('\n' in m[1] for m in meta) or any(m[4] != 'ctor' for m in meta):
        R.nontrivial(('ctor', items, nl))
    ref = [(e[1], e[2]) for e in ref_parse(b''.join(w[m[3]:] for w, m in zip(wires, meta))) if e[0] == 'reply']
    writer_ok = ref == [(m[0], norm(m[1])) for m in meta]
    # on the wire: 2xx/4xx/5xx ESC class
    for (code, sent, noesc, pre, build), w in zip(meta, wires):
        first = w[pre:].split(b'\r\n')[0][4:].decode('utf-8')
        m = ESC_WIRE.match(first)
        if code[0] in '245' and m and not noesc:
            R.hit('esc-class-compared')
            if m.group(1) != code[0]:
                R.violation('esc-class-differs/on-wire', 'wire %r carries ESC class %s under code %s'
                            % (first[:30], m.group(1), code), {'items': items, 'wire': wire})
    data = wire + trailer
    nev = 0
    for si, (label, segs) in enumerate(segmentations(data, rnd, focus=ends, nrandom=4, pair_window=2)):
        modes = READERS if label in ('whole', 'bytewise', 'all') and si < 2 else [READERS[si % 4]]
        for mode in modes:
            nev += 1
            fail = read_sequence(segs, mode, meta, data, ends, starts, writer_ok, R)
            if fail is None:
                continue
            k, why, got = fail
            code, sent, noesc, pre, build = meta[k]
            # name: the oracle clause (a wrongly populated Reply has its own mechanism, written-message-differs-
            # from-caller-text/<build>; what is written depends on code and message only) + the reader mode, but
            # only when a plain Reply reads the same segments correctly
            if not why.startswith(('reply-recv/', 'newline-first/')):
                suffix = ''
                if mode != 'fresh':
                    base = read_sequence(segs, 'fresh', meta, data, ends, starts, writer_ok, None)
                    if base is None or base[:2] != fail[:2]:
                        suffix += '/reader=%s' % mode
                if suffix:      # the input class of the text stays in the witness
                    why = '/'.join(why.split('/')[:2]) + suffix
            R.violation(why, '%s: reply %d of %r (written message %r)' % (why, k, items, sent[:60]),
                        {'items': items, 'written_messages': [m[1] for m in meta], 'wire': wire,
                         'trailer': trailer, 'segments': segs, 'reply_index': k, 'reader': mode,
                         'expected': (code, reader_model(mode, code, norm(sent))), 'got': got, 'seg_label': label})
    R.eval(nev)


def read_sequence(segs, mode, meta, data, ends, starts, writer_ok, R):
    """Read the written replies back in reader mode `mode`. Returns None or (reply index, oracle clause, got) of
    the first disagreement. R=None: no counters (used to attribute a disagreement)."""
    sock = ScriptSocket(segs)
    io = IO(sock, address=('h', 1))
    reused = Reply('550', '5.1.1 previous', command=b'DATA')
    for k, (code, sent, noesc, pre, build) in enumerate(meta):
        text = reader_model(mode, code, norm(sent))
        why = got = None
        blank = None
        for attempt in (0, 1):
            r2 = make_reader(mode, reused)
            try:
                if mode == 'raw':
                    got = io.recv_reply()
                else:
                    r2.recv(io)
                    got = (r2.code, r2.message)
            except WouldBlock:
                why = 'parser-asks-for-more-with-complete-reply-buffered'
            except BadReply as ex:
                if pre and attempt == 0:
                    left = io.recv_buffer + sock.unread()
                    if left != data[starts[k] + 2:]:
                        why, got = 'newline-first/blank-line-rejection-consumes-other-bytes', left
                        break
                    if mode != 'raw' and mode != 'reused' and (r2.code, r2.message) != (None, None):
                        why, got = 'reply-recv/object-populated-after-bad', (r2.code, r2.message)
                        break
                    blank = 'rejected'
                    continue
                why, got = 'parser-rejects-library-written-reply', repr(ex)
            except ConnectionLost:
                why = 'unclassified/connection-lost-without-eof'
            except Exception as ex:
                why, got = 'recv-raises/%s' % type(ex).__name__, repr(ex)
            break
        if why is None:
            left = io.recv_buffer + sock.unread()
            if got[0] != code:
                why = 'code-differs'
            elif got[1] != text:
                why = 'text-differs/%s/%s' % ('parser' if writer_ok else 'writer', text_class(code, sent, got[1]))
            elif left != data[ends[k]:]:
                why = 'successor-damaged/%s' % ('last' if k == len(meta) - 1 else 'pipelined')
                got = (got, left)
            if R is not None:
                if pre:
                    R.observe('newline-first-reader', blank or 'skipped')
                R.hit('roundtrip-compared')
                R.hit('build-path-compared')
                if why is None or why.startswith('successor'):
                    R.hit('successor-compared')
                if mode == 'client-noesc' and noesc:
                    R.hit('noesc-pair-compared')
                elif mode == 'reused':
                    R.hit('reused-reader-compared')
                elif mode == 'raw':
                    R.hit('raw-reader-compared')
                if mode != 'raw':
                    esc = r2.enhanced_status_code
                    if esc:
                        R.hit('esc-class-compared')
                        if esc[0] != r2.code[0]:
                            R.violation('esc-class-differs/parsed-object', 'ESC %s under code %s' % (esc, r2.code),
                                        {'segments': segs, 'reader': mode, 'written_messages': [m[1] for m in meta]})
                    R.hit('is-error-compared')
                    if r2.is_error() != (code[0] in '45'):
                        R.violation('is-error-differs/parsed-object', 'is_error() %r under code %s'
                                    % (r2.is_error(), code), {'reader': mode, 'code': code})
        if why:
            return k, why, got
    return None


def run_odd(case, R):
    """Recorded, not judged: message types outside the documented str."""
    for label, args in (('bytes-message', ('250', b'OK')), ('none-message', ('250', None)), ('int-code', (250, 'x'))):
        try:
            r = Reply(*args)
            io = IO(ScriptSocket(), address=('h', 1))
            r.send(io)
            out = 'written:%r' % io.send_buffer.getvalue()
        except Exception as ex:
            out = type(ex).__name__
        R.count('unjudged/%s->%s' % (label, out))


# ------------------------------------------------------------------ concurrent readers
NCONC = {'quick': 480, 'thorough': 8000}
CONC_TEXTS = ['OK', '\ufeffbom', 'two\r\nlines', 'x\r\n\r\ny', 'three\r\nline\r\ntext', '5.1.1 no', 'é 日本語\r\nü', '',
              'a\r\nb\r\nc\r\nd', '2.1.5 Recipient\r\nok']


def gen_conc(tier, seed):
    rnd = random.Random('c17-conc-%d' % seed)
    for _ in range(NCONC[tier]):
        conns = []
        for _ in range(rnd.choice([2, 2, 2, 3])):
            reps = [[str(rnd.randrange(200, 600)), rnd.choice(CONC_TEXTS)] for _ in range(rnd.choice([1, 1, 2]))]
            conns.append({'replies': reps, 'trailer': rnd.choice([b'', b'250-pa']), 'raw': rnd.random() < 0.4,
                          'ncuts': rnd.randrange(1, 4)})
        yield {'kind': 'conc', 'conns': conns, 'rs': rnd.randrange(1 << 30)}


def _read_replies(io, n, raw, out):
    try:
        for _ in range(n):
            if raw:
                out.append(tuple(io.recv_reply()))
            else:
                r = Reply(command=b'RCPT')
                r.recv(io)
                out.append((r.code, r.message))
    except Exception as ex:
        out.append(('raised', type(ex).__name__))


def run_readers(conns, sched):
    """conns: [(pieces, nreplies, raw)]; sched: feed order (connection indexes). Every reader runs in its own
    greenlet on its own IO over a YieldSocket. -> [(results, leftover)] or None if the harness did not settle."""
    socks = [YieldSocket() for _ in conns]
    ios = [IO(s, address=('h', 1)) for s in socks]
    outs = [[] for _ in conns]
    glets = [gevent.spawn(_read_replies, ios[i], c[1], c[2], outs[i]) for i, c in enumerate(conns)]
    ok = all(settle(socks[i], glets[i]) for i in range(len(conns)))
    pos = [0] * len(conns)
    inter = False
    for i in sched:
        if not ok:
            break
        if any(j != i and socks[j].waiting and socks[j].consumed for j in range(len(conns))):
            inter = True      # another reader is parked in the middle of its input while this one moves
        socks[i].feed(conns[i][0][pos[i]])
        pos[i] += 1
        ok = settle(socks[i], glets[i])
    if not ok or not all(g.dead for g in glets):
        # a reader still waiting after all its bytes were fed: report what it has, it is judged as incomplete
        gevent.killall(glets, block=False)
        if not ok:
            return None
    return [(outs[i], ios[i].recv_buffer + socks[i].unread()) for i in range(len(conns))], inter


def run_conc(case, R):
    rnd = random.Random(case['rs'])
    conns, exps = [], []
    for c in case['conns']:
        replies = [tuple(x) for x in c['replies']]
        wire, sents, lens = write_wire(replies, 0)
        data = wire + c['trailer']
        cuts = sorted(rnd.sample(range(1, len(data)), min(c['ncuts'], len(data) - 1)))
        mode = 'raw' if c['raw'] else 'fresh'
        conns.append((cut(data, cuts), len(replies), c['raw']))
        exps.append(([(code, reader_model(mode, code, norm(s))) for (code, _), s in zip(replies, sents)], c['trailer']))
    counts = [len(c[0]) for c in conns]
    scheds = list(interleavings(counts)) if sum(counts) <= 7 else []
    if not scheds or len(scheds) > 30:
        scheds = scheds and rnd.sample(scheds, 30)
        for _ in range(0 if scheds else 8):
            s = [i for i, n in enumerate(counts) for _ in range(n)]
            rnd.shuffle(s)
            scheds.append(s)
    solo = []
    for c in conns:
        res = run_readers([c], [0] * len(c[0]))
        solo.append(res[0][0] if res else None)
    R.nontrivial(('conc', case['conns']))
    for sched in scheds:
        R.eval()
        res = run_readers(conns, sched)
        if res is None:
            R.inconclusive('concurrency harness: a reader neither blocked in a read nor finished')
            continue
        results, inter = res
        R.observe('conc-schedule', (tuple(counts), tuple(sched)))
        if inter:
            R.hit('conc-readers-interleaved')
        for i, (got, exp) in enumerate(zip(results, exps)):
            R.hit('conc-reader-compared')
            if got == (exp[0], exp[1]):
                continue
            clause = ('raises-%s' % got[0][-1][1] if got[0] and got[0][-1][0] == 'raised' else
                      'reply-differs' if got[0] != exp[0] else 'successor-damaged')
            mech = ('concurrent-readers/%s' % clause) if solo[i] == (exp[0], exp[1]) else 'single-reader/%s' % clause
            R.violation(mech, 'reader %d of %d read %r, its bytes encode %r (leftover %r)'
                        % (i, len(conns), got[0], exp[0], got[1]),
                        {'connections': case['conns'], 'pieces': [c[0] for c in conns], 'feed_order': sched,
                         'reader': i, 'got': got, 'expected': exp, 'alone': solo[i]})


# ------------------------------------------------------------------ malformed space
def drive(s, segs, eof, ncalls):
    """Call the real IO.recv_reply until it stops returning replies (at most ncalls times: a parser that does
    not consume would otherwise return the same reply for ever).
    Returns list of outcomes: ('reply', code, text, consumed_offset) ... then one terminal outcome."""
    ss = ScriptSocket(segs, eof=eof)
    io = IO(ss, address=('h', 1))
    outs = []
    n = len(s)
    for _ in range(ncalls):
        try:
            code, text = io.recv_reply()
        except BadReply:
            outs.append(('bad',))
        except WouldBlock:
            outs.append(('block',))
        except ConnectionLost:
            outs.append(('lost',))
        except Exception as ex:
            outs.append(('exc', type(ex).__name__))
        else:
            outs.append(('reply', code, text, n - len(io.recv_buffer) - sum(map(len, ss.segments))))
            continue
        break
    return outs


def drive_reply(s, segs, eof, ncalls):
    """The same through Reply.recv (reader prepared the way Client prepares the banner/EHLO reply, so that the
    text is presented as received). Also reports whether a failed recv left the object populated."""
    ss = ScriptSocket(segs, eof=eof)
    io = IO(ss, address=('h', 1))
    outs, populated = [], None
    n = len(s)
    for _ in range(ncalls):
        r = Reply(command=b'EHLO')
        r.enhanced_status_code = False
        try:
            r.recv(io)
        except BadReply:
            outs.append(('bad',))
        except WouldBlock:
            outs.append(('block',))
        except ConnectionLost:
            outs.append(('lost',))
        except Exception as ex:
            outs.append(('exc', type(ex).__name__))
        else:
            outs.append(('reply', r.code, r.message, n - len(io.recv_buffer) - sum(map(len, ss.segments))))
            continue
        if (r.code, r.message) != (None, None) or r:
            populated = (r.code, r.message)
        break
    return outs, populated


def judge(events, outs, eof):
    """Compare the library's outcomes with the reference events. Returns (mechanism, what) or None,
    plus the terminal (ref-class, lib-outcome) pair for the evidence."""
    for i, ev in enumerate(events):
        out = outs[i] if i < len(outs) else ('none',)
        if ev[0] == 'reply':
            if out[0] == 'reply':
                if (out[1], out[2]) != (ev[1], ev[2]):
                    return ('malformed-space/reply-differs-from-reference', (ev, out)), None
                if out[3] != ev[3]:
                    return ('malformed-space/consumption-differs', (ev, out)), None
                continue
            if out[0] in ('block', 'lost'):
                return ('malformed-space/asks-for-more-with-complete-reply-buffered', (ev, out)), None
            if out[0] == 'bad':
                return ('malformed-space/well-formed-reply-rejected', (ev, out)), None
            return ('unclassified/malformed-space-exception-%s' % out[-1], (ev, out)), None
        term = (ev[0] + ':' + str(ev[1]), out[0])
        if ev[0] == 'bad':
            if out[0] == 'bad':
                return None, term
            if out[0] == 'reply':
                return ('malformed-accepted/%s' % ev[1], (ev, out)), term
            if out[0] in ('block', 'lost'):
                return ('hangs-on-decisive-malformed-line/%s' % ev[1], (ev, out)), term
            return ('unclassified/malformed-%s-raises-%s' % (ev[1], out[-1]), (ev, out)), term
        if ev[0] == 'unjudged':
            return None, term
        # pending
        if out[0] == ('lost' if eof else 'block'):
            return None, term
        if out[0] == 'reply':
            return ('partial-reply-returned', (ev, out)), term
        if out[0] == 'bad' and ev[1]:
            return None, term       # early rejection of invalid UTF-8 is acceptable
        if out[0] == 'bad':
            return ('unclassified/badreply-on-incomplete-input', (ev, out)), term
        return ('unclassified/incomplete-input-%s' % '-'.join(map(str, out)), (ev, out)), term
    return None, None


def mal_segs(s, rnd):
    n = len(s)
    if n <= 5:
        for lab, segs in segmentations(s, rnd, exhaustive_upto=5):
            yield segs
        return
    yield [s]
    yield [s[i:i + 1] for i in range(n)]
    yield cut(s, sorted(rnd.sample(range(1, n), rnd.randint(1, 3))))


def run_lines(case, R):
    rnd = random.Random(case['rs'])
    acc = {'ev': 0, 'judged': 0, 'nt': 0, 'term': {}, 'refclass': set()}
    if case['first'] is None:
        run_stream(b'', rnd, R, acc)
    else:
        for rest in itertools.product(LINE_TOKENS, repeat=case['total'] - 1):
            toks = (LINE_TOKENS[case['first']],) + rest
            s = b''.join(toks)
            focus = list(itertools.accumulate(map(len, toks)))
            run_stream(s, rnd, R, acc, (segs for _, segs in segmentations(s, rnd, focus=focus, nrandom=4,
                                                                          pair_window=2)), via_reply=True)
    flush_acc(R, acc, ('lines', case['first'], case['total']))


def run_stream(s, rnd, R, acc, seglist=None, via_reply=False):
    events = ref_parse(s)
    last = events[-1]
    acc['refclass'].add(tuple(e[0] if e[0] == 'reply' else e[0] + ':' + str(e[1]) for e in events))
    if b'\n' in s:
        acc['nt'] += 1
    for nseg, segs in enumerate(seglist if seglist is not None else mal_segs(s, rnd)):
        # unfinished input is also run with EOF after it (strings <= 5 bytes: every segmentation; else whole, bytewise)
        for eof in ((False, True) if last[0] == 'pending' and (nseg < 2 or len(s) <= 5) else (False,)):
            acc['ev'] += 1
            outs = drive(s, segs, eof, len(events))
            viol, term = judge(events, outs, eof)
            if term:
                acc['term'][term] = acc['term'].get(term, 0) + 1
            acc['judged'] += 1
            if viol:
                R.violation(viol[0], '%s on stream %r' % (viol[0], s),
                            {'stream': s, 'segments': segs, 'eof': eof, 'reference_events': events,
                             'library_outcomes': outs, 'disagreement': viol[1]})
            elif nseg < 2 and (via_reply or len(s) <= 5):
                # Reply.recv must show what IO.recv_reply showed (already judged against the reference) and a
                # failed recv must not leave a partly populated Reply behind
                acc['ev'] += 1
                outs2, populated = drive_reply(s, segs, eof, len(events))
                acc['rr'] = acc.get('rr', 0) + 1
                if outs2 != outs:
                    R.violation('reply-recv/outcome-differs-from-recv_reply', 'Reply.recv and IO.recv_reply disagree '
                                'on stream %r' % s, {'stream': s, 'segments': segs, 'eof': eof,
                                                     'recv_reply': outs, 'reply_recv': outs2})
                elif populated is not None:
                    R.violation('reply-recv/object-populated-after-%s' % outs2[-1][0], 'failed Reply.recv left %r'
                                % (populated,), {'stream': s, 'segments': segs, 'eof': eof, 'reply_recv': outs2})


def run_malformed(case, R):
    pre, total = case['prefix'], case['total']
    rnd = random.Random(case['rs'])
    acc = {'ev': 0, 'judged': 0, 'nt': 0, 'term': {}, 'refclass': set()}
    for suf in itertools.product(MAL_ALPHA, repeat=total - len(pre)):
        run_stream(pre + b''.join(suf), rnd, R, acc)
    flush_acc(R, acc, ('mal', pre, total))


def flush_acc(R, acc, key):
    R.eval(acc['ev'])
    R.hit('malformed-judged', acc['judged'])
    if acc.get('rr'):
        R.hit('reply-recv-malformed-compared', acc['rr'])
    if acc['nt']:
        R.nontrivial(key)
        R.count('malformed-strings-with-a-complete-line', acc['nt'])
    for (refc, out), n in acc['term'].items():
        R.observe('malformed-terminal(ref,lib)', (refc, out))
        R.count('terminal/%s->%s' % (refc, out), n)
        if refc.startswith('bad') and out == 'bad':
            R.hit('malformed-badreply-confirmed', n)
        elif refc.startswith('pending') and out in ('block', 'lost'):
            R.hit('malformed-pending-confirmed', n)
    for c in acc['refclass']:
        R.observe('malformed-reference-shape', c)


def run_unjudged(case, R):
    """Recorded, not judged: what the library does with code-only lines and out-of-range codes."""
    s = case['stream']
    acc = {'ev': 0, 'judged': 0, 'nt': 0, 'term': {}, 'refclass': set()}
    run_stream(s, random.Random(0), R, acc)
    flush_acc(R, acc, ('unj', s))
    io = IO(ScriptSocket([s]), address=('h', 1))
    try:
        Reply().recv(io)
        out = 'returned'
    except BaseException as ex:
        out = type(ex).__name__
    R.count('unjudged/Reply.recv(%r)->%s' % (s, out))


def run_case(case, R):
    kind = case['kind']
    if kind == 'mal':
        run_malformed(case, R)
    elif kind == 'lines':
        run_lines(case, R)
    elif kind == 'unj':
        run_unjudged(case, R)
    elif kind == 'ctor':
        run_ctor(case, R)
    elif kind == 'conc':
        run_conc(case, R)
    elif kind == 'odd':
        run_odd(case, R)
    else:
        run_roundtrip(case, R)
