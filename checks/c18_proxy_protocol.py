"""C18 -- PROXY protocol headers are parsed exactly and never over-read.

The real ProxyProtocol / ProxyProtocolV1 / ProxyProtocolV2 mix-ins run on a probe
EdgeServer subclass over a ScriptSocket.  Monitors (public boundary only):

  * the probe's ``handle(sock, address)`` records the address it is given and the
    ScriptSocket cursor (bytes consumed) at that moment;
  * recording wrappers around the public classmethods ``process_pp_v1`` /
    ``process_pp_v2`` record which parser ran and the (source, destination) it returned;
  * the ScriptSocket cursor after ``handle`` returned.

Oracle: ``reference()`` below -- a strict parser written from the haproxy PROXY protocol
specification (it shares no code with slimta and never calls inet_pton).  It classifies the
whole byte stream as  ok / local / bad / open  and, for ok, gives addresses and the header
length.  'open' = the specification (or the task's reading of it) leaves well-formedness
open (leading zeros, IPv4-in-IPv6 text, AF_x with UNSPEC transport): generated, run, judged only on "no exception escapes" and the consumption bound.

Edge level: the same three mix-ins (static subclass and mixin()) in front of the real SmtpEdge / SmtpSession /
Server with a recording queue, banner validator and PTR-lookup stand-in.  The header is followed by a complete
SMTP dialogue, either already on the wire (pipelined) or sent only after the server's banner (what a client
behind a proxy does: a parser that wants one byte more than the header blocks).  Judged: the address the
session, the PTR lookup and the queued envelope see is the header's (invalid (None, None) after a malformed
header -- never the proxy's own or one taken from the bad header), the dialogue after the header arrives
intact, LOCAL starts no session and writes nothing, nothing but SMTP-layer errors on trailing garbage escapes.

Concurrency: 2..4 connections are served in separate greenlets by one mix-in instance, by two instances of one
class (static + mixin()) or by different mix-in classes, over vf.yieldsock_c17_c18.YieldSocket (an empty read
blocks the greenlet on a gevent Event, so other connections' handlers really run in the gap).  The feeder feeds
the connections piece by piece in a chosen global order (every interleaving for two connections, seeded beyond).
Every connection is judged by the single-connection oracle and must equal what the same bytes give alone.
"""
import re
import random
import struct
import ipaddress

import gevent
from vf.sock import ScriptSocket, WouldBlock, cut
from vf.yieldsock_c17_c18 import YieldSocket, settle, interleavings
from slimta.edge import EdgeServer
import slimta.edge.smtp as _edge_smtp
from slimta.edge.smtp import SmtpEdge, SmtpValidators
from slimta.util import proxyproto as PP
from slimta.util.proxyproto import ProxyProtocol, ProxyProtocolV1, ProxyProtocolV2

PROPERTY = 'C18'
LEVEL = 'exploration'
LEVEL_TEXT = ('Real ProxyProtocol/V1/V2 handlers run on a scripted socket whose recv_into returns short counts '
              '(whole, always-1, cut at/around the header end, seeded random). Workload: boundary and random '
              'well-formed v1/v2 headers (TCP4/TCP6/UDP/UNIX/UNKNOWN/UNSPEC/LOCAL, TLV 0..300) x payloads, every '
              'single-byte substitution (12 values quick, +12 str-class-boundary values on the v1 headers / 256 thorough), insertion (12 values) and deletion at every offset and every truncation of a '
              'corpus of 12 valid headers, enumerated bad fields (ports, addresses, families, separators, line '
              'ends, v2 version/command/family/protocol nibbles, lengths below the family minimum), over-long '
              'lines and random garbage; each stream through the dedicated parser, the other parser and the '
              'auto-detecting one. Every evaluation is compared with a strict reference parser. A selection of the '
              'cases (all directed well-formed/LOCAL/open ones, 1 in 12 of the rest; 1 in 3 thorough) also runs '
              'through the real SmtpEdge behind each mix-in with an SMTP dialogue after the header (pipelined '
              'and banner-first). Concurrency: every ordered pair of 13 streams (v1/v2 families, LOCAL, garbage, '
              'truncated) with the first connection cut inside its 8-byte prefix x every feed interleaving, plus '
              'seeded 2..4-connection cases, on shared / separate / mixed mix-in instances. Held = held on '
              'the evaluations reported; not a proof for all headers.')
LEVEL_NOTE = ('Trusted: ScriptSocket, the reference parser in this file (written from the haproxy spec), the '
              'classification of spec-open inputs as unjudged.')
TECHNIQUE = 'runtime monitoring: differential against a strict reference parser + exact-consumption cursor'
RULE = ('case = one byte stream (header [+ payload], EOF after it); it is run through 3 handler classes '
        '(V1, V2, auto-detect) x read patterns (whole, always-1-byte, cut at header end and one byte either side, '
        'seeded random cuts; every single cut in thorough for well-formed) = evaluations. non-trivial & distinct = '
        'distinct stream that is either a well-formed header followed by non-empty payload and delivered in >= 2 '
        'reads, or a corrupted / truncated / malformed header. edge: selected cases x 3 mix-ins (static / mixin() '
        'alternating) x (pipelined whole, pipelined seeded cuts, and for well-formed/LOCAL headers banner-first '
        'whole / seeded cuts / always-1) on the real SmtpEdge = evaluations. conc: 2..4 streams + cuts + '
        'configuration (one instance / two instances / mixin() / mixed classes); each feed order (all '
        'interleavings up to 40, else seeded) = one evaluation; distinct schedules are counted as conc-schedule')
ASSUMPTIONS = ['ScriptSocket.recv_into never returns more than requested and returns 0 at end of stream (EOF)',
               'cases marked settings run with proxyproto.invalid_pp_*/unknown_pp_* overridden per case to four '
               'distinct sentinels (restored afterwards); their mechanisms carry the prefix configured-addresses/',
               'unknown_pp_source_address and invalid_pp_source_address are both (None, None) in the library, so '
               '"UNKNOWN accepted" and "rejected as invalid" are not distinguishable at the handler and are not '
               'distinguished by the oracle',
               'spec-open inputs (leading zeros in ports / IPv4 octets, dotted-quad inside IPv6 text, AF_x with '
               'UNSPEC transport or vice versa) are judged only on no-escape and the consumption bound',
               'a v2 AF_UNIX address is the 108-byte field with its trailing NUL padding stripped: leading and '
               'embedded NULs belong to the name',
               'v2 LOCAL: the specification says the family byte is ignored and the block skipped; the library\'s '
               'documented behaviour (drop the connection) is what the statement accepts, so LOCAL with any '
               'family/length whose declared block is present must be dropped']
REQUIRED_HITS = ['handler-address-compared', 'consumption-compared', 'malformed-judged', 'local-drop-judged',
                 'autodetect-parser-compared', 'destination-compared',
                 'conc-connection-judged', 'conc-prefix-interleaved', 'configured-invalid-address-compared',
                 'configured-unknown-address-compared', 'edge-configured-invalid-address-compared',
                 'edge-address-compared', 'edge-smtp-dialogue-compared', 'edge-banner-first-judged', 'edge-local-judged', 'edge-bad-header-judged']
SHARDS = {'quick': 8, 'thorough': 16}
BUDGET = {'quick': 50, 'thorough': 800}

SIG = b'\r\n\r\n\x00\r\nQUIT\n'
INVALID = PP.invalid_pp_source_address
UNKNOWN = PP.unknown_pp_source_address


# --------------------------------------------------------------------------- reference parser

_DEC_OCTET = re.compile(rb'(?:0|[1-9][0-9]{0,2})\Z')
_DIGITS = re.compile(rb'[0-9]+\Z')
_PORT = re.compile(rb'(0|[1-9][0-9]{0,4})\Z')
_HEXCOLON = re.compile(rb'[0-9A-Fa-f:]+\Z')
_HEXCOLONDOT = re.compile(rb'[0-9A-Fa-f:.]+\Z')


def cls_port(tok):
    """-> ('ok', n) | ('open', None) | ('bad', None)"""
    if _PORT.match(tok):
        n = int(tok)
        return ('ok', n) if n <= 65535 else ('bad', None)
    if _DIGITS.match(tok) and int(tok) <= 65535:
        return ('open', None)          # leading zeros
    return ('bad', None)


def cls_ip4(tok):
    parts = tok.split(b'.')
    if len(parts) != 4:
        return ('bad', None)
    if all(_DEC_OCTET.match(p) and int(p) <= 255 for p in parts):
        return ('ok', ipaddress.IPv4Address('.'.join(p.decode('ascii') for p in parts)))
    if all(_DIGITS.match(p) and int(p) <= 255 for p in parts):
        return ('open', None)          # leading zeros
    return ('bad', None)


def cls_ip6(tok):
    if _HEXCOLON.match(tok):
        try:
            return ('ok', ipaddress.IPv6Address(tok.decode('ascii')))
        except ValueError:
            return ('bad', None)
    if _HEXCOLONDOT.match(tok):
        try:
            ipaddress.IPv6Address(tok.decode('ascii'))
            return ('open', None)      # dotted quad inside IPv6 text: not in the spec's grammar
        except ValueError:
            return ('bad', None)
    return ('bad', None)


def ref_v1(stream):
    idx = stream.find(b'\r\n', 0, 107)
    if idx < 0:
        return {'kind': 'bad', 'ver': 1, 'reason': 'no-crlf-within-107', 'limit': 107}
    line, hlen = stream[:idx], idx + 2
    base = {'ver': 1, 'hlen': hlen, 'limit': 107}
    if not line.startswith(b'PROXY '):
        return dict(base, kind='bad', reason='prefix')
    rest = line[6:]
    if rest == b'UNKNOWN' or rest.startswith(b'UNKNOWN '):
        return dict(base, kind='ok', fam='UNKNOWN', src=UNKNOWN, dst=PP.unknown_pp_dest_address)
    parts = rest.split(b' ')
    if parts[0] not in (b'TCP4', b'TCP6'):
        return dict(base, kind='bad', reason='family')
    if len(parts) != 5:
        return dict(base, kind='bad', reason='field-count')
    cls_ip = cls_ip4 if parts[0] == b'TCP4' else cls_ip6
    a = [cls_ip(parts[1]), cls_ip(parts[2])]
    p = [cls_port(parts[3]), cls_port(parts[4])]
    if any(x[0] == 'bad' for x in a):
        return dict(base, kind='bad', reason='address-syntax')
    if any(x[0] == 'bad' for x in p):
        return dict(base, kind='bad', reason='port-syntax')
    if any(x[0] == 'open' for x in a + p):
        return dict(base, kind='open', reason='leading-zeros-or-embedded-ipv4')
    return dict(base, kind='ok', fam=parts[0].decode(), src=(a[0][1], p[0][1]), dst=(a[1][1], p[1][1]))


V2_MIN = {1: 12, 2: 36, 3: 216}
V2_FAM = {0: 'UNSPEC', 1: 'INET', 2: 'INET6', 3: 'UNIX'}


def _unix(b):
    """108-byte sun_path field: the bytes with the trailing NUL padding stripped, nothing else (a leading NUL is
    an abstract-namespace name, an embedded NUL is part of the name) -- the spec's padding rule and what the
    library documents by returning the raw path."""
    return ('unix', b.rstrip(b'\x00'))


def same(got, want):
    return got == want


def ref_v2(stream):
    if len(stream) < 16:
        return {'kind': 'bad', 'ver': 2, 'reason': 'truncated-fixed-part', 'limit': 16, 'cmd': None}
    declared = struct.unpack('!H', stream[14:16])[0]
    hlen = 16 + declared
    cmd, fb = stream[12] & 0x0f, stream[13]
    fam, proto = fb >> 4, fb & 0x0f
    base = {'ver': 2, 'limit': hlen, 'hlen': hlen, 'cmd': cmd, 'fb': fb, 'declared': declared}
    if stream[:12] != SIG:
        return dict(base, kind='bad', reason='signature', cmd=None)
    if stream[12] >> 4 != 2:
        return dict(base, kind='bad', reason='version', cmd=None)
    if cmd not in (0, 1):
        return dict(base, kind='bad', reason='command')
    if len(stream) < hlen:
        return dict(base, kind='bad', reason='truncated-block')
    if cmd == 0:
        return dict(base, kind='local',
                    shape=('unspec' if fb == 0 else
                           'short-block' if declared < V2_MIN.get(fam, 0) else 'family-set'))
    if fam > 3:
        return dict(base, kind='bad', reason='family-nibble')
    if proto > 2:
        return dict(base, kind='bad', reason='protocol-nibble')
    if (fam == 0) != (proto == 0):
        return dict(base, kind='open', reason='unspec-mixed-with-family-or-transport')
    if fam == 0:
        return dict(base, kind='ok', fam='UNSPEC', src=UNKNOWN, dst=PP.unknown_pp_dest_address)
    if declared < V2_MIN[fam]:
        return dict(base, kind='bad', reason='length-below-family-minimum')
    blk = stream[16:hlen]
    famname = V2_FAM[fam] + ('/STREAM' if proto == 1 else '/DGRAM')
    if fam == 1:
        sp, dp = struct.unpack('!HH', blk[8:12])
        return dict(base, kind='ok', fam=famname, src=(ipaddress.IPv4Address(blk[0:4]), sp),
                    dst=(ipaddress.IPv4Address(blk[4:8]), dp))
    if fam == 2:
        sp, dp = struct.unpack('!HH', blk[32:36])
        return dict(base, kind='ok', fam=famname, src=(ipaddress.IPv6Address(blk[0:16]), sp),
                    dst=(ipaddress.IPv6Address(blk[16:32]), dp))
    return dict(base, kind='ok', fam=famname, src=_unix(blk[0:108]), dst=_unix(blk[108:216]))


def reference(mode, stream):
    if mode == 'v1':
        return ref_v1(stream)
    if mode == 'v2':
        return ref_v2(stream)
    if stream[:8] == SIG[:8]:
        return ref_v2(stream)
    if stream[:5] == b'PROXY':
        return ref_v1(stream)
    return {'kind': 'bad', 'ver': 0, 'reason': 'neither-signature', 'limit': 107}


def norm(a):
    """Library address -> comparable form (ipaddress objects / unix path / (None, None))."""
    if isinstance(a, (bytes, bytearray)):
        return ('unix', bytes(a))
    if isinstance(a, tuple) and len(a) == 2 and isinstance(a[0], str):
        try:
            return (ipaddress.ip_address(a[0]), a[1])
        except ValueError:
            return ('unparseable', a[0], a[1])
    return a


# --------------------------------------------------------------------------- monitors

_TRACE = []


def _wrap(cls, name, tag):
    orig = cls.__dict__[name].__func__

    def wrapper(klass, sock, initial):
        trace = getattr(sock, 'pp_trace', _TRACE)     # concurrent connections keep their own record
        try:
            r = orig(klass, sock, initial)
        except BaseException as e:
            trace.append((tag, 'raise', type(e).__name__))
            raise
        trace.append((tag, 'ret', r))
        return r
    wrapper._c18 = True
    setattr(cls, name, classmethod(wrapper))


if not getattr(ProxyProtocolV1.__dict__['process_pp_v1'].__func__, '_c18', False):
    _wrap(ProxyProtocolV1, 'process_pp_v1', 1)
    _wrap(ProxyProtocolV2, 'process_pp_v2', 2)


class Probe(EdgeServer):
    """The 'wrapped edge': records what the PROXY mix-in hands to it."""

    def __init__(self):
        super(Probe, self).__init__(None, None, hostname='probe')
        self.calls = []

    def handle(self, sock, address):
        self.calls.append((address, sock.consumed))


class ProbeV1(ProxyProtocolV1, Probe):
    pass


class ProbeV2(ProxyProtocolV2, Probe):
    pass


class ProbeAuto(ProxyProtocol, Probe):
    pass


STATIC = {'v1': ProbeV1, 'v2': ProbeV2, 'auto': ProbeAuto}
MIXIN = {'v1': ProxyProtocolV1, 'v2': ProxyProtocolV2, 'auto': ProxyProtocol}


def make_probe(mode, dynamic):
    if dynamic:
        p = Probe()
        MIXIN[mode].mixin(p)
        return p
    return STATIC[mode]()


# --------------------------------------------------------------------------- generators

def v1line(fam, src, dst, sp, dp, eol=b'\r\n'):
    def b(x):
        return x if isinstance(x, bytes) else str(x).encode('latin-1')
    return b'PROXY ' + b(fam) + b' ' + b(src) + b' ' + b(dst) + b' ' + b(sp) + b' ' + b(dp) + eol


def v2hdr(cmd, fb, block, tlv=b'', ver=2, declared=None, sig=SIG):
    n = len(block) + len(tlv) if declared is None else declared
    return sig + bytes([(ver << 4) | cmd, fb]) + struct.pack('!H', n) + block + tlv


def blk4(s, d, sp, dp):
    return ipaddress.IPv4Address(s).packed + ipaddress.IPv4Address(d).packed + struct.pack('!HH', sp, dp)


def blk6(s, d, sp, dp):
    return ipaddress.IPv6Address(s).packed + ipaddress.IPv6Address(d).packed + struct.pack('!HH', sp, dp)


def blkux(s, d):
    return s.ljust(108, b'\x00') + d.ljust(108, b'\x00')


PORTS = [0, 1, 9, 10, 25, 99, 100, 999, 1000, 9999, 10000, 65534, 65535]
IP4 = ['0.0.0.0', '0.0.0.1', '127.0.0.1', '255.255.255.255', '1.2.3.4', '10.0.0.255', '192.168.100.200',
       '255.0.0.0', '100.100.100.100']
IP6 = ['::', '::1', 'ffff:ffff:ffff:ffff:ffff:ffff:ffff:ffff', '2001:db8::1', '1:2:3:4:5:6:7:8', 'fe80::',
       '::ffff:0:0', 'ABCD:EF01::', '0001:0002:0003:0004:0005:0006:0007:0008', '1::8', '::2:3:4:5:6:7:8',
       '1:2:3:4:5:6:7::', '0:0:0:0:0:0:0:0', 'FFFF::ffff', '2001:DB8:0:0:1::1']
PAYLOADS = [b'', b'EHLO x\r\nrest', b'\r\n\r\n', b'PROXY TCP4 9.9.9.9 8.8.8.8 1 2\r\n', b'\n',
            SIG + b'\x21\x11\x00\x0c' + b'\x09' * 12, b'\x00', b'\r', b'QUIT\r\n' * 30]
TLVLENS = {'quick': [1, 2, 3, 7, 16, 255, 256, 300], 'thorough': list(range(1, 301))}
BYTEVALS = {'quick': [0x00, 0x2b, 0x5f, 0x09, 0xff, 0x20, 0x0d, 0x0a, 0x30, 0x2d, 0x39, 0x80],
            'thorough': list(range(256))}
# quick only, v1 corpus: bytes that change class once a line is handled as str instead of bytes -- digit-like but
# not int()-able (superscripts, fraction), NBSP / NEL / FS-US / VT / FF (str.isspace, str.split, int() stripping)
STR_CLASS_VALS = [0xb2, 0xb3, 0xb9, 0xbc, 0xa0, 0x85, 0x1c, 0x1d, 0x1e, 0x1f, 0x0b, 0x0c]


UNIX_NAMES = [b'\x00abstract', b'/a\x00b', b'A' * 108, b'', b'\xff\xfe\x80sock\xc3', b'\x00\x00x', b'x\x00\x00y\x00',
              b'\x00' * 107 + b'z', b'/var/run/plain.sock']


def r_ip4(rnd):
    return rnd.choice(IP4) if rnd.random() < 0.4 else str(ipaddress.IPv4Address(rnd.getrandbits(32)))


def r_ip6(rnd):
    if rnd.random() < 0.4:
        return rnd.choice(IP6)
    v = rnd.getrandbits(128)
    if rnd.random() < 0.5:     # runs of zero groups => '::' compression somewhere
        for g in rnd.sample(range(8), rnd.randint(1, 6)):
            v &= ~(0xffff << (16 * g))
    a = ipaddress.IPv6Address(v)
    s = rnd.choice([a.compressed, a.exploded, a.compressed.upper()])
    return s


def r_port(rnd):
    return rnd.choice(PORTS) if rnd.random() < 0.5 else rnd.randrange(65536)


def r_bytes(rnd, n):
    return bytes(rnd.getrandbits(8) for _ in range(n))


def corpus():
    """Valid headers whose every single-byte substitution / truncation is explored."""
    return [
        ('v1-tcp4-short', v1line('TCP4', '1.2.3.4', '5.6.7.8', 1, 2)),
        ('v1-tcp4-max', v1line('TCP4', '255.255.255.255', '255.255.255.255', 65535, 65535)),
        ('v1-tcp6', v1line('TCP6', '2001:db8::1', 'ffff:ffff:ffff:ffff:ffff:ffff:ffff:ffff', 1025, 25)),
        ('v1-tcp6-dc', v1line('TCP6', '::1', '::', 0, 65535)),
        ('v1-unknown', b'PROXY UNKNOWN\r\n'),
        ('v1-unknown-filler', b'PROXY UNKNOWN ::1 ::1 10 20\r\n'),
        ('v2-tcp4', v2hdr(1, 0x11, blk4('1.2.3.4', '5.6.7.8', 1025, 25))),
        ('v2-tcp4-tlv', v2hdr(1, 0x11, blk4('10.0.0.255', '127.0.0.1', 65535, 0), b'\x04\x00\x02ab')),
        ('v2-tcp6', v2hdr(1, 0x21, blk6('2001:db8::1', '::1', 1, 65535))),
        ('v2-unix', v2hdr(1, 0x31, blkux(b'/var/run/src.sock', b'/dst'))),
        ('v2-unspec', v2hdr(1, 0x00, b'')),
        ('v2-local', v2hdr(0, 0x00, b'')),
    ]


BAD_PORTS = [b'+1', b'-0', b'-1', b'1_0', b'6_5', b'\t1', b'1\t', b'\x0b1', b'1\x0c', b'1\n', b'\n1', b'01', b'00',
             b'0065535', b'65536', b'99999', b'100000', b'4294967297', b'', b'1e3', b'0x10', b'\xef\xbc\x91',
             b'1.0', b'1\x00', b'\x001', b'a', b'1a', b'1\r',
             # digit-like / space-like only under str semantics (latin-1 or utf-8 decoded)
             b'\xb2', b'\xb3', b'\xb9', b'1\xb2', b'\xb92', b'\xbc', b'1\xa0', b'\xa01', b'1\x85', b'\x851', b'1\x1c',
             b'\x1d1', b'1\x1e2', b'\x1f', b'\xc2\xb2', b'\xd9\xa1', b'\xe2\x81\xb4', b'\xe2\x80\x831']
BAD_IP4 = [b'1.2.3', b'1.2.3.4.5', b'256.1.1.1', b'1.2.3.04', b'01.2.3.4', b'001.002.003.004', b'1.2.3.4\x00',
           b'\x001.2.3.4', b'1..2.3', b'a.b.c.d', b'1.2.3.-4', b'+1.2.3.4', b'1.2.3.4/32', b'0x1.2.3.4',
           b'1.2.3.\xef\xbc\x94', b'', b'1.2.3.4.', b'.1.2.3.4', b'1.2.3.4\t', b'1.2.3.1000', b'16909060', b'1.2.3',
           b'::1', b'1.2.3.4\n', b'1.2.3.\xb2', b'\xb9.2.3.4', b'1.2.3.4\xa0', b'\xa01.2.3.4', b'1.2.3.4\x85',
           b'1.2.3.4\x1c', b'1.2.3.\xd9\xa1', b'1\xbc.2.3.4']
BAD_IP6 = [b':::', b'1::2::3', b'gggg::', b'1:2:3:4:5:6:7:8:9', b'12345::', b'::ffff:1.2.3.4', b'::1%eth0',
           b'::1\x00', b'\x00::1', b'[::1]', b'1:2:3:4:5:6:7', b'', b':', b'1.2.3.4', b'::1/128', b'1:2:3:4:5:6:7:8:',
           b':1:2:3:4:5:6:7:8', b'::1\t', b'::\xb9', b'::1\xa0', b'\x85::1', b'::1\x1c', b'::\xd9\xa1', b'1:2:3:4:5:6:1.2.3.4', b'::01.2.3.4', b'0000:0000:0000:0000:0000:0000:0000:00001']


def gen_all(tier, seed):
    """Yield every case of the tier (sharding happens by index in gen_cases)."""
    rnd = random.Random('c18-%d-%s' % (seed, tier))
    thorough = tier == 'thorough'

    def case(kind, hdr, payload=b'EHLO x\r\nrest', **kw):
        d = {'kind': kind, 'hdr': hdr, 'payload': payload, 'rs': rnd.randrange(1 << 30), 'tier': tier}
        d.update(kw)
        return d

    # ---- well-formed: boundary grid
    for a in IP4[:4]:
        for p in (0, 1, 65535):
            yield case('wf', v1line('TCP4', a, IP4[(p + 2) % len(IP4)], p, 65535 - p), rnd.choice(PAYLOADS))
            yield case('wf', v2hdr(1, 0x11, blk4(a, '255.255.255.255', p, 65535 - p)), rnd.choice(PAYLOADS))
    for a in IP6:
        for p in (0, 65535):
            yield case('wf', v1line('TCP6', a, rnd.choice(IP6), p, 65535 - p), rnd.choice(PAYLOADS))
            yield case('wf', v2hdr(1, 0x21, blk6(a, rnd.choice(IP6), p, 65535 - p)), rnd.choice(PAYLOADS))
    for p in PORTS:
        yield case('wf', v1line('TCP4', '1.2.3.4', '5.6.7.8', p, PORTS[-1 - PORTS.index(p)]), rnd.choice(PAYLOADS))
    # every payload after a few fixed headers
    for name, hdr in corpus():
        for pl in PAYLOADS:
            yield case('wf', hdr, pl, name=name)
    # v1 UNKNOWN with filler up to exactly 107 bytes
    for total in [16, 17, 50, 105, 106, 107]:
        fill = total - 16
        for style in ('x', 'cr', 'rand'):
            if style == 'x':
                f = b'x' * fill
            elif style == 'cr':
                f = (b'\ra\n' * fill)[:fill]
            else:
                f = r_bytes(rnd, fill).replace(b'\n', b'N')
            yield case('wf', b'PROXY UNKNOWN ' + f + b'\r\n', rnd.choice(PAYLOADS))
    yield case('wf', b'PROXY UNKNOWN ffff:ffff:ffff:ffff:ffff:ffff:ffff:ffff '
                     b'ffff:ffff:ffff:ffff:ffff:ffff:ffff:ffff 65535 65535\r\n', b'DATA\r\n')
    # v2: every family x TLV lengths (minimum, minimum + 1..300), LOCAL
    blocks = [(0x11, blk4('1.2.3.4', '5.6.7.8', 1, 2)), (0x12, blk4('0.0.0.0', '255.255.255.255', 0, 65535)),
              (0x21, blk6('::1', '2001:db8::1', 65535, 0)), (0x22, blk6('::', 'ffff::', 7, 8)),
              (0x31, blkux(b'/s', b'/d' * 54)), (0x32, blkux(b's' * 108, b'')), (0x00, b'')]
    for fb, blk in blocks:
        yield case('wf', v2hdr(1, fb, blk), rnd.choice(PAYLOADS[1:]))
        for n in TLVLENS[tier]:
            yield case('wf', v2hdr(1, fb, blk, r_bytes(rnd, n)), rnd.choice(PAYLOADS))
    for fb, blk in [(0x00, b''), (0x00, b'\x03\x00\x01z'), (0x11, blk4('1.2.3.4', '5.6.7.8', 1, 2)),
                    (0x21, blk6('::1', '::2', 1, 2)), (0x31, blkux(b'/a', b'/b')), (0xff, b'12345'), (0x40, b'')]:
        for pl in PAYLOADS[:3]:
            yield case('wf-local', v2hdr(0, fb, blk), pl)
    yield case('wf', v2hdr(1, 0x00, r_bytes(rnd, 65535)), b'after-64k')
    yield case('wf', v2hdr(1, 0x11, blk4('1.2.3.4', '5.6.7.8', 1, 2), r_bytes(rnd, 65535 - 12)), b'after-64k')
    # ---- well-formed: seeded random
    for _ in range(3000 if thorough else 600):
        sp, dp = r_port(rnd), r_port(rnd)
        tlv = r_bytes(rnd, rnd.choice([0, 0, 1, 5, 40, 300]))
        pl = rnd.choice(PAYLOADS) if rnd.random() < 0.7 else r_bytes(rnd, rnd.randrange(1, 40))
        yield case('wf-rand', v1line('TCP4', r_ip4(rnd), r_ip4(rnd), sp, dp), pl)
        yield case('wf-rand', v1line('TCP6', r_ip6(rnd), r_ip6(rnd), sp, dp), pl)
        yield case('wf-rand', v2hdr(1, rnd.choice([0x11, 0x12]), blk4(r_ip4(rnd), r_ip4(rnd), sp, dp), tlv), pl)
        yield case('wf-rand', v2hdr(1, rnd.choice([0x21, 0x22]), blk6(r_ip6(rnd), r_ip6(rnd), sp, dp), tlv), pl)
        ux = bytes(rnd.randrange(1, 256) for _ in range(rnd.randrange(0, 109)))
        yield case('wf-rand', v2hdr(1, 0x31, blkux(ux, b'/d'), tlv), pl)
    # ---- spec-open inputs (run, not judged on the address)
    for tok in (b'01', b'00', b'0065535'):
        yield case('open', v1line('TCP4', '1.2.3.4', '5.6.7.8', tok, 2))
    for tok in (b'1.2.3.04', b'01.2.3.4', b'001.002.003.004'):
        yield case('open', v1line('TCP4', tok, '5.6.7.8', 1, 2))
    for tok in (b'::ffff:1.2.3.4', b'1:2:3:4:5:6:1.2.3.4'):
        yield case('open', v1line('TCP6', tok, '::1', 1, 2))
    for fb in (0x10, 0x20, 0x30, 0x01, 0x02):
        yield case('open', v2hdr(1, fb, blkux(b'/a', b'/b')))
    # AF_UNIX names: abstract (leading NUL), embedded NUL, full 108 bytes, only NULs, 8-bit bytes, trailing NUL
    for sname in UNIX_NAMES:
        for dname in UNIX_NAMES:
            yield case('wf', v2hdr(1, rnd.choice([0x31, 0x32]), blkux(sname, dname)), rnd.choice(PAYLOADS),
                       name='v2-unix-names')
    yield case('wf', v2hdr(1, 0x31, blkux(b'', b'/d')), b'EHLO x\r\n', name='v2-unix-unnamed-source')
    yield case('wf', v2hdr(1, 0x32, blkux(b'', b'')), b'EHLO x\r\n', name='v2-unix-unnamed-both')

    # ---- malformed: every single-byte substitution and every truncation of the corpus
    for name, hdr in corpus():
        vals = BYTEVALS[tier]
        if tier == 'quick' and name.startswith('v1-'):
            vals = vals + STR_CLASS_VALS
        for off in range(len(hdr)):
            for v in vals:
                if hdr[off] == v:
                    continue
                yield case('subst', hdr[:off] + bytes([v]) + hdr[off + 1:], name=name, off=off, val=v)
        for k in range(len(hdr)):
            yield case('trunc-eof', hdr[:k], b'', name=name, off=k)
            yield case('trunc-payload', hdr[:k], b'EHLO x\r\nrest' + b'.' * 120, name=name, off=k)
        if True:
            for off in range(len(hdr) + 1):
                for v in BYTEVALS['quick']:
                    yield case('insert', hdr[:off] + bytes([v]) + hdr[off:], name=name, off=off, val=v)
                if off < len(hdr):
                    yield case('delete', hdr[:off] + hdr[off + 1:], name=name, off=off)
    # ---- malformed: enumerated bad fields (v1)
    for tok in BAD_PORTS:
        yield case('bad-port', v1line('TCP4', '1.2.3.4', '5.6.7.8', tok, 2), field='sport', tok=tok)
        yield case('bad-port', v1line('TCP6', '::1', '::2', 25, tok), field='dport', tok=tok)
    for tok in BAD_IP4:
        yield case('bad-addr', v1line('TCP4', tok, '5.6.7.8', 1, 2), field='src4', tok=tok)
        yield case('bad-addr', v1line('TCP4', '1.2.3.4', tok, 1, 2), field='dst4', tok=tok)
    for tok in BAD_IP6:
        yield case('bad-addr', v1line('TCP6', tok, '::1', 1, 2), field='src6', tok=tok)
        yield case('bad-addr', v1line('TCP6', '::1', tok, 1, 2), field='dst6', tok=tok)
    for fam in (b'TCP5', b'tcp4', b'UDP4', b'', b'TCP', b'TCP44', b'UNKNOWN4', b'unknown', b'TCP4\t'):
        yield case('bad-family', v1line(fam, '1.2.3.4', '5.6.7.8', 1, 2))
    for line in (b'PROXY TCP4 1.2.3.4 5.6.7.8 1 2 3\r\n', b'PROXY TCP4 1.2.3.4 5.6.7.8 1\r\n',
                 b'PROXY TCP4  1.2.3.4 5.6.7.8 1 2\r\n', b'PROXY TCP4 1.2.3.4 5.6.7.8 1 2 \r\n',
                 b'PROXY  TCP4 1.2.3.4 5.6.7.8 1 2\r\n', b'PROXY TCP4\t1.2.3.4\t5.6.7.8\t1\t2\r\n',
                 b'PROXY TCP4\r\n', b'PROXY \r\n', b'PROXY\r\n', b'\r\n', b'PROXY TCP4 1.2.3.4 5.6.7.8 1 2\n',
                 b'PROXY TCP4 1.2.3.4 5.6.7.8 1 2\r', b'PROXY TCP4 1.2.3.4 5.6.7.8 1 2\r\r\n',
                 b'PROXY TCP4 1.2.3.4 5.6.7.8 1 2\n\r\n', b'PROXY TCP4 1.2.3.4 5.6.7.8 1 2\n\r',
                 b'proxy TCP4 1.2.3.4 5.6.7.8 1 2\r\n', b'PROXY\tTCP4 1.2.3.4 5.6.7.8 1 2\r\n',
                 b'PROXYTCP4 1.2.3.4 5.6.7.8 1 2\r\n', b' PROXY TCP4 1.2.3.4 5.6.7.8 1 2\r\n',
                 b'PROXY TCP6 1.2.3.4 5.6.7.8 1 2\r\n', b'PROXY TCP4 ::1 ::2 1 2\r\n',
                 b'PROXY TCP4 1.2.3.4 ::2 1 2\r\n', b'PROXY TCP4 1.2.3.4 5.6.7.8 1 2\x00\r\n',
                 b'PROXY TCP4 1.2.3.4 5.6.7.8 1 2\r\x00\n', b'PROXY UNKNOWN\n', b'PROXY UNKNOWN\r',
                 b'PROXY UNKNOWNX\r\n', b'PROXY UNKNOWN\t\r\n'):
        for pl in (b'', b'\r\n', b'X\r\n', b'EHLO a b c\r\n' + b'.' * 120):
            yield case('bad-line', line, pl)
    # over-long v1 lines: CRLF ends at 108, 109, 150, never
    for total in (108, 109, 110, 150, 300):
        pad = total - len(b'PROXY TCP4 1.2.3.4 5.6.7.8 1 \r\n')
        yield case('overlong', v1line('TCP4', '1.2.3.4', '5.6.7.8', 1, b'0' * (pad - 1) + b'2'), b'tail' * 30)
        yield case('overlong', b'PROXY UNKNOWN ' + b'y' * (total - 16) + b'\r\n', b'tail' * 30)
        yield case('overlong', b'PROXY TCP6 ' + b'f' * (total - 13) + b'\r\n', b'\r\n' * 60)
    yield case('overlong', b'PROXY ' + b'z' * 400, b'')
    yield case('overlong', b'PROXY UNKNOWN ' + b'\r' * 400, b'\n')
    # ---- malformed: v2 fields
    b4, b6, bu = blk4('1.2.3.4', '5.6.7.8', 1, 2), blk6('::1', '::2', 1, 2), blkux(b'/a', b'/b')
    for fb, blk in ((0x11, b4), (0x21, b6), (0x31, bu), (0x12, b4), (0x22, b6), (0x32, bu)):
        mn = len(blk)
        lens = range(mn) if thorough else sorted(set([0, 1, 2, mn // 2, mn - 2, mn - 1] +
                                                    [rnd.randrange(mn) for _ in range(3)]))
        for n in lens:
            yield case('v2-short-length', v2hdr(1, fb, blk[:n]), field='len', fb=fb, declared=n)
            yield case('v2-short-length-local', v2hdr(0, fb, blk[:n]), field='len', fb=fb, declared=n)
        # declared length larger than what arrives (EOF inside the block)
        yield case('v2-eof-in-block', v2hdr(1, fb, blk, declared=mn + 5), b'')
        yield case('v2-eof-in-block', v2hdr(1, fb, blk[:3], declared=mn), b'')
    yield case('v2-eof-in-block', v2hdr(1, 0x00, b'abc', declared=65535), b'')
    yield case('v2-eof-in-block', v2hdr(0, 0x00, b'abc', declared=4), b'')
    for ver in range(16):
        if ver != 2:
            yield case('v2-version', v2hdr(1, 0x11, b4, ver=ver), field='version', val=ver)
            yield case('v2-version', v2hdr(0, 0x00, b'', ver=ver), field='version', val=ver)
    for cmd in range(2, 16):
        yield case('v2-command', v2hdr(cmd, 0x11, b4), field='command', val=cmd)
        yield case('v2-command', v2hdr(cmd, 0x21, b6), field='command', val=cmd)
        yield case('v2-command', v2hdr(cmd, 0x00, b''), field='command', val=cmd)
    for fam in range(4, 16):
        yield case('v2-family', v2hdr(1, (fam << 4) | 1, b4), field='family', val=fam)
        yield case('v2-family', v2hdr(1, (fam << 4) | 0, bu), field='family', val=fam)
    for proto in range(3, 16):
        for fam, blk in ((1, b4), (2, b6), (3, bu), (0, b'')):
            yield case('v2-protocol', v2hdr(1, (fam << 4) | proto, blk), field='protocol', val=proto)
    for k in range(12):
        for v in (0x00, 0x0a, 0x0d, 0x51, 0xff):
            if SIG[k] != v:
                yield case('v2-signature', v2hdr(1, 0x11, b4, sig=SIG[:k] + bytes([v]) + SIG[k + 1:]))
    # ---- random garbage (also with a valid-looking start)
    for _ in range(30000 if thorough else 3000):
        n = rnd.choice([0, 1, 5, 7, 8, 9, 15, 16, 17, 40, 107, 108, 300])
        g = r_bytes(rnd, n)
        style = rnd.randrange(6)
        if style == 1:
            g = b'PROXY ' + g
        elif style == 2:
            g = SIG[:rnd.choice([8, 12])] + g
        elif style == 3:
            g = SIG + bytes([0x20 | rnd.randrange(16), rnd.getrandbits(8)]) + struct.pack('!H', rnd.randrange(64)) + g
        elif style == 4:
            g = b'PROXY TCP4 ' + bytes(rnd.choice(b'0123456789. \r\n:af') for _ in range(n))
        yield case('garbage', g, b'' if rnd.random() < 0.5 else b'\r\nEHLO x\r\n')


EDGE_EVERY = {'quick': 12, 'thorough': 3}
SETTINGS_NAMES = ('v1-unknown', 'v1-unknown-filler', 'v2-unspec', 'v2-local')


def gen_cases(tier, seed, shard, nshards):
    for n, c in enumerate(gen_conc(tier, seed)):
        if n % nshards == shard:
            yield c
    for n, c in enumerate(gen_all(tier, seed)):
        if n % nshards == shard:
            # the real SmtpEdge behind the mix-in: every directed well-formed / LOCAL / spec-open case, a
            # fixed fraction of the others (index-based: the selection does not depend on the shard count)
            c['edge'] = len(c['hdr']) <= 2000 and (c['kind'] in ('wf', 'wf-local', 'open')
                                                   or (n // 7) % EDGE_EVERY[tier] == 0)
            yield c
            # the same case once more with the module's invalid / unknown addresses configured to sentinels:
            # the named UNKNOWN / UNSPEC / LOCAL headers, all LOCAL cases, 1 in 9 of everything else
            if c['kind'] != 'wf-rand' and (n % 9 == 0 or c['kind'] == 'wf-local' or c.get('name') in SETTINGS_NAMES):
                d = dict(c)
                d['settings'] = True
                d['edge'] = c['edge'] and (n % 2 == 0 or c.get('name') in SETTINGS_NAMES)
                yield d


# --------------------------------------------------------------------------- real SMTP edge behind the mix-ins

SESSION = (b'EHLO client.test\r\nMAIL FROM:<a@b.test>\r\nRCPT TO:<c@d.test>\r\nDATA\r\n'
           b'Subject: x\r\n\r\nbody line\r\n.\r\nQUIT\r\n')
PEER = ('192.0.2.9', 999)
_EDGE = {'banner': [], 'ptr': [], 'env': []}


class RecPtr(object):
    """Stands in for slimta.edge.smtp.PtrLookup (no resolver threads); records the address it is asked about."""

    def __init__(self, ip):
        _EDGE['ptr'].append(ip)

    def start(self):
        pass

    def finish(self, runtime=None):
        return None

    def kill(self, block=True):
        pass


_edge_smtp.PtrLookup = RecPtr


class RecValidators(SmtpValidators):
    def handle_banner(self, reply, address):
        _EDGE['banner'].append(address)


class RecQueue(object):
    def enqueue(self, envelope):
        _EDGE['env'].append((envelope.sender, list(envelope.recipients), dict(envelope.client),
                             bytes(envelope.message or b'')))
        return [(envelope, 'id-%d' % len(_EDGE['env']))]


class EdgeV1(ProxyProtocolV1, SmtpEdge):
    pass


class EdgeV2(ProxyProtocolV2, SmtpEdge):
    pass


class EdgeAuto(ProxyProtocol, SmtpEdge):
    pass


EDGE_STATIC = {'v1': EdgeV1, 'v2': EdgeV2, 'auto': EdgeAuto}


def make_edge(mode, dynamic):
    kw = dict(hostname='edge.test', validator_class=RecValidators)
    if dynamic:
        e = SmtpEdge(None, RecQueue(), **kw)
        MIXIN[mode].mixin(e)
        return e
    return EDGE_STATIC[mode](None, RecQueue(), **kw)


def run_edge_one(mode, dynamic, hdr, cuts, schedule):
    """schedule 'pipelined': header and the whole SMTP session are on the wire before the edge reads;
    'banner-first': only the header is there, the client speaks after it has seen the server's first bytes
    (what an SMTP client behind a proxy does) -- a parser that wants one byte more than the header blocks."""
    for v in _EDGE.values():
        del v[:]
    if schedule == 'pipelined':
        ss = ScriptSocket(cut(hdr + SESSION, cuts), eof=True, peer=PEER)
    else:
        def on_send(sock, data):
            if not sock.eof:
                sock.feed(SESSION)
                sock.eof = True
        ss = ScriptSocket(cut(hdr, cuts), eof=False, on_send=on_send, peer=PEER)
    edge = make_edge(mode, dynamic)
    exc = None
    try:
        edge.handle(ss, PEER)
    except WouldBlock as e:
        exc = e
    except Exception as e:
        exc = e
    return ss, {k: list(v) for k, v in _EDGE.items()}, exc


def ip_of(x):
    try:
        return ipaddress.ip_address(x)
    except ValueError:
        return ('unparseable', x)


def judge_edge(mode, ref, ss, seen, exc, schedule, exact):
    out = []
    ver = 'v%d' % ref['ver'] if ref.get('ver') else mode
    kind = ref['kind']
    banner, envs, wire = seen['banner'], seen['env'], b''.join(ss.sent)
    if isinstance(exc, WouldBlock):
        return [('edge/blocks-after-complete-header/%s' % ver,
                 'the edge waits for more input although the complete header has arrived and the client is waiting '
                 'for the banner (%d bytes consumed, header is %d)' % (ss.consumed, ref.get('hlen', -1)))]
    if exc is not None:
        if banner and not (kind in ('ok', 'local') and exact):
            return []
        if kind == 'ok' and ref['fam'].startswith('UNIX'):
            return []       # SmtpSession indexes the bytes path (address[0]); an unnamed source raises: recorded       # raised by the SMTP layer on the garbage that follows a bad header: not C18's business
        return [('edge/exception-escapes/%s/%s/%s' % (ver, type(exc).__name__, kind),
                 '%s escapes the real SmtpEdge.handle (%s)' % (type(exc).__name__, exc))]
    if len(banner) > 1:
        return [('unclassified/edge-banner-twice', 'banner handler called %d times' % len(banner))]
    if kind == 'local':
        if banner or wire or envs:
            out.append(('edge/local-not-dropped', 'LOCAL header: session ran (banner %r, %d bytes written, %d '
                        'messages)' % (banner, len(wire), len(envs))))
        return out
    if kind == 'open':
        return out
    if kind == 'bad':
        if not banner:
            if ref.get('cmd') != 0:
                out.append(('edge/bad-header-dropped/%s' % ver,
                            'malformed non-LOCAL header: no SMTP session was started'))
            return out
        if banner[0] != INVALID or any(e[2].get('ip') is not None for e in envs) or \
                any(p is not None for p in seen['ptr']):
            out.append(('edge/address-after-bad-header/%s' % ver,
                        'malformed header (%s): the SMTP session ran with address %r (client ip %r, PTR lookups %r) '
                        'instead of the invalid address'
                        % (ref['reason'], banner[0], [e[2].get('ip') for e in envs], seen['ptr'])))
        if not wire.startswith(b'220'):
            out.append(('edge/bad-header-no-banner/%s' % ver, 'session started but first bytes are %r' % wire[:20]))
        return out
    # ok
    fam = ref['fam']
    if not banner:
        return [('edge/wellformed-dropped/%s/%s' % (ver, fam), 'well-formed header: no SMTP session (wrote %r)'
                 % wire[:40])]
    if not same(norm(banner[0]), ref['src']):
        out.append(('edge/source-differs/%s/%s' % (ver, fam), 'session address %r, header encodes %r'
                    % (banner[0], ref['src'])))
    if not exact:
        return out
    if len(envs) != 1 or envs[0][0] != 'a@b.test' or envs[0][1] != ['c@d.test'] or b'body line' not in envs[0][3] \
            or not wire.startswith(b'220') or b'\r\n221 ' not in wire:
        out.append(('edge/smtp-session-damaged/%s/%s' % (ver, fam),
                    'the SMTP dialogue after the header did not go through intact: %d messages, wire %r'
                    % (len(envs), wire[:200])))
    elif fam.startswith('INET') or fam.startswith('TCP'):
        if ip_of(envs[0][2].get('ip')) != ref['src'][0] or [ip_of(p) for p in seen['ptr']] != [ref['src'][0]]:
            out.append(('edge/client-ip-differs/%s/%s' % (ver, fam), 'envelope client ip %r, PTR lookups %r, header '
                        'encodes %r' % (envs[0][2].get('ip'), seen['ptr'], ref['src'])))
    elif fam in ('UNKNOWN', 'UNSPEC'):
        if envs[0][2].get('ip') is not None:
            out.append(('edge/client-ip-differs/%s/%s' % (ver, fam), 'envelope client ip %r for an unknown source'
                        % (envs[0][2].get('ip'),)))
    return out


def run_edge(case, R, found):
    hdr = case['hdr']
    rnd = random.Random(case['rs'] ^ 0x5eed)
    stream = hdr + SESSION
    for mode in ('v1', 'v2', 'auto'):
        ref = reference(mode, stream)
        kind = ref['kind']
        plans = [('pipelined', 'whole', [])]
        n = len(stream)
        k = rnd.randint(1, min(n - 1, 10))
        plans.append(('pipelined', 'random', sorted(rnd.sample(range(1, n), k))))
        # the header ends where the case's header bytes end (otherwise bytes of the SMTP dialogue belong to the
        # header -- a truncated line completed by 'EHLO ...CRLF', a corrupted v2 length -- and only the address
        # is judged)
        exact = ref.get('hlen') == len(hdr)
        if kind in ('ok', 'local') and exact:
            hl = ref['hlen']
            plans.append(('banner-first', 'whole', []))
            if hl > 2:
                plans.append(('banner-first', 'random', sorted(rnd.sample(range(1, hl), min(hl - 1, rnd.randint(1, 6))))))
            if hl <= 300:
                plans.append(('banner-first', 'always-1', list(range(1, hl))))
        for i, (schedule, label, cuts) in enumerate(plans):
            R.eval()
            ss, seen, exc = run_edge_one(mode, i % 2 == 0, hdr, cuts, schedule)
            probs = judge_edge(mode, ref, ss, seen, exc, schedule, exact)
            R.observe('edge-outcome', (mode, kind, schedule, bool(seen['banner']), len(seen['env']),
                                       type(exc).__name__ if exc is not None else None))
            R.hit('edge-session-judged')
            if kind == 'ok':
                R.hit('edge-address-compared')
                if exact:
                    R.hit('edge-smtp-dialogue-compared')
                if schedule == 'banner-first':
                    R.hit('edge-banner-first-judged')
            elif kind == 'local':
                R.hit('edge-local-judged')
            elif kind == 'bad':
                R.hit('edge-bad-header-judged')
                if SETTINGS_MODE and seen['banner']:
                    R.hit('edge-configured-invalid-address-compared')
                if exc is not None and seen['banner']:
                    R.count('edge-smtp-layer-exception-after-bad-header/%s' % type(exc).__name__)
            if kind == 'ok' and ref['fam'].startswith('UNIX'):
                if exc is not None and not isinstance(exc, WouldBlock):
                    R.count('unjudged/edge-unix-source: SMTP session raises %s' % type(exc).__name__)
                elif seen['env']:
                    R.count('unjudged/edge-unix-source: client ip is %s'
                            % type(seen['env'][0][2].get('ip')).__name__)
            for mech, what in probs:
                if (mech, mode) not in found:
                    found[(mech, mode)] = ['%s [%s edge, %s]' % (what, mode, schedule),
                                           {'mode': mode, 'header': hdr[:400], 'schedule': schedule,
                                            'read_pattern': label, 'cuts': cuts[:40], 'reference': ref,
                                            'banner_addresses': seen['banner'], 'ptr_lookups': seen['ptr'],
                                            'envelopes': [(e[0], e[1], e[2].get('ip')) for e in seen['env']],
                                            'wire': b''.join(ss.sent)[:300], 'consumed': ss.consumed,
                                            'kind': case['kind'], 'also_under_read_patterns': []}]
                else:
                    found[(mech, mode)][1]['also_under_read_patterns'].append(label)
                R.count('violating-evaluations')


# --------------------------------------------------------------------------- concurrent connections

class CProbe(EdgeServer):
    """Wrapped edge of the concurrency stratum: one instance serves several connections, so what it is handed
    is recorded on the connection's socket."""

    def __init__(self):
        super(CProbe, self).__init__(None, None, hostname='probe')

    def handle(self, sock, address):
        sock.calls.append((address, sock.consumed))


class CProbeV1(ProxyProtocolV1, CProbe):
    pass


class CProbeV2(ProxyProtocolV2, CProbe):
    pass


class CProbeAuto(ProxyProtocol, CProbe):
    pass


CSTATIC = {'v1': CProbeV1, 'v2': CProbeV2, 'auto': CProbeAuto}


def make_cprobe(mode, dynamic):
    if dynamic:
        p = CProbe()
        MIXIN[mode].mixin(p)
        return p
    return CSTATIC[mode]()


def conc_pool():
    """Streams of the concurrency stratum: different versions / families / garbage, all with a payload."""
    pl = b'EHLO x\r\nrest'
    c = dict(corpus())
    return [('v1-tcp4', c['v1-tcp4-short'] + pl), ('v1-tcp6', c['v1-tcp6'] + pl), ('v1-unknown', c['v1-unknown'] + pl),
            ('v2-tcp4', c['v2-tcp4-tlv'] + pl), ('v2-tcp6', c['v2-tcp6'] + pl), ('v2-unix', c['v2-unix'] + pl),
            ('v2-local', c['v2-local'] + pl), ('v2-unspec', c['v2-unspec'] + pl),
            ('smtp-garbage', b'EHLO probe.example\r\nQUIT\r\n'), ('tls-garbage', b'\x16\x03\x01\x02\x00\x01\x00\x01\xfc\x03\x03' + b'\x5a' * 40),
            ('v1-bad-port', v1line('TCP4', '1.2.3.4', '5.6.7.8', 1, b'65536') + pl),
            ('v2-truncated', c['v2-tcp4'][:20]), ('v1-other-tcp4', v1line('TCP4', '9.8.7.6', '5.4.3.2', 4321, 25) + pl)]


CONC_CONFIGS = ['one-instance/auto', 'one-instance/v1', 'one-instance/v2', 'two-instances/auto',
                'one-instance-mixin/auto', 'mixed-classes']
MIXED = ['auto', 'v1', 'v2', 'auto']


def gen_conc(tier, seed):
    rnd = random.Random('c18-conc-%d-%s' % (seed, tier))
    pool = conc_pool()
    # two connections, every ordered pair of streams, first cut of A inside the 8-byte prefix, B cut once
    for ia, (na, sa) in enumerate(pool):
        for ib, (nb, sb) in enumerate(pool):
            for ka in ((1, 5, 7) if tier == 'quick' else range(1, 8)):
                kb = rnd.choice([0, 0, 3, 6, 8, 12, 16])
                cfg = CONC_CONFIGS[(ia + ib + ka) % len(CONC_CONFIGS)] if tier == 'quick' else None
                for config in ([cfg] if cfg else CONC_CONFIGS):
                    yield {'kind': 'conc', 'names': [na, nb], 'streams': [sa, sb],
                           'cuts': [[ka, rnd.randrange(ka + 1, len(sa))], [kb] if 0 < kb < len(sb) else []],
                           'config': config, 'sched': 'all', 'rs': rnd.randrange(1 << 30), 'tier': tier}
    # 3..4 connections, seeded cuts and seeded feed orders
    for _ in range(4000 if tier == 'thorough' else 500):
        n = rnd.choice([2, 3, 3, 4])
        picks = [rnd.choice(pool) for _ in range(n)]
        cuts = []
        for _, s in picks:
            ks = {rnd.randrange(1, 8)} if rnd.random() < 0.7 else set()
            for _ in range(rnd.randrange(0, 3)):
                ks.add(rnd.randrange(1, len(s)))
            cuts.append(sorted(k for k in ks if 0 < k < len(s)))
        yield {'kind': 'conc', 'names': [p[0] for p in picks], 'streams': [p[1] for p in picks], 'cuts': cuts,
               'config': rnd.choice(CONC_CONFIGS), 'sched': 'seeded', 'rs': rnd.randrange(1 << 30), 'tier': tier}


def conc_modes(config, n):
    if config == 'mixed-classes':
        return MIXED[:n]
    return [config.split('/')[1]] * n


def conc_probes(config, modes):
    if config.startswith('one-instance-mixin'):
        p = make_cprobe(modes[0], True)
        return [p] * len(modes)
    if config.startswith('one-instance'):
        p = make_cprobe(modes[0], False)
        return [p] * len(modes)
    if config.startswith('two-instances'):
        a, b = make_cprobe(modes[0], False), make_cprobe(modes[0], True)
        return [(a, b)[i % 2] for i in range(len(modes))]
    return [make_cprobe(m, i % 2 == 1) for i, m in enumerate(modes)]


def _serve(probe, sock):
    try:
        probe.handle(sock, sock.peer)
    except Exception as e:
        sock.exc = e


def run_schedule(streams, cuts, modes, config, sched):
    """One evaluation: all connections are open (each handler blocked in its first read), then pieces are fed in
    the order `sched` (connection indexes; the last occurrence of an index is that connection's EOF).
    Returns (sockets, saw_prefix_interleaving) or None when the harness could not settle."""
    n = len(streams)
    pieces = [cut(s, c) for s, c in zip(streams, cuts)]
    socks = [YieldSocket(peer=('192.0.2.%d' % (10 + i), 1000 + i)) for i in range(n)]
    probes = conc_probes(config, modes)
    glets = [gevent.spawn(_serve, probes[i], socks[i]) for i in range(n)]
    ok = all(settle(socks[i], glets[i]) for i in range(n))
    pos = [0] * n
    inter = False
    for i in sched:
        if not ok:
            break
        # another connection is parked in the middle of its 8-byte prefix while this one moves
        if any(j != i and socks[j].waiting and 0 < socks[j].consumed < 8 for j in range(n)):
            inter = True
        if pos[i] < len(pieces[i]):
            socks[i].feed(pieces[i][pos[i]])
        else:
            socks[i].end()
        pos[i] += 1
        ok = settle(socks[i], glets[i])
    if ok:
        gevent.joinall(glets, timeout=5)
        ok = all(g.dead for g in glets)
    if not ok:
        gevent.killall(glets, block=False)
        return None
    return socks, inter


def conc_clause(mech):
    """Oracle clause of a single-connection mechanism without family / reason (they stay in the witness): one
    cross-connection root cause shows on every family."""
    parts = mech.split('/')
    if parts[0] == 'wellformed':
        return parts[-1]
    if parts[0] == 'local':
        return 'local-' + parts[1]
    if parts[0] == 'exception-escapes':
        return 'exception-escapes-' + parts[2]
    return parts[0]


def run_conc(case, R):
    streams, cuts, config = case['streams'], case['cuts'], case['config']
    n = len(streams)
    modes = conc_modes(config, n)
    rnd = random.Random(case['rs'])
    counts = [len(cut(s, c)) + 1 for s, c in zip(streams, cuts)]
    if case['sched'] == 'all':
        scheds = list(interleavings(counts))
        if len(scheds) > 40:
            scheds = rnd.sample(scheds, 40)
    else:
        scheds = []
        for _ in range(6 if case.get('tier') == 'thorough' else 3):
            s = [i for i, c in enumerate(counts) for _ in range(c)]
            rnd.shuffle(s)
            scheds.append(s)
    refs = [reference(m, s) for m, s in zip(modes, streams)]
    # what each connection gives alone (same bytes, same pieces): a disagreement that also shows alone is not
    # a concurrency effect and keeps the single-connection mechanism
    solo = []
    for m, s, c, ref in zip(modes, streams, cuts, refs):
        ss, calls, trace, exc = run_one(m, s, c, dynamic=False)
        solo.append((set(x[0] for x in judge(m, ref, ss, calls, trace, exc)), calls, ss.consumed))
    found = {}
    for sched in scheds:
        R.eval()
        res = run_schedule(streams, cuts, modes, config, sched)
        if res is None:
            R.inconclusive('concurrency harness: a connection neither blocked in a read nor finished')
            continue
        socks, inter = res
        R.observe('conc-schedule', (config, tuple(case['names']), tuple(map(tuple, cuts)), tuple(sched)))
        R.observe('conc-shape', (config, n, tuple(r['kind'] for r in refs), inter))
        if inter:
            R.hit('conc-prefix-interleaved')
        for i, sock in enumerate(socks):
            R.hit('conc-connection-judged')
            probs = judge(modes[i], refs[i], sock, sock.calls, sock.pp_trace, sock.exc)
            alone = (solo[i][1], solo[i][2])
            if not probs and sock.exc is None and (sock.calls, sock.consumed) != alone:
                probs = [('differs-from-the-same-connection-alone/%s' % modes[i],
                          'handler calls / consumption %r, alone %r' % ((sock.calls, sock.consumed), alone))]
            for mech, what in probs:
                if mech not in solo[i][0]:
                    mech = 'concurrent/%s/%s' % (modes[i], conc_clause(mech))
                if mech not in found:
                    found[mech] = ['%s [%s handler, connection %d of %d, %s]' % (what, modes[i], i, n, config),
                                   {'config': config, 'modes': modes, 'names': case['names'], 'connection': i,
                                    'streams': [s[:120] for s in streams], 'cuts': cuts, 'feed_order': sched,
                                    'reference': refs[i], 'handler_calls': sock.calls, 'consumed': sock.consumed,
                                    'left_unread': sock.unread()[:80], 'alone': alone}]
                R.count('violating-evaluations')
    R.nontrivial(('conc', tuple(case['names']), tuple(map(tuple, cuts)), config))
    for mech, (what, wit) in sorted(found.items()):
        R.violation(mech, what, wit)


# --------------------------------------------------------------------------- execution + oracle

def patterns(stream, hlen, rnd, tier, wellformed):
    """(label, cuts) read patterns: how recv_into's short counts fall."""
    n = len(stream)
    yield 'whole', []
    if 1 < n <= 2000:       # (the library's reader is quadratic in the number of reads)
        yield 'always-1', list(range(1, n))
    if 0 < hlen < n:
        yield 'cut-at-header-end', [hlen]
    focus = sorted({c for c in (hlen - 1, hlen, hlen + 1, 8, 16) if 0 < c < n})
    if focus:
        yield 'cuts-around-header-end', focus
    if tier == 'thorough' and wellformed and n <= 400:
        for k in range(1, n):
            yield 'cut1', [k]
    if n > 2:
        for _ in range(4 if tier == 'thorough' else 2):
            k = rnd.randint(1, min(n - 1, 12))
            yield 'random', sorted(rnd.sample(range(1, n), k))


def mech_escape(mode, exc, ref):
    return 'exception-escapes/%s/%s/%s' % (('v%d' % ref['ver']) if ref.get('ver') else mode, type(exc).__name__,
                                           ref['kind'] + ('-' + ref['reason'] if 'reason' in ref else ''))


def run_one(mode, stream, cuts, dynamic):
    del _TRACE[:]
    ss = ScriptSocket(cut(stream, cuts), eof=True)
    probe = make_probe(mode, dynamic)
    exc = None
    try:
        probe.handle(ss, ('192.0.2.9', 999))
    except Exception as e:      # the oracle's "no other exception escapes"
        exc = e
    return ss, probe.calls, list(_TRACE), exc


def judge(mode, ref, ss, calls, trace, exc):
    """-> list of (mechanism, what). Pure function of what the monitors saw and the reference."""
    out = []
    ver = 'v%d' % ref['ver'] if ref.get('ver') else mode
    kind = ref['kind']
    if exc is not None:
        out.append((mech_escape(mode, exc, ref), '%s escapes %s.handle (%s)' % (type(exc).__name__, mode, exc)))
        return out
    if len(calls) > 1:
        out.append(('unclassified/handler-called-twice', 'wrapped handle called %d times' % len(calls)))
        return out
    got = norm(calls[0][0]) if calls else None
    at = calls[0][1] if calls else None
    if kind == 'ok':
        fam = ref['fam']
        if not calls:
            out.append(('wellformed/%s/%s/handler-not-called' % (ver, fam), 'well-formed header: connection dropped'))
        else:
            if not same(got, ref['src']):
                out.append(('wellformed/%s/%s/source-differs' % (ver, fam),
                            'handler got %r, header encodes %r' % (calls[0][0], ref['src'])))
            if at != ref['hlen'] or ss.consumed != ref['hlen']:
                out.append(('wellformed/%s/%s/consumed-differs' % (ver, fam),
                            'header is %d bytes, %d consumed when handler called, %d after'
                            % (ref['hlen'], at, ss.consumed)))
        rets = [t for t in trace if t[1] == 'ret']
        if mode == 'auto' and [t[0] for t in trace] != [ref['ver']]:
            out.append(('wellformed/%s/auto-wrong-parser' % ver, 'parsers run: %r' % [t[0] for t in trace]))
        if rets:
            r = rets[0][2]
            if not (isinstance(r, tuple) and len(r) == 2 and same(norm(r[1]), ref['dst']) and same(norm(r[0]), ref['src'])):
                out.append(('wellformed/%s/%s/parser-return-differs' % (ver, fam),
                            'process_pp returned %r, header encodes %r / %r' % (r, ref['src'], ref['dst'])))
    elif kind == 'local':
        if calls:
            out.append(('local-not-dropped/' + ref['shape'],
                        'LOCAL command (family byte 0x%02x, declared %d): handler called with %r'
                        % (ref['fb'], ref['declared'], calls[0][0])))
        if ss.consumed != ref['hlen']:
            out.append(('local/consumed-differs/' + ref['shape'],
                        'LOCAL header is %d bytes, %d consumed' % (ref['hlen'], ss.consumed)))
    elif kind == 'bad':
        dropped_ok = ref.get('cmd') == 0       # "or is dropped for a LOCAL command"
        if calls:
            if calls[0][0] != INVALID:
                out.append(('malformed-accepted/%s/%s' % (ver, ref['reason']),
                            'malformed header (%s): handler got %r instead of the invalid address'
                            % (ref['reason'], calls[0][0])))
        elif not dropped_ok:
            out.append(('malformed-dropped/%s/%s' % (ver, ref['reason']),
                        'malformed non-LOCAL header: connection dropped instead of proceeding as invalid'))
        if ss.consumed > ref['limit']:
            out.append(('malformed-overread/%s/%s' % (ver, ref['reason']),
                        '%d bytes consumed, bound is %d' % (ss.consumed, ref['limit'])))
    else:   # open
        if ss.consumed > ref['limit']:
            out.append(('open-overread/%s/%s' % (ver, ref['reason']),
                        '%d bytes consumed, bound is %d' % (ss.consumed, ref['limit'])))
    return out


SENTINELS = {'invalid_pp_source_address': (None, 'configured-invalid-source'),
             'invalid_pp_dest_address': (None, 'configured-invalid-destination'),
             'unknown_pp_source_address': (None, 'configured-unknown-source'),
             'unknown_pp_dest_address': (None, 'configured-unknown-destination')}
SETTINGS_MODE = False


def run_case(case, R):
    """A case marked 'settings' runs with the four documented module settings of slimta.util.proxyproto
    overridden to distinct sentinels (first element None, so the SMTP session still has no client ip): a bad
    header must yield exactly the configured invalid address, UNKNOWN / UNSPEC exactly the configured unknown one."""
    global INVALID, UNKNOWN, SETTINGS_MODE
    if not case.get('settings'):
        return run_case_inner(case, R)
    saved = {k: getattr(PP, k) for k in SENTINELS}
    try:
        for k, v in SENTINELS.items():
            setattr(PP, k, v)
        INVALID, UNKNOWN, SETTINGS_MODE = PP.invalid_pp_source_address, PP.unknown_pp_source_address, True
        return run_case_inner(case, R)
    finally:
        for k, v in saved.items():
            setattr(PP, k, v)
        INVALID, UNKNOWN, SETTINGS_MODE = PP.invalid_pp_source_address, PP.unknown_pp_source_address, False


def run_case_inner(case, R):
    if case['kind'] == 'conc':
        return run_conc(case, R)
    hdr, payload = case['hdr'], case['payload']
    stream = hdr + payload
    rnd = random.Random(case['rs'])
    corrupted = not case['kind'].startswith('wf')
    found = {}      # (mechanism, mode) -> [what, witness]: one violation per case, mode and mechanism
    for mode in ('v1', 'v2', 'auto'):
        ref = reference(mode, stream)
        kind = ref['kind']
        R.observe('reference-class', (mode, kind, ref.get('reason'), ref.get('fam'), ref.get('shape')))
        hlen = ref.get('hlen', len(hdr))
        first = True
        for label, cuts in patterns(stream, hlen, rnd, case.get('tier', 'quick'),
                                    kind in ('ok', 'local') and not corrupted):
            R.eval()
            R.count('evals:%s/%s%s' % (mode, kind, '/' + ref['reason'] if 'reason' in ref else ''))
            ss, calls, trace, exc = run_one(mode, stream, cuts, dynamic=first)
            first = False
            probs = judge(mode, ref, ss, calls, trace, exc)
            # ---- what the monitors saw
            shape = ('escape:' + type(exc).__name__ if exc is not None else
                     'dropped' if not calls else
                     'invalid-or-unknown' if calls[0][0] == INVALID else
                     'unix' if isinstance(calls[0][0], bytes) else 'inet')
            R.observe('outcome-shape', (mode, kind, shape, tuple(t[0] for t in trace)))
            R.observe('read-pattern', (label, min(ss.recv_calls, 40)))
            if exc is None:
                if kind == 'ok':
                    R.hit('handler-address-compared')
                    R.hit('consumption-compared')
                    if any(t[1] == 'ret' for t in trace):
                        R.hit('destination-compared')
                    if mode == 'auto':
                        R.hit('autodetect-parser-compared')
                    if payload and ss.recv_calls >= 2 and ss.unread() == stream[ref['hlen']:]:
                        R.hit('payload-left-unread')
                elif kind == 'local':
                    R.hit('local-drop-judged')
                elif kind == 'bad':
                    R.hit('malformed-judged')
                    R.hit('malformed-bound-compared')
                    if SETTINGS_MODE and calls:
                        R.hit('configured-invalid-address-compared')
                        R.observe('configured-invalid-seen', (mode, calls[0][0]))
                else:
                    R.hit('open-not-judged-on-address')
                if SETTINGS_MODE and kind == 'ok' and ref['fam'] in ('UNKNOWN', 'UNSPEC'):
                    R.hit('configured-unknown-address-compared')
            if (kind in ('ok', 'local') and payload and ss.recv_calls >= 2) or (corrupted and kind != 'ok'):
                R.nontrivial(stream)
            for mech, what in probs:
                w = found.get((mech, mode))
                if w is None:
                    found[(mech, mode)] = w = [
                        '%s [%s handler]' % (what, mode),
                        {'mode': mode, 'stream': stream[:400], 'stream_len': len(stream),
                         'read_pattern': label, 'cuts': cuts[:40], 'reference': ref,
                         'handler_calls': calls, 'parsers_run': [(t[0], t[1]) for t in trace],
                         'consumed': ss.consumed, 'kind': case['kind'],
                         'corrupt': {k: case[k] for k in ('name', 'off', 'val', 'field', 'tok') if k in case},
                         'also_under_read_patterns': []}]
                else:
                    w[1]['also_under_read_patterns'].append(label)
                R.count('violating-evaluations')
            if not probs and kind == 'ok' and payload and label == 'random' and ref['ver'] and 'fam' in ref:
                R.sample({'mode': mode, 'header': hdr[:120], 'payload': payload[:30], 'cuts': cuts,
                          'handler_got': calls[0][0] if calls else None, 'consumed': ss.consumed,
                          'header_len': ref['hlen'], 'reads': ss.recv_calls})
    if case.get('edge'):
        run_edge(case, R, found)
    for (mech, mode), (what, wit) in sorted(found.items()):
        R.violation('configured-addresses/' + mech if SETTINGS_MODE else mech, what, wit)
