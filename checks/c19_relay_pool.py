"""C19 -- relay connection pools stay within bounds and strand no request.

PoolLab (vf/poollab.py): the real StaticSmtpRelay / StaticLmtpRelay / HttpRelay / MxSmtpRelay (one pool per
destination, stub resolver) with their real pool clients, RelayPool and BlockingDeque; 1..30 concurrent
relay.attempt(envelope, n) callers arriving in seeded bursts, some of which stop waiting (killed / own Timeout),
relay.kill() with attempts in flight; a scripted next hop (vf.downstream.Downstream on socketpairs handed over through the
documented socket_creator argument; a loopback HTTP server for HttpRelay) that refuses connects, closes at
scripted stages, pushes 421 on an idling connection, fails single transactions, answers slowly, and holds
connects / replies on gates which the harness releases in a seeded order.

Judged offline from the records:
 (a) BOUND      simultaneously open next-hop connections <= pool_size
 (b) OWN RESULT every Reply inside what attempt() returned/raised carries the caller's own marker (the next
                hop embeds '[c<conn> t<txn> <marker>]' in its replies; '-' markers are resolved through the
                next hop's transaction log)
 (c) STRANDED   at quiescence (faults off, gates released, idle timeouts elapsed) no caller is still blocked
                while the pool is empty / every client sleeps in poll() / its request is in nobody's hands
 (d) ONE AT A TIME  no MAIL while the previous transaction is open, no transaction mixing two envelopes,
                RSET between a failed transaction and the next MAIL on the same connection
 (e) DEQUE      queue.sema.counter == len(queue) whenever the harness greenlet looks
 (f) SAFETY     a recipient reported delivered was positively accepted by the next hop for that marker; and the
                other direction: a recipient reported failed *with a next-hop reply* was not accepted by the next hop
                in that very transaction (client-made timeout replies are the legitimate uncertain case)
 (g) ALIGNMENT  every reply is stamped by the next hop with the stage it answers; the reply slimta recorded for a
                command must be the reply to that command (a reused connection whose reply stream is off by one)
      (c') with a stalled HTTP next hop: a request taken by a client and still unanswered after 4 sleeps of 1.25 x
                relay timeout (hub-timer order, not wall clock) while that client lives
 (h) KILL       RelayPool.kill() returns without raising, and every attempt that was queued or in flight still
                gets an answer (clause (c) applied to the state after kill())
 (i) QUIESCENT  when every caller has its answer or has left and no client is busy: no request left in a queue, no
                finished client left in a pool, no running client outside its pool, no next-hop connection left open
                by a client greenlet that has ended
 (j) ONCE       the next hop accepts the message of one attempt() in at most one transaction; the result slot of an
                attempt is not written twice with different kinds of outcome
"""
import re
import random
import collections

import gevent

from vf import poollab as P

PROPERTY = 'C19'
LEVEL = 'exploration'
LEVEL_TEXT = ('Real StaticSmtpRelay, StaticLmtpRelay and HttpRelay pools (pool_size 1,2,3,unbounded; idle_timeout '
              'none or 0.03 s) driven by 1..12 concurrent attempt() callers in seeded bursts against a scripted next '
              'hop with refused connects, closes at scripted stages, 421 pushed on idle connections, per-transaction '
              '4xx/5xx, slow replies, and gates at connect / QUIT / end-of-data / idle released in seeded order '
              '(callers arriving while a client is connecting or exiting), one-at-a-time "trickle" arrivals that meet '
              'idling clients, and self-timed callers aimed at the instant a client\'s idle timer expires. Audit strata: '
              'MxSmtpRelay with 2..8 recipient domains resolving (stub resolver; MX / A-only / forced / failing; TTL 0 with '
              'rotating answers = expiry) to 1..5 destinations, each with its own pool of the configured size (bound judged '
              'per destination address at socket_creator); callers that give up while queued or in flight (killed, or '
              'waiting under their own Timeout); RelayPool.kill() called with attempts queued and in flight at every '
              'stage; pools of 4/5/8 with bursts of 12..30; a next hop that goes silent at RSET / QUIT; an HTTP next hop that '
              'completes the response head and stalls (Content-Length or chunked) / trickles / cuts the announced body on '
              'a kept connection, followed by 1..3 further attempts on pool sizes 1, 2, unbounded with relay timeout '
              '0.05 s. Held = none of the oracle clauses '
              'violated on the schedules reported in the evidence (distinct interleavings counted); not a proof over '
              'all interleavings. Idle expiry is real-time (0.03 s), so which caller meets an expiring client varies '
              'between replays.')
LEVEL_NOTE = ('Trusted: vf.downstream.Downstream / HttpDown as independent observers (own parsers, own counters), '
              'pass-through observers (CountingDeque, CountingResult installed as slimta.relay.pool.AsyncResult, '
              'Observed* relay subclasses, MxSmtpRelay.new_static_relay override, stub pycares channel through the '
              'documented DNSResolver.channel hook) that only record, gevent.idle() '
              'quiescence detection, stranding predicates evaluated only in stable states and confirmed after the '
              'idle timeout. Schedule control only via burst arrival, caller-side timers and gate release order. '
              'HttpRelay has no socket_creator: slimta.relay.http.get_connection is wrapped during a run so that the '
              'real slimta.http.HTTPConnection connects over a socketpair to the scripted HTTP next hop (the shared '
              'sandbox has no dependable loopback ports); everything above the socket is the real code. The three '
              'HttpRelay findings were re-confirmed over real TCP against gevent.pywsgi (see reproducer).')
TECHNIQUE = ('runtime monitoring: boundary records (next-hop connection/transaction log, reply tags, deque hooks) '
             'judged by a deterministic offline oracle; invariant at a hook for the deque; gated schedule exploration')
RULE = ('case = (mode smtp|lmtp|http|mx, pool_size, idle_timeout, ncallers, fault mix, pipelining, arrival, seed); 40% '
        'free configurations, 60% focused strata (server-timeout requeue incl. unbounded pools, reset after failed '
        'transactions, callers racing exiting/connecting clients); fault '
        'decisions are a pure hash of (seed, connection, transaction, stage); the harness plan (bursts, gate releases, '
        'naps) is drawn from the seed. non-trivial = bounded pool with more callers than pool_size and >= 1 applied '
        'fault or idle expiry; distinct by (mode, pool_size, idle, ncallers, fault mix, audit stratum)')
ASSUMPTIONS = ['in the "late" stratum the relay runs with command_timeout 0.06 s and the next hop answers 0.15 s late: '
               'client-made timeout results are expected there and are not judged as foreign/failed-though-accepted',
               'MxSmtpRelay.kill() is the no-op of the Relay base class and is not called; kill() is explored on the '
               'three RelayPool subclasses; what kill() has to do with requests that are still queued is left open '
               '(served by a respawned client or failed): only "kill() returns, every caller gets an answer" is judged',
               'a caller that gave up is owed nothing; its abandoned request may still be delivered (counted)',
               'slimta command/connect timeouts (4 s) never fire: every scripted delay / gate hold is far shorter, '
               'except the HttpRelay request timeout which is scripted to fire deliberately, the "stall" stratum '
               '(command_timeout 0.06 s against a next hop that is silent at RSET / QUIT or late at end-of-data) and '
               'cases with an unserialisable envelope (command_timeout 0.3 s: the QUIT after the failure is sent inside '
               'DATA and never answered); if a loaded machine makes one fire elsewhere the caller gets a client-made '
               'timeout result, which no clause judges as wrong',
               'a transaction that ended with an accepted end-of-data (even if some RCPTs were refused) is not a '
               'failed transaction; failed = MAIL refused, no RCPT accepted, DATA refused, or end-of-data refused '
               '(LMTP: for any recipient)',
               'live connection = open at both ends (a connection the next hop has already closed does not count)']
REQUIRED_HITS = ['http-reuse-with-unfinished-response-body', 'stalled-http-body-judged', 'deque-mutators-checked', 'unexpected-client-exception-attributed', 'mx-bound-observed', 'mx-several-destinations', 'mx-destination-shared-by-domains',
                 'caller-gave-up-while-queued', 'caller-gave-up-in-flight', 'kill-with-attempts-in-flight', 'kill-judged',
                 'quiescent-state-judged', 'client-death-with-work-queued', 'single-transmission-checked',
                 'result-slot-writes-checked',
                 'reply-alignment-checked', 'late-rset-with-followers-queued', 'bound-observed', 'results-attributed', 'quiescence-judged', 'deque-invariant-checked',
                 'reset-after-failure-checked', 'reuse', 'idle-expiry', 'requeue', 'respawn-after-last-exit',
                 'delivered-crosschecked']
SHARDS = {'quick': 12, 'thorough': 16}
BUDGET = {'quick': 50, 'thorough': 700}

SMTP_KINDS = ['refuse', 'close', 'idle421', 'txn', 'slow', 'gates']     # + 'late' (needs a small command_timeout)
LATE_CMD_TIMEOUT = 0.06
HTTP_KINDS = ['refuse', 'close', 'txn', 'idleclose', 'timeout', 'slow', 'gates']


def gen_cases(tier, seed, shard, nshards):
    total = 600 if tier == 'quick' else 10400
    rnd = random.Random('c19-%d' % seed)
    for idx in range(total):
        mode = rnd.choice(['smtp', 'smtp', 'smtp', 'lmtp', 'lmtp', 'http'])
        pool_size = rnd.choice([1, 1, 2, 2, 3, None])
        idle = rnd.choice([None, 0.03, 0.03])
        ncallers = rnd.choice([1, 2, 3, 3, 4, 4, 5, 6, 7, 8, 10, 12])
        kinds = HTTP_KINDS if mode == 'http' else SMTP_KINDS
        mix = set(k for k in kinds if rnd.random() < 0.5)
        focus = rnd.choice(['any', 'any', 'requeue', 'reset', 'exit-race', 'late'])
        if focus == 'requeue':        # server-initiated timeout on a reused connection with a backlog
            idle, pool_size, ncallers = 0.03, rnd.choice([1, 2, None, None]), rnd.randint(4, 12)
            mix = (mix - {'gates'} if rnd.random() < 0.5 else mix) | {'idleclose' if mode == 'http' else 'idle421'}
        elif focus == 'reset':        # failed transactions followed by another message on the connection
            idle, pool_size, ncallers = 0.03, rnd.choice([1, 2, 3]), rnd.randint(4, 12)
            mix = mix | {'txn'}
        elif focus == 'exit-race':    # callers arriving while clients are held at connect / QUIT
            pool_size = rnd.choice([1, 1, 2, 3])
            ncallers = max(ncallers, pool_size + 1)
            mix = mix | {'gates'}
        elif focus == 'late':         # replies later than command_timeout (RSET after a failed transaction,
            # other stages) on reused connections while followers are already queued behind a full pool
            if mode == 'http':
                mode, mix = rnd.choice(['smtp', 'lmtp']), set(k for k in SMTP_KINDS if rnd.random() < 0.3)
            idle, pool_size, ncallers = 0.03, rnd.choice([1, 1, 2]), rnd.randint(4, 9)
            mix = (mix - {'gates', 'refuse'}) | {'txn', 'late'}
        mix = sorted(mix)
        arrival = 'trickle' if (pool_size is None and idle and rnd.random() < 0.8) or rnd.random() < 0.15 else 'bursty'
        case = {'arrival': arrival, 'mode': mode, 'pool_size': pool_size, 'idle': idle, 'ncallers': ncallers, 'mix': mix,
                'pipelining': rnd.random() < 0.7, 'seed': seed * 1000003 + idx}
        if 'late' in mix:
            case['cmd_timeout'] = LATE_CMD_TIMEOUT
            case['arrival'] = 'bursty'
        if mode == 'http':
            case['http_timeout'] = 0.03 if 'timeout' in mix else None
        if idx % nshards == shard:
            yield case
    # ---- audit strata (own PRNG stream: the cases above stay what they were)
    extra = 420 if tier == 'quick' else 5600
    rx = random.Random('c19x-%d' % seed)
    for j in range(extra):
        idx = total + j
        stratum = rx.choice(['kill', 'kill', 'giveup', 'giveup', 'mx', 'mx', 'big', 'stall'])
        mode = rx.choice(['smtp', 'smtp', 'lmtp', 'http'])
        pool_size = rx.choice([1, 1, 2, 2, 3, None])
        idle = rx.choice([None, 0.03, 0.03])
        ncallers = rx.randint(3, 10)
        extra_kw = {}
        if stratum == 'giveup' and rx.random() < 0.25:
            mode = 'mx'
        if stratum == 'mx':
            mode = 'mx'
        kinds = HTTP_KINDS if mode == 'http' else SMTP_KINDS
        mix = set(k for k in kinds if k != 'gates' and rx.random() < 0.35)
        if rx.random() < 0.65:
            mix.add('gates')
        if stratum == 'kill':           # relay.kill() while attempts are queued / in flight at every stage
            extra_kw['kill_after'] = rx.randint(1, 8)
        elif stratum == 'giveup':       # callers killed while waiting in attempt(), or waiting under a Timeout
            extra_kw['giveup'] = rx.choice([0.3, 0.5, 0.7])
            ncallers = rx.randint(4, 12)
        elif stratum == 'big':          # bursts far larger than a larger pool
            pool_size, ncallers = rx.choice([4, 5, 8]), rx.randint(12, 30)
        elif stratum == 'stall':        # the next hop goes silent at RSET / QUIT (connection stays open)
            mode = rx.choice(['smtp', 'lmtp'])
            mix = (set(k for k in SMTP_KINDS if rx.random() < 0.3) - {'gates'}) | {'stall', 'txn'}
            if rx.random() < 0.5:       # ... or accepts the message and answers the end-of-data too late
                mix.add('lateeod')
            pool_size, ncallers = rx.choice([1, 2, None]), rx.randint(3, 8)
            extra_kw['cmd_timeout'] = LATE_CMD_TIMEOUT
        if mode == 'mx':                # per-destination pools of the MX relay
            extra_kw.update(ndomains=rx.randint(2, 8), nhosts=rx.randint(1, 5), rotate=rx.random() < 0.4,
                            forced=rx.choice([0.0, 0.2, 0.4]))
            ncallers = rx.randint(4, 16)
            if rx.random() < 0.3:
                mix.add('dnsfail')
            if stratum == 'mx' and rx.random() < 0.25:
                extra_kw['giveup'] = 0.3
        if stratum in ('big', 'giveup', 'mx') and rx.random() < 0.4:
            mix.add('badenv')           # an envelope that makes the client raise an unexpected exception
        arrival = 'trickle' if rx.random() < 0.15 else 'bursty'
        case = {'stratum': stratum, 'arrival': arrival, 'mode': mode, 'pool_size': pool_size, 'idle': idle,
                'ncallers': ncallers, 'mix': sorted(mix), 'pipelining': rx.random() < 0.7,
                'seed': seed * 1000003 + 500000 + j}
        case.update(extra_kw)
        if mode == 'http':
            case['http_timeout'] = 0.03 if 'timeout' in mix else None
        elif 'badenv' in mix and 'cmd_timeout' not in case:
            case['cmd_timeout'] = 0.3   # the client's QUIT after the failure goes unanswered (sent inside DATA)
        if idx % nshards == shard:
            yield case
    # ---- HTTP next hop that completes the response head and stalls / trickles / cuts the announced body on a kept
    # connection; 1..3 further attempts; the relay timeout is small (own PRNG stream)
    rh = random.Random('c19h-%d' % seed)
    for j in range(72 if tier == 'quick' else 1100):
        pool_size = rh.choice([1, 1, 2, None])
        mix = set(k for k in ('txn', 'refuse', 'close') if rh.random() < 0.25) | {'bodystall'}
        case = {'stratum': 'httpstall', 'arrival': 'trickle' if pool_size is None else rh.choice(['bursty', 'bursty', 'trickle']),
                'mode': 'http', 'pool_size': pool_size, 'idle': 0.05, 'ncallers': (pool_size or 1) + rh.randint(1, 3),
                'mix': sorted(mix), 'pipelining': True, 'http_timeout': 0.05, 'seed': seed * 1000003 + 700000 + j}
        if j % nshards == shard:
            yield case
    # ---- MAIL / RCPT / end-of-data (per recipient for LMTP) answered with 1xx / 3xx / out-of-range codes on reused
    # connections with a backlog (own PRNG stream)
    ro = random.Random('c19o-%d' % seed)
    for j in range(72 if tier == 'quick' else 1100):
        pool_size = ro.choice([1, 1, 2])
        mix = set(k for k in ('txn', 'slow', 'idle421') if ro.random() < 0.25) | {'oddcode'}
        case = {'stratum': 'oddcode', 'arrival': ro.choice(['bursty', 'bursty', 'trickle']),
                'mode': ro.choice(['smtp', 'lmtp']), 'pool_size': pool_size, 'idle': 0.03,
                'ncallers': ro.randint(4, 10), 'mix': sorted(mix), 'pipelining': ro.random() < 0.7,
                'seed': seed * 1000003 + 800000 + j}
        if j % nshards == shard:
            yield case
    # ---- the BlockingDeque itself: every public mutator, blocking poppers
    for j in range(48 if tier == 'quick' else 800):
        nops = rx.randint(10, 60)
        if j % nshards == shard:
            yield {'stratum': 'deque', 'mode': 'deque', 'nops': nops, 'seed': seed * 1000003 + 900000 + j}


# ------------------------------------------------------------------------------- the oracle
def _txn_failed(t, lmtp):
    if not t['mail_ok']:
        return 'mail'
    if not t['rcpts_accepted']:
        return 'rcpt'
    if not t['data_ok']:
        return 'data'
    eod = [t['eod'].get(r) for r in t['rcpts_accepted']]
    if not eod or not all(eod):
        return 'eod'
    return None


def _owner(addr):
    """caller index encoded in a sender / recipient address of the workload."""
    try:
        local = addr.split('@')[0]
        return int(local[4:]) if local.startswith('from') else int(local[1:].split('.')[0])
    except Exception:
        return None


STAGE_OF_CMD = {b'MAIL': 'mail', b'RCPT': 'rcpt', b'DATA': 'data', b'[SEND_DATA]': 'eod', b'[BANNER]': 'banner',
                b'EHLO': 'ehlo', b'LHLO': 'ehlo', b'HELO': 'helo', b'RSET': 'rset', b'QUIT': 'quit'}
STAGE_STAMP = re.compile(r'(?<= )@([a-z]+)\d*')     # addresses never have a blank before '@'


def _exc_class(e):
    """stable classes of what killed a pool client"""
    import http.client
    if isinstance(e, http.client.ResponseNotReady):
        return 'previous-response-on-reused-connection-never-read'
    if isinstance(e, (OSError, http.client.HTTPException)):
        return 'connection-error'
    return type(e).__name__


def judge(lab, out, R):
    mode = lab.mode
    case = lab.case
    V = []

    def viol(mech, what, wit):
        V.append(mech)
        R.violation(mech, what, wit)

    # ---- (a) bound
    R.hit('bound-observed')
    srv_max = lab.ds.max_live if lab.ds is not None else lab.http.max_live
    if lab.pool_size:
        if mode == 'mx':
            R.hit('mx-bound-observed')      # lab.max_open is the maximum over the destinations (host, port)
        if lab.max_open > lab.pool_size:
            w = lab.bound_witness or {}
            how = 'client-spawned-by-%s' % w.get('last_origin')
            if w.get('pools_for_this_destination', 1) > 1:
                how = 'several-pools-for-one-destination'
            viol('bound-exceeded/%s/%s' % (mode, how),
                 '%d next-hop connections to one destination open at once with pool_size=%d'
                 % (lab.max_open, lab.pool_size), w)
        elif srv_max > lab.pool_size and mode != 'mx':
            R.count('server-side-count-lagged-behind-client-close')

    # ---- (b) own result, (f) safety
    if lab.ds is not None:
        accepted = lab.ds.accepted()
    else:
        accepted = collections.defaultdict(set)
        for c in lab.http.conns:
            for t in c.txns:
                if t['accepted'] and t['marker']:
                    accepted[t['marker']].update(t['rcpts'])
    accepted_in = collections.defaultdict(list)      # marker -> [(conn, txn, recipients accepted at end-of-data)]
    if lab.ds is not None:
        for dc in lab.ds.conns:
            for n, t in enumerate(dc.txns):
                ok = set(r for r in t['rcpts_accepted'] if t['eod'].get(r))
                if ok and t['marker']:
                    accepted_in[t['marker']].append((dc.n, n, ok))
    else:
        for hc in lab.http.conns:
            for n, t in enumerate(hc.txns):
                if t['accepted'] and t['marker']:
                    accepted_in[t['marker']].append((hc.n, n, set(t['rcpts'])))
    # ---- one attempt transmits its envelope once (a request handed back / taken twice would deliver twice)
    R.hit('single-transmission-checked')
    for mk, where in accepted_in.items():
        if len(where) > 1:
            viol('envelope-transmitted-twice/%s' % mode,
                 'the next hop accepted the message of one attempt() in more than one transaction',
                 {'marker': mk, 'accepted_in': [(a, b, sorted(r)) for a, b, r in where]})
    # ---- a result slot belongs to one attempt and is written once
    for c in lab.callers:
        sets = getattr(c.request[0], 'sets', None) if c.request else None
        if sets is None:
            continue
        R.hit('result-slot-writes-checked')
        if len(sets) > 1:
            if len(set(sets)) > 1:
                viol('result-slot-written-twice/%s/%s' % (mode, '-then-'.join(sets[:2])),
                     'the result of one attempt was written more than once, with a different kind of outcome',
                     {'caller': c.marker, 'writes': sets})
            else:
                R.count('result-slot-written-again-with-same-kind')
    for c in lab.callers:
        if not c.done:
            continue
        if c.gave_up:
            R.count('caller-gave-up')
            if accepted_in.get(c.marker):
                R.count('abandoned-request-delivered-anyway')
            continue
        # an envelope that cannot be serialised makes the client raise an unexpected exception: that failure goes
        # to the caller of that envelope (as it is, or wrapped in a relay error) and to nobody else
        got = str(c.crash if c.crash is not None else c.error if c.error is not None else '')
        if 'flatten failed for [' in got:
            R.hit('unexpected-client-exception-attributed')
            if not c.bad_envelope or ('[%s]' % c.marker) not in got:
                viol('foreign-result/%s/unexpected-exception' % mode,
                     'attempt() raised the unexpected exception another envelope had caused',
                     {'caller': c.marker, 'got': got[:200]})
            continue
        if c.crash is not None:
            R.count('attempt-raised-non-relay-exception')
            R.observe('non-relay-exception', type(c.crash).__name__)
            continue
        if isinstance(c.result, dict) and set(c.result) != set(c.rcpts):
            viol('foreign-result/%s/recipient-keys' % mode, 'result mapping has other recipients than the envelope',
                 {'own': c.rcpts, 'keys': sorted(map(str, c.result))})
        for where, rcpt, reply, is_err in lab.replies_of(c):
            if reply is None:
                R.count('result-item-without-reply')
                continue
            text = '%s %s' % (reply.code, reply.message)
            # ---- reply-stream alignment: the reply stored for command X must be the one the next hop sent for X
            st = STAGE_STAMP.search(text)
            want = STAGE_OF_CMD.get(reply.command)
            # a code outside 1xx-5xx is a malformed reply for slimta: the client-made 421 only *quotes* the next hop's
            # line (tag and stage stamp included) and the connection is dropped
            quoted = 'Bad SMTP reply from server' in text
            if quoted:
                R.count('client-made-reply-quoting-malformed-next-hop-reply')
            if st and want and not quoted:
                R.hit('reply-alignment-checked')
                if st.group(1) != want:
                    viol('reply-stream-shifted/%s' % mode,
                         'the reply recorded for one command is the next hop\'s reply to another command '
                         '(reply stream of a reused connection out of step)',
                         {'caller': c.marker, 'command': reply.command, 'reply': text,
                          'command_stage': want, 'reply_answers_stage': st.group(1)})
            # ---- reported failed although the next hop accepted that very transaction
            if is_err and lab.ds is not None:
                failed_rcpts = set(c.rcpts) if rcpt is None else {rcpt}
                server_made = ('[c' in text or STAGE_STAMP.search(text) is not None) and not quoted
                for cn_, tn_, okset in accepted_in.get(c.marker, ()):
                    hit = failed_rcpts & okset
                    if not hit:
                        continue
                    if not server_made or (cn_, tn_) in lab.late_keys:
                        R.count('reported-failed-after-own-timeout-although-accepted')
                        continue
                    viol('accepted-but-reported-failed/%s' % mode,
                         'attempt reported failed with a next-hop reply although the next hop accepted this very '
                         'transaction (a retry would deliver twice)',
                         {'caller': c.marker, 'rcpts': sorted(hit), 'reply': text, 'command': reply.command,
                          'accepted_in': [cn_, tn_]})
            m = P.TAG.search(text)
            if not m:
                R.count('result-reply-untagged')
                continue
            cn, tn, mk = int(m.group(1)), int(m.group(2)), m.group(3)
            R.hit('results-attributed')
            conns = lab.ds.conns if lab.ds is not None else lab.http.conns
            foreign = None
            if mk != '-':
                if mk != c.marker:
                    foreign = 'marker %s' % mk
            else:
                try:
                    t = conns[cn].txns[tn]
                except IndexError:
                    t = None
                if t is None:
                    # no such transaction in the next hop's log: a connection-level reply (banner)
                    R.count('result-reply-connection-level')
                elif lab.ds is not None:
                    if t['sender'] != c.sender or not set(t['rcpts_offered']) <= set(c.rcpts):
                        foreign = 'transaction of %s' % t['sender']
                elif t['sender'] != [c.sender]:
                    foreign = 'transaction of %s' % t['sender']
            if foreign is None and where == 'rcpt' and '<' in text and '.test>' in text:
                a = text[text.index('<') + 1:text.index('>')]
                if a != rcpt:
                    foreign = 'reply about recipient %s stored for %s' % (a, rcpt)
            if foreign:
                viol('foreign-result/%s/%s-%s' % (mode, where, 'error' if is_err else 'success'),
                     'attempt() outcome of one envelope carries the reply of another transaction',
                     {'caller': c.marker, 'reply': text, 'foreign': foreign})
            if is_err is False:
                R.hit('delivered-crosschecked')
                ok = (rcpt in accepted.get(c.marker, ())) if rcpt is not None else bool(accepted.get(c.marker))
                if not ok:
                    viol('delivered-not-accepted/%s' % mode,
                         'recipient reported delivered although the next hop never accepted it for that message',
                         {'caller': c.marker, 'rcpt': rcpt, 'reply': text,
                          'accepted': sorted(accepted.get(c.marker, ()))})

    # ---- (c) stranded
    R.hit('quiescence-judged')
    if out['stranded']:
        seen = set()
        for c, why in out['stranded']:
            h = lab.holder.get(id(c.request[0])) if c.request else None
            if why == 'request-in-nobodys-hands':
                if h is None:
                    cause = 'never-taken'
                elif lab.kill is not None and isinstance(h.value, gevent.GreenletExit):
                    cause = 'client-killed-by-relay-kill-without-setting-result'
                elif lab.kill is not None and isinstance(h.exception, AssertionError):
                    # killed before its connection existed: _disconnect() trips over its own assert (kill() walks
                    # the live pool set, so its victims can be clients added after the call began)
                    cause = 'client-killed-by-relay-kill-while-connecting-without-setting-result'
                elif h.exception is not None:
                    cause = 'client-died-without-setting-result/' + _exc_class(h.exception)
                else:
                    cause = 'client-exited-without-setting-result'
            elif why == 'queued-but-no-client':
                cause = 'last-client-left-without-respawn'
            elif why == 'queued-while-only-finished-clients-occupy-the-pool':
                cause = 'finished-client-never-removed'
            else:
                q = c.pool.queue
                cause = 'semaphore-out-of-step' if q.sema.counter != len(q) else 'clients-not-woken'
            mech = 'stranded/%s/%s/%s' % (mode, why, cause)
            if mech in seen:
                continue
            seen.add(mech)
            viol(mech, 'caller blocked in attempt() for ever: %s' % why,
                 {'caller': c.marker, 'pool': len(c.pool.pool), 'queue': len(c.pool.queue),
                  'destination': c.pool._dest, 'kill': None if lab.kill is None else lab.kill['inflight'],
                  'holder_exception': repr(getattr(h, 'exception', None)), 'crashes': lab.crashes[-3:],
                  'blocked_callers': [b.marker for b in lab.blocked()], 'events_tail': lab.events[-14:]})
    elif out['watchdog']:
        R.inconclusive('watchdog: callers still blocked while clients were busy')
    elif out['quiesce_watchdog']:
        R.inconclusive('watchdog: clients (or relay.kill()) still busy after every caller had its answer')

    # ---- (c') a request in the hands of a client that outlived the relay timeout (stalled next hop); judged in hub
    # timer order, see PoolLab._patience
    if case.get('stratum') == 'httpstall':
        R.hit('stalled-http-body-judged')
    seen = set()
    for c, wit in out.get('blocked_past_timeout', ()):
        why = 'previous-response-body-unfinished' if wit['unfinished_bodies_on_its_connections'] else 'other'
        mech = 'stranded/%s/held-by-busy-client-past-relay-timeout/%s' % (mode, why)
        if mech not in seen:
            seen.add(mech)
            viol(mech, 'attempt() still without a result after 4 x 1.25 relay timeouts in the hands of a live client '
                 'while the next hop stalls; requests queued behind it wait as well', wit)

    # ---- (h) relay.kill() with attempts queued / in flight
    if lab.kill is not None:
        R.hit('kill-judged')
        e = lab.kill.get('error')
        if e is not None:
            viol('kill-raised/%s/%s' % (mode, type(e).__name__),
                 'RelayPool.kill() raised instead of ending the pool\'s clients',
                 {'error': repr(e)[:200], 'clients_at_kill': lab.kill['clients'], 'in_flight': lab.kill['inflight'],
                  'queued': lab.kill['queued'], 'events_tail': lab.kill.get('events_tail')})

    # ---- (i) the quiescent state: every caller answered (or gone), no client busy, idle timeouts elapsed
    if not out['stranded'] and not out['watchdog'] and not out['quiesce_watchdog']:
        R.hit('quiescent-state-judged')
        for f in out['final']:
            if f['queue_left']:
                who = 'no-client-left' if not f['pool'] else 'clients-asleep-or-finished'
                viol('quiescent/%s/request-left-in-queue/%s' % (mode, who),
                     'a request stays queued for ever although no caller and no client is active any more',
                     dict(f, events_tail=lab.events[-14:],
                          gave_up=[c.marker for c in lab.callers if c.gave_up]))
            if f['dead_in_pool']:
                viol('quiescent/%s/finished-client-still-in-pool' % mode,
                     'a finished client greenlet still occupies a slot of the pool', dict(f))
            if lab.pool_size and f['pool'] > lab.pool_size:
                viol('quiescent/%s/more-clients-than-pool-size' % mode, 'pool holds more clients than pool_size',
                     dict(f))
            if f['sleeping'] and not case['idle'] and mode != 'http':
                R.count('client-left-sleeping-in-poll-without-idle-timeout', f['sleeping'])
        if out['live_outside_pool']:
            viol('quiescent/%s/live-client-not-in-pool' % mode,
                 'a running client greenlet is not a member of its pool (not counted against the bound)',
                 {'n': out['live_outside_pool']})
        if out['leaked_sockets']:
            viol('quiescent/%s/socket-left-open-by-finished-client' % mode,
                 'a next-hop connection is still open although the client greenlet that opened it has ended',
                 {'connections': out['leaked_sockets'], 'events_tail': lab.events[-14:]})

    # ---- (d) one message at a time, reset before reuse
    if lab.ds is not None:
        lmtp = mode == 'lmtp'
        for c in lab.ds.conns:
            for a in c.anomalies:
                viol('mail-while-transaction-open/%s' % mode, 'MAIL arrived while the previous transaction was open',
                     {'conn': c.n, 'anomaly': a, 'commands': [v for v, _ in c.commands]})
            for n, t in enumerate(c.txns):
                owners = set([_owner(t['sender'])] + [_owner(r) for r in t['rcpts_offered']])
                if t['marker']:
                    owners.add(int(t['marker'][1:]))
                if len(owners) != 1:
                    viol('transaction-mixes-envelopes/%s' % mode, 'one transaction carries parts of two envelopes',
                         {'conn': c.n, 'txn': n, 'sender': t['sender'], 'rcpts': t['rcpts_offered'],
                          'marker': t['marker']})
            k = -1
            rset_since = False
            for verb, _ in c.commands:
                if verb == 'RSET':
                    rset_since = True
                elif verb == 'MAIL':
                    if k >= 0:
                        failed = _txn_failed(c.txns[k], lmtp)
                        if failed:
                            R.hit('reset-after-failure-checked')
                            if not rset_since:
                                viol('no-reset-after-failed-transaction/%s/failed-at-%s' % (mode, failed),
                                     'next MAIL on a reused connection without RSET after a failed transaction',
                                     {'conn': c.n, 'txn': k, 'commands': [v for v, _ in c.commands]})
                    k += 1
                    rset_since = False
            if len(c.txns) > 1:
                R.hit('reuse', len(c.txns) - 1)
    else:
        R.hit('reset-after-failure-checked', 0)
        for c in lab.http.conns:
            if len(c.txns) > 1:
                R.hit('reuse', len(c.txns) - 1)

    # ---- (e) deque invariant
    R.hit('deque-invariant-checked', lab.cnt['deque-checks'])
    if lab.invariant_breaks:
        viol('deque-invariant/sema-counter-differs-from-length',
             'BlockingDeque semaphore counter != number of queued requests at a harness observation point',
             {'breaks': lab.invariant_breaks[:4]})
    return V


def run_deque_case(case, R):
    breaks, stats = P.deque_ops(case)
    R.eval(case['nops'])
    R.hit('deque-mutators-checked', stats['checks'])
    for k, v in stats.items():
        R.count('deque:' + k, v)
    for b in breaks[:1]:        # the operation after which it first went wrong; everything later is a consequence
        mech = 'deque-invariant/direct/%s/%s' % (b['op'], b['what'].replace(' ', '-').replace('!=', 'differs-from'))
        R.violation(mech, 'BlockingDeque: %s after %s' % (b['what'], b['op']), dict(b, later_breaks=len(breaks) - 1))
    R.observe('config', ('deque', case['nops'], case['seed']))
    R.nontrivial(('deque', case['nops'] // 10, stats['popper-waiting-on-empty-deque'] > 0, stats['op:clear'] > 0))


def run_case(case, R):
    if case['mode'] == 'deque':
        return run_deque_case(case, R)
    lab = P.PoolLab(case)
    try:
        out = lab.run()
        R.eval(len(lab.callers))
        judge(lab, out, R)
        # ---- coverage
        R.hit('idle-expiry', lab.cnt['idle-expiry'])
        R.hit('requeue', lab.cnt['requeue'])
        R.hit('respawn-after-last-exit', lab.cnt['respawn'])
        R.hit('late-rset-with-followers-queued', lab.cnt['late-rset-with-followers-queued'])
        for k in ('caller-gave-up-while-queued', 'caller-gave-up-in-flight', 'kill-with-attempts-in-flight',
                  'client-death-with-work-queued'):
            R.hit(k, lab.cnt[k])
        R.hit('http-reuse-with-unfinished-response-body', lab.cnt['http-reuse-with-unfinished-response-body'])
        if case['mode'] == 'mx':
            R.hit('mx-several-destinations', 1 if len(lab.pools) > 1 else 0)
            R.hit('mx-destination-shared-by-domains', lab.shared_destinations())
            R.count('mx:pools', len(lab.pools))
        for k, v in lab.cnt.items():
            if k.startswith(('fault:', 'gate:', 'idle-expiry-', 'race:', 'snipe', 'late-', 'death:', 'giveup:',
                             'kill:', 'mx:', 'stall:', 'http-reuse:', 'patience')):
                R.count(k, v)
        if case['idle'] and out['open_left'] and not out['stranded']:
            R.count('connections-still-open-after-idle-timeout', out['open_left'])
        R.count('runs')
        R.count('callers', len(lab.callers))
        R.count('connections', len(lab.ds.conns) if lab.ds is not None else len(lab.http.conns))
        R.count('client-greenlet-crashes', len(lab.crashes))
        key = (case['mode'], case['pool_size'], case['idle'], case['ncallers'], tuple(case['mix']))
        if case.get('stratum'):
            key += (case['stratum'],)
        R.observe('config', key)
        R.observe('interleaving', lab.signature())
        nfault = sum(v for k, v in lab.cnt.items() if k.startswith('fault:'))
        if case['pool_size'] and case['ncallers'] > case['pool_size'] and (nfault or lab.cnt['idle-expiry']):
            R.nontrivial(key)
            R.sample({'case': case, 'faults': {k: v for k, v in lab.cnt.items() if k.startswith('fault:')},
                      'max_open': lab.max_open, 'requeue': lab.cnt['requeue'], 'idle_expiry': lab.cnt['idle-expiry'],
                      'respawn': lab.cnt['respawn']})
    finally:
        lab.cleanup()


def shard_cleanup():
    gevent.sleep(0)
