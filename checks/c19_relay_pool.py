"""C19 -- relay connection pools stay within bounds and strand no request.

PoolLab (vf/poollab.py): the real StaticSmtpRelay / StaticLmtpRelay / HttpRelay with their real pool
clients, RelayPool and BlockingDeque; 1..12 concurrent relay.attempt(envelope, 0) callers arriving in
seeded bursts; a scripted next hop (vf.downstream.Downstream on socketpairs handed over through the
documented socket_creator argument; a loopback HTTP server for HttpRelay) that refuses connects, closes at
scripted stages, pushes 421 on an idling connection, fails single transactions, answers slowly, and holds
connects / replies on gates which the harness releases in a seeded order.

Judged offline from the records:
 (a) BOUND      simultaneously open next-hop connections <= pool_size
 (b) OWN RESULT every Reply inside what attempt() returned/raised carries the caller's own marker (the next
                hop embeds '[c<conn> t<txn> <marker>]' in its replies; '-' markers are resolved through the
                next hop's transaction log)
 (c) STRANDED   at quiescence (faults off, gates released, idle timeouts elapsed) no caller is still blocked
                while the pool is empty / every client sleeps in poll() / its request is in nobody's hands
 (d) ONE AT A TIME  no MAIL while the previous transaction is open, no transaction mixing two envelopes,
                RSET between a failed transaction and the next MAIL on the same connection
 (e) DEQUE      queue.sema.counter == len(queue) whenever the harness greenlet looks
 (f) SAFETY     a recipient reported delivered was positively accepted by the next hop for that marker; and the
                other direction: a recipient reported failed *with a next-hop reply* was not accepted by the next hop
                in that very transaction (client-made timeout replies are the legitimate uncertain case)
 (g) ALIGNMENT  every reply is stamped by the next hop with the stage it answers; the reply slimta recorded for a
                command must be the reply to that command (a reused connection whose reply stream is off by one)
"""
import re
import random
import collections

import gevent

from vf import poollab as P

PROPERTY = 'C19'
LEVEL = 'exploration'
LEVEL_TEXT = ('Real StaticSmtpRelay, StaticLmtpRelay and HttpRelay pools (pool_size 1,2,3,unbounded; idle_timeout '
              'none or 0.03 s) driven by 1..12 concurrent attempt() callers in seeded bursts against a scripted next '
              'hop with refused connects, closes at scripted stages, 421 pushed on idle connections, per-transaction '
              '4xx/5xx, slow replies, and gates at connect / QUIT / end-of-data / idle released in seeded order '
              '(callers arriving while a client is connecting or exiting), one-at-a-time "trickle" arrivals that meet '
              'idling clients, and self-timed callers aimed at the instant a client\'s idle timer expires. Held = none of the six oracle clauses '
              'violated on the schedules reported in the evidence (distinct interleavings counted); not a proof over '
              'all interleavings. Idle expiry is real-time (0.03 s), so which caller meets an expiring client varies '
              'between replays.')
LEVEL_NOTE = ('Trusted: vf.downstream.Downstream / HttpDown as independent observers (own parsers, own counters), '
              'pass-through observers (CountingDeque, Observed* relay subclasses) that only record, gevent.idle() '
              'quiescence detection, stranding predicates evaluated only in stable states and confirmed after the '
              'idle timeout. Schedule control only via burst arrival, caller-side timers and gate release order. '
              'HttpRelay has no socket_creator: slimta.relay.http.get_connection is wrapped during a run so that the '
              'real slimta.http.HTTPConnection connects over a socketpair to the scripted HTTP next hop (the shared '
              'sandbox has no dependable loopback ports); everything above the socket is the real code. The three '
              'HttpRelay findings were re-confirmed over real TCP against gevent.pywsgi (see reproducer).')
TECHNIQUE = ('runtime monitoring: boundary records (next-hop connection/transaction log, reply tags, deque hooks) '
             'judged by a deterministic offline oracle; invariant at a hook for the deque; gated schedule exploration')
RULE = ('case = (mode smtp|lmtp|http, pool_size, idle_timeout, ncallers, fault mix, pipelining, arrival, seed); 40% '
        'free configurations, 60% focused strata (server-timeout requeue incl. unbounded pools, reset after failed '
        'transactions, callers racing exiting/connecting clients); fault '
        'decisions are a pure hash of (seed, connection, transaction, stage); the harness plan (bursts, gate releases, '
        'naps) is drawn from the seed. non-trivial = bounded pool with more callers than pool_size and >= 1 applied '
        'fault or idle expiry; distinct by (mode, pool_size, idle, ncallers, fault mix)')
ASSUMPTIONS = ['in the "late" stratum the relay runs with command_timeout 0.06 s and the next hop answers 0.15 s late: '
               'client-made timeout results are expected there and are not judged as foreign/failed-though-accepted',
               'RelayPool.kill() and MxSmtpRelay (per-destination static relays) are outside the explored workload',
               'slimta command/connect timeouts (4 s) never fire: every scripted delay / gate hold is far shorter, '
               'except the HttpRelay request timeout which is scripted to fire deliberately',
               'a transaction that ended with an accepted end-of-data (even if some RCPTs were refused) is not a '
               'failed transaction; failed = MAIL refused, no RCPT accepted, DATA refused, or end-of-data refused '
               '(LMTP: for any recipient)',
               'live connection = open at both ends (a connection the next hop has already closed does not count)']
REQUIRED_HITS = ['reply-alignment-checked', 'late-rset-with-followers-queued', 'bound-observed', 'results-attributed', 'quiescence-judged', 'deque-invariant-checked',
                 'reset-after-failure-checked', 'reuse', 'idle-expiry', 'requeue', 'respawn-after-last-exit',
                 'delivered-crosschecked']
SHARDS = {'quick': 12, 'thorough': 16}
BUDGET = {'quick': 50, 'thorough': 700}

SMTP_KINDS = ['refuse', 'close', 'idle421', 'txn', 'slow', 'gates']     # + 'late' (needs a small command_timeout)
LATE_CMD_TIMEOUT = 0.06
HTTP_KINDS = ['refuse', 'close', 'txn', 'idleclose', 'timeout', 'slow', 'gates']


def gen_cases(tier, seed, shard, nshards):
    total = 600 if tier == 'quick' else 10400
    rnd = random.Random('c19-%d' % seed)
    for idx in range(total):
        mode = rnd.choice(['smtp', 'smtp', 'smtp', 'lmtp', 'lmtp', 'http'])
        pool_size = rnd.choice([1, 1, 2, 2, 3, None])
        idle = rnd.choice([None, 0.03, 0.03])
        ncallers = rnd.choice([1, 2, 3, 3, 4, 4, 5, 6, 7, 8, 10, 12])
        kinds = HTTP_KINDS if mode == 'http' else SMTP_KINDS
        mix = set(k for k in kinds if rnd.random() < 0.5)
        focus = rnd.choice(['any', 'any', 'requeue', 'reset', 'exit-race', 'late'])
        if focus == 'requeue':        # server-initiated timeout on a reused connection with a backlog
            idle, pool_size, ncallers = 0.03, rnd.choice([1, 2, None, None]), rnd.randint(4, 12)
            mix = (mix - {'gates'} if rnd.random() < 0.5 else mix) | {'idleclose' if mode == 'http' else 'idle421'}
        elif focus == 'reset':        # failed transactions followed by another message on the connection
            idle, pool_size, ncallers = 0.03, rnd.choice([1, 2, 3]), rnd.randint(4, 12)
            mix = mix | {'txn'}
        elif focus == 'exit-race':    # callers arriving while clients are held at connect / QUIT
            pool_size = rnd.choice([1, 1, 2, 3])
            ncallers = max(ncallers, pool_size + 1)
            mix = mix | {'gates'}
        elif focus == 'late':         # replies later than command_timeout (RSET after a failed transaction,
            # other stages) on reused connections while followers are already queued behind a full pool
            if mode == 'http':
                mode, mix = rnd.choice(['smtp', 'lmtp']), set(k for k in SMTP_KINDS if rnd.random() < 0.3)
            idle, pool_size, ncallers = 0.03, rnd.choice([1, 1, 2]), rnd.randint(4, 9)
            mix = (mix - {'gates', 'refuse'}) | {'txn', 'late'}
        mix = sorted(mix)
        arrival = 'trickle' if (pool_size is None and idle and rnd.random() < 0.8) or rnd.random() < 0.15 else 'bursty'
        case = {'arrival': arrival, 'mode': mode, 'pool_size': pool_size, 'idle': idle, 'ncallers': ncallers, 'mix': mix,
                'pipelining': rnd.random() < 0.7, 'seed': seed * 1000003 + idx}
        if 'late' in mix:
            case['cmd_timeout'] = LATE_CMD_TIMEOUT
            case['arrival'] = 'bursty'
        if mode == 'http':
            case['http_timeout'] = 0.03 if 'timeout' in mix else None
        if idx % nshards == shard:
            yield case


# ------------------------------------------------------------------------------- the oracle
def _txn_failed(t, lmtp):
    if not t['mail_ok']:
        return 'mail'
    if not t['rcpts_accepted']:
        return 'rcpt'
    if not t['data_ok']:
        return 'data'
    eod = [t['eod'].get(r) for r in t['rcpts_accepted']]
    if not eod or not all(eod):
        return 'eod'
    return None


def _owner(addr):
    """caller index encoded in a sender / recipient address of the workload."""
    try:
        local = addr.split('@')[0]
        return int(local[4:]) if local.startswith('from') else int(local[1:].split('.')[0])
    except Exception:
        return None


STAGE_OF_CMD = {b'MAIL': 'mail', b'RCPT': 'rcpt', b'DATA': 'data', b'[SEND_DATA]': 'eod', b'[BANNER]': 'banner',
                b'EHLO': 'ehlo', b'LHLO': 'ehlo', b'HELO': 'helo', b'RSET': 'rset', b'QUIT': 'quit'}
STAGE_STAMP = re.compile(r'(?<= )@([a-z]+)\d*')     # addresses never have a blank before '@'


def _exc_class(e):
    """stable classes of what killed a pool client"""
    import http.client
    if isinstance(e, http.client.ResponseNotReady):
        return 'previous-response-on-reused-connection-never-read'
    if isinstance(e, (OSError, http.client.HTTPException)):
        return 'connection-error'
    return type(e).__name__


def judge(lab, out, R):
    mode = lab.mode
    case = lab.case
    V = []

    def viol(mech, what, wit):
        V.append(mech)
        R.violation(mech, what, wit)

    # ---- (a) bound
    R.hit('bound-observed')
    srv_max = lab.ds.max_live if lab.ds is not None else lab.http.max_live
    if lab.pool_size:
        if lab.max_open > lab.pool_size:
            w = lab.bound_witness or {}
            viol('bound-exceeded/%s/client-spawned-by-%s' % (mode, w.get('last_origin')),
                 '%d next-hop connections open at once with pool_size=%d' % (lab.max_open, lab.pool_size), w)
        elif srv_max > lab.pool_size:
            R.count('server-side-count-lagged-behind-client-close')

    # ---- (b) own result, (f) safety
    if lab.ds is not None:
        accepted = lab.ds.accepted()
    else:
        accepted = collections.defaultdict(set)
        for c in lab.http.conns:
            for t in c.txns:
                if t['accepted'] and t['marker']:
                    accepted[t['marker']].update(t['rcpts'])
    accepted_in = collections.defaultdict(list)      # marker -> [(conn, txn, recipients accepted at end-of-data)]
    if lab.ds is not None:
        for dc in lab.ds.conns:
            for n, t in enumerate(dc.txns):
                ok = set(r for r in t['rcpts_accepted'] if t['eod'].get(r))
                if ok and t['marker']:
                    accepted_in[t['marker']].append((dc.n, n, ok))
    for c in lab.callers:
        if not c.done:
            continue
        if c.crash is not None:
            R.count('attempt-raised-non-relay-exception')
            R.observe('non-relay-exception', type(c.crash).__name__)
            continue
        if isinstance(c.result, dict) and set(c.result) != set(c.rcpts):
            viol('foreign-result/%s/recipient-keys' % mode, 'result mapping has other recipients than the envelope',
                 {'own': c.rcpts, 'keys': sorted(map(str, c.result))})
        for where, rcpt, reply, is_err in lab.replies_of(c):
            if reply is None:
                R.count('result-item-without-reply')
                continue
            text = '%s %s' % (reply.code, reply.message)
            # ---- reply-stream alignment: the reply stored for command X must be the one the next hop sent for X
            st = STAGE_STAMP.search(text)
            want = STAGE_OF_CMD.get(reply.command)
            if st and want:
                R.hit('reply-alignment-checked')
                if st.group(1) != want:
                    viol('reply-stream-shifted/%s' % mode,
                         'the reply recorded for one command is the next hop\'s reply to another command '
                         '(reply stream of a reused connection out of step)',
                         {'caller': c.marker, 'command': reply.command, 'reply': text,
                          'command_stage': want, 'reply_answers_stage': st.group(1)})
            # ---- reported failed although the next hop accepted that very transaction
            if is_err and lab.ds is not None:
                failed_rcpts = set(c.rcpts) if rcpt is None else {rcpt}
                server_made = '[c' in text or STAGE_STAMP.search(text) is not None
                for cn_, tn_, okset in accepted_in.get(c.marker, ()):
                    hit = failed_rcpts & okset
                    if not hit:
                        continue
                    if not server_made or (cn_, tn_) in lab.late_keys:
                        R.count('reported-failed-after-own-timeout-although-accepted')
                        continue
                    viol('accepted-but-reported-failed/%s' % mode,
                         'attempt reported failed with a next-hop reply although the next hop accepted this very '
                         'transaction (a retry would deliver twice)',
                         {'caller': c.marker, 'rcpts': sorted(hit), 'reply': text, 'command': reply.command,
                          'accepted_in': [cn_, tn_]})
            m = P.TAG.search(text)
            if not m:
                R.count('result-reply-untagged')
                continue
            cn, tn, mk = int(m.group(1)), int(m.group(2)), m.group(3)
            R.hit('results-attributed')
            conns = lab.ds.conns if lab.ds is not None else lab.http.conns
            foreign = None
            if mk != '-':
                if mk != c.marker:
                    foreign = 'marker %s' % mk
            else:
                try:
                    t = conns[cn].txns[tn]
                except IndexError:
                    t = None
                if t is None:
                    # no such transaction in the next hop's log: a connection-level reply (banner)
                    R.count('result-reply-connection-level')
                elif lab.ds is not None:
                    if t['sender'] != c.sender or not set(t['rcpts_offered']) <= set(c.rcpts):
                        foreign = 'transaction of %s' % t['sender']
                elif t['sender'] != [c.sender]:
                    foreign = 'transaction of %s' % t['sender']
            if foreign is None and where == 'rcpt' and '<' in text and '@d.test>' in text:
                a = text[text.index('<') + 1:text.index('>')]
                if a != rcpt:
                    foreign = 'reply about recipient %s stored for %s' % (a, rcpt)
            if foreign:
                viol('foreign-result/%s/%s-%s' % (mode, where, 'error' if is_err else 'success'),
                     'attempt() outcome of one envelope carries the reply of another transaction',
                     {'caller': c.marker, 'reply': text, 'foreign': foreign})
            if is_err is False:
                R.hit('delivered-crosschecked')
                ok = (rcpt in accepted.get(c.marker, ())) if rcpt is not None else bool(accepted.get(c.marker))
                if not ok:
                    viol('delivered-not-accepted/%s' % mode,
                         'recipient reported delivered although the next hop never accepted it for that message',
                         {'caller': c.marker, 'rcpt': rcpt, 'reply': text,
                          'accepted': sorted(accepted.get(c.marker, ()))})

    # ---- (c) stranded
    R.hit('quiescence-judged')
    if out['stranded']:
        seen = set()
        for c, why in out['stranded']:
            h = lab.holder.get(id(c.request[0])) if c.request else None
            if why == 'request-in-nobodys-hands':
                if h is None:
                    cause = 'never-taken'
                elif h.exception is not None:
                    cause = 'client-died-without-setting-result/' + _exc_class(h.exception)
                else:
                    cause = 'client-exited-without-setting-result'
            elif why == 'queued-but-no-client':
                cause = 'last-client-left-without-respawn'
            else:
                q = lab.relay.queue
                cause = 'semaphore-out-of-step' if q.sema.counter != len(q) else 'clients-not-woken'
            mech = 'stranded/%s/%s/%s' % (mode, why, cause)
            if mech in seen:
                continue
            seen.add(mech)
            viol(mech, 'caller blocked in attempt() for ever: %s' % why,
                 {'caller': c.marker, 'pool': len(lab.relay.pool), 'queue': len(lab.relay.queue),
                  'holder_exception': repr(getattr(h, 'exception', None)), 'crashes': lab.crashes[-3:],
                  'blocked_callers': [b.marker for b in lab.blocked()], 'events_tail': lab.events[-14:]})
    elif out['watchdog']:
        R.inconclusive('watchdog: callers still blocked while clients were busy')

    # ---- (d) one message at a time, reset before reuse
    if lab.ds is not None:
        lmtp = mode == 'lmtp'
        for c in lab.ds.conns:
            for a in c.anomalies:
                viol('mail-while-transaction-open/%s' % mode, 'MAIL arrived while the previous transaction was open',
                     {'conn': c.n, 'anomaly': a, 'commands': [v for v, _ in c.commands]})
            for n, t in enumerate(c.txns):
                owners = set([_owner(t['sender'])] + [_owner(r) for r in t['rcpts_offered']])
                if t['marker']:
                    owners.add(int(t['marker'][1:]))
                if len(owners) != 1:
                    viol('transaction-mixes-envelopes/%s' % mode, 'one transaction carries parts of two envelopes',
                         {'conn': c.n, 'txn': n, 'sender': t['sender'], 'rcpts': t['rcpts_offered'],
                          'marker': t['marker']})
            k = -1
            rset_since = False
            for verb, _ in c.commands:
                if verb == 'RSET':
                    rset_since = True
                elif verb == 'MAIL':
                    if k >= 0:
                        failed = _txn_failed(c.txns[k], lmtp)
                        if failed:
                            R.hit('reset-after-failure-checked')
                            if not rset_since:
                                viol('no-reset-after-failed-transaction/%s/failed-at-%s' % (mode, failed),
                                     'next MAIL on a reused connection without RSET after a failed transaction',
                                     {'conn': c.n, 'txn': k, 'commands': [v for v, _ in c.commands]})
                    k += 1
                    rset_since = False
            if len(c.txns) > 1:
                R.hit('reuse', len(c.txns) - 1)
    else:
        R.hit('reset-after-failure-checked', 0)
        for c in lab.http.conns:
            if len(c.txns) > 1:
                R.hit('reuse', len(c.txns) - 1)

    # ---- (e) deque invariant
    R.hit('deque-invariant-checked', lab.cnt['deque-checks'])
    if lab.invariant_breaks:
        viol('deque-invariant/sema-counter-differs-from-length',
             'BlockingDeque semaphore counter != number of queued requests at a harness observation point',
             {'breaks': lab.invariant_breaks[:4]})
    return V


def run_case(case, R):
    lab = P.PoolLab(case)
    try:
        out = lab.run()
        R.eval(len(lab.callers))
        judge(lab, out, R)
        # ---- coverage
        R.hit('idle-expiry', lab.cnt['idle-expiry'])
        R.hit('requeue', lab.cnt['requeue'])
        R.hit('respawn-after-last-exit', lab.cnt['respawn'])
        R.hit('late-rset-with-followers-queued', lab.cnt['late-rset-with-followers-queued'])
        for k, v in lab.cnt.items():
            if k.startswith(('fault:', 'gate:', 'idle-expiry-', 'race:', 'snipe', 'late-')):
                R.count(k, v)
        if case['idle'] and out['open_left'] and not out['stranded']:
            R.count('connections-still-open-after-idle-timeout', out['open_left'])
        R.count('runs')
        R.count('callers', len(lab.callers))
        R.count('connections', len(lab.ds.conns) if lab.ds is not None else len(lab.http.conns))
        R.count('client-greenlet-crashes', len(lab.crashes))
        key = (case['mode'], case['pool_size'], case['idle'], case['ncallers'], tuple(case['mix']))
        R.observe('config', key)
        R.observe('interleaving', lab.signature())
        nfault = sum(v for k, v in lab.cnt.items() if k.startswith('fault:'))
        if case['pool_size'] and case['ncallers'] > case['pool_size'] and (nfault or lab.cnt['idle-expiry']):
            R.nontrivial(key)
            R.sample({'case': case, 'faults': {k: v for k, v in lab.cnt.items() if k.startswith('fault:')},
                      'max_open': lab.max_open, 'requeue': lab.cnt['requeue'], 'idle_expiry': lab.cnt['idle-expiry'],
                      'respawn': lab.cnt['respawn']})
    finally:
        lab.cleanup()


def shard_cleanup():
    gevent.sleep(0)
