"""C20 -- Envelope parsing keeps the body byte-exact and the headers intact.

The real ``slimta.envelope.Envelope`` is driven through parse / flatten / copy / pickle (HIGHEST_PROTOCOL,
as the disk, redis and cloud stores do) / re-parse / encode_7bit on generated messages.

Monitors (public boundary): the two byte strings returned by ``Envelope.flatten()`` of the parsed envelope,
of its ``copy()``, of its pickle round trip and of a fresh envelope that parsed the flattened output; the
envelope metadata of the copies; any exception leaving those calls.

Oracle: the generator knows the message it built (list of (name, unfolded value) and the body bytes); the
flattened header block is split by ``split_header_block`` below -- an independent splitter that does not use
the ``email`` package: lines end with CRLF, the block ends at the first empty line, a line starting with
SP/TAB continues the previous field, unfolding = dropping the line break, name = bytes before the first ':',
value = rest with leading SP/TAB removed.  Only for the 7-bit clause the stdlib decoder is used, as allowed.
"""
import pickle
import random
import traceback

import email
from email.encoders import encode_base64, encode_quopri

from slimta.envelope import Envelope

PROPERTY = 'C20'
LEVEL = 'exploration'
LEVEL_TEXT = ('Real Envelope.parse/flatten/copy/pickle/encode_7bit run on seeded generated messages of exactly the '
              'input class of the property (1..7 well-formed fields, folded continuation lines with non-blank content, '
              '8-bit values incl. U+0085/U+2028/U+2029/Unicode-space/BOM and lone 0x85/0xA0 bytes, duplicate names, lines <= 78 bytes incl. lines of exactly 78, CRLF or LF, arbitrary '
              'body bytes), on arbitrary byte strings for the no-raise claim, and on single-part UTF-8 text/plain '
              'messages for the 7-bit clause; every message is compared with what the generator built, through an '
              'independent header splitter. Held = held on the messages reported; not a proof for all messages.')
LEVEL_NOTE = ('Trusted: the generator\'s own record of what it built, split_header_block (25 lines, cross-checked '
              'against the generator on every input message), the stdlib base64/quoted-printable decoder for the '
              '7-bit clause.')
TECHNIQUE = 'runtime monitoring: round-trip / fixed-point oracle with an independent header splitter'
RULE = ('case = one generated message; evaluations = the Envelope operations run on it (parse+flatten, copy, pickle '
        'round trip, re-parse; or encode_7bit). kinds: wf (property input class, judged on body identity, header '
        'fields, copy/pickle/re-parse fixed points), arb (arbitrary bytes: no header block, over-long lines, blank '
        'continuation lines, mutated well-formed messages, odd MIME headers; judged on never-raises only), 7bit '
        '(text/plain; charset=utf-8, CRLF raw 8-bit body; Content-Transfer-Encoding field absent / 7bit / 8bit / binary / '
        'base64 / quoted-printable in any case / unknown token, i.e. including mislabelled bodies; base64 / '
        'quoted-printable / no encoder). non-trivial & distinct = distinct '
        'wf message with a folded or 8-bit header or whose body starts with a blank or dot line or contains NUL or a '
        'lone CR; or a distinct 7bit message with non-ASCII text')
ASSUMPTIONS = ['"same values" is compared on unfolded values (line break before SP/TAB dropped, white space after the '
               'colon dropped), as the statement normalises line endings and does not promise the fold points',
               'header values are built from printable ASCII, 8-bit bytes and inner SP/TAB; ASCII control '
               'characters in header values are outside the judged class (they are in the never-raises class)',
               '7-bit clause: headers of those messages are ASCII; "same text" is exact string equality after '
               'decoding the transfer encoding with the stdlib and the bytes as UTF-8; a difference in line ends '
               'only is reported under its own mechanism']
REQUIRED_HITS = ['body-compared', 'header-fields-compared', 'copy-compared', 'pickle-compared', 'reparse-compared',
                 'no-raise-judged', '7bit-ascii-and-text-compared', '7bit-refusal-judged']
SHARDS = {'quick': 8, 'thorough': 16}
BUDGET = {'quick': 50, 'thorough': 800}

N_WF = {'quick': 20000, 'thorough': 1000000}
N_ARB = {'quick': 6000, 'thorough': 200000}
N_7BIT = {'quick': 1500, 'thorough': 40000}


# --------------------------------------------------------------------------- independent splitter

def split_header_block(block, lf_ok=False):
    """-> (fields [[name, raw unfolded rest]], bytes after the first blank line or None, problems).
    lf_ok=False: lines end with CRLF only (flattened output); True: LF or CRLF (generated input)."""
    fields, problems = [], []
    pos = 0
    while True:
        if pos >= len(block):
            return fields, None, problems          # no blank line
        i = block.find(b'\n' if lf_ok else b'\r\n', pos)
        if i < 0:
            problems.append('unterminated-line')
            return fields, None, problems
        line = block[pos:i]
        pos = i + (1 if lf_ok else 2)
        if lf_ok and line.endswith(b'\r'):
            line = line[:-1]
        if line == b'':
            return fields, block[pos:], problems
        if line[:1] in (b' ', b'\t'):
            if not fields:
                problems.append('continuation-first')
            else:
                fields[-1][1] += line
            continue
        name, colon, rest = line.partition(b':')
        if not colon:
            problems.append('no-colon')
        fields.append([name, rest])


def finish_fields(fields):
    return [[bytes(n), bytes(v).lstrip(b' \t')] for n, v in fields]


# --------------------------------------------------------------------------- generators

ALNUM = b'ABCDEFGHIJKLMNOPQRSTUVWXYZabcdefghijklmnopqrstuvwxyz0123456789-'
FTEXT = bytes(c for c in range(33, 127) if c != 58)
NAMES = [b'Subject', b'From', b'To', b'Cc', b'Received', b'Content-Type', b'Content-Transfer-Encoding',
         b'MIME-Version', b'Date', b'Message-ID', b'X-Spam', b'DKIM-Signature', b'Return-Path', b'content-type',
         b'SUBJECT', b'List-Unsubscribe', b'Content-Disposition', b'Resent-From', b'Reply-To', b'Sender']
SPECIAL = [b'text/plain; charset=utf-8', b'multipart/mixed; boundary="xyz"', b'multipart/mixed', b'message/rfc822',
           b'base64', b'quoted-printable', b'8bit', b'1.0', b'=?utf-8?q?h=C3=A9?= <a@b.c>', b'<id@host>',
           b'Mon, 1 Jan 2024 00:00:00 +0000', b'"Doe, J" <j@d.example>, group: a@b, c@d;', b'a@b (comment)',
           b'text/plain; charset="utf-8"; name*=utf-8\'\'%e2%82%ac.txt', b'attachment; filename="a b.txt"',
           b'from a by b with SMTP id 1; Mon, 1 Jan 2024 00:00:00 +0000', b'v=1; a=rsa-sha256; b=abc=']
VPOOL = [b'a', b'b', b'Z', b'0', b'9', b' ', b' ', b'\t', b':', b'=', b'?', b'<', b'>', b'"', b',', b';', b'(', b')',
         b'@', b'.', b'\\', b'[', b']', b'-', b'_', b'/', b'%', b'~', b'!', b'#', b'word', b'=?', b'?=',
         b'\xc3\xa9', b'\xe2\x82\xac', b'\xe6\x97\xa5\xe6\x9c\xac', b'\xf0\x9f\x98\x80', b'\xe9', b'\xff', b'\x80', b'\xa0']
APOOL = [t for t in VPOOL if all(c < 128 for c in t)]
# 8-bit content that *Python* treats as a line or field separator once the bytes are decoded to str
# (str.splitlines: U+0085 U+2028 U+2029; str.split/strip/isspace: U+00A0 U+1680 U+2000..U+200A U+202F U+205F
# U+3000; U+FEFF) and the latin-1 single bytes 0x85 / 0xA0.  To a mail message they are ordinary 8-bit content
# (not ASCII white space); they are kept off the two ends of every value line all the same.
USEP = ([c.encode('utf-8') for c in '\x85\u2028\u2029\xa0\u1680\u2000\u2001\u2002\u2003\u2004\u2005\u2006\u2007'
         '\u2008\u2009\u200a\u202f\u205f\u3000\ufeff'] + [b'\x85', b'\xa0'])
USEP_STRIP = sorted(USEP, key=len, reverse=True)
UPOOL = VPOOL + USEP + [c.encode('utf-8') for c in '\x85\u2028\u2029'] * 3


def strip_usep(out):
    changed = True
    while changed:
        changed = False
        out2 = out.strip(b' \t')
        for t in USEP_STRIP:
            if out2.startswith(t):
                out2 = out2[len(t):]
            if out2.endswith(t):
                out2 = out2[:-len(t)]
        if out2 != out:
            out, changed = out2, True
    return out


def has_usep(line):
    return any(t in line for t in USEP)


def gen_line(rnd, maxlen, ascii_only):
    """A non-blank value line without leading/trailing white space, 1..maxlen bytes."""
    maxlen = max(1, maxlen)
    target = maxlen if rnd.random() < 0.12 else rnd.randrange(1, maxlen + 1)
    pool = APOOL if ascii_only is True else UPOOL if ascii_only == 'usep' else VPOOL
    out = b''
    while len(out) < target:
        t = rnd.choice(pool)
        if len(out) + len(t) > target:
            t = b'x'
        out += t
    out = strip_usep(out) if ascii_only == 'usep' else out.strip(b' \t')
    if not out:
        out = b'x'
    if len(out) < target and rnd.random() < 0.5:       # stripping shortened it: pad back to the target
        out = out + b'y' * (target - len(out))
    return out


def gen_fields(rnd):
    """-> list of (name, sep, [physical lines after 'name:sep']) honouring the property's input class."""
    fields = []
    nf = rnd.choice([1, 1, 2, 3, 4, 5, 7])
    for _ in range(nf):
        r = rnd.random()
        if fields and r < 0.25:
            name = rnd.choice(fields)[0]                       # duplicate name
        elif r < 0.55:
            name = rnd.choice(NAMES)
        elif r < 0.9:
            name = bytes(rnd.choice(ALNUM) for _ in range(rnd.randrange(1, 14)))
        else:
            name = bytes(rnd.choice(FTEXT) for _ in range(rnd.randrange(1, 30)))
        sep = b': ' if rnd.random() < 0.85 else b':'
        r = rnd.random()
        ascii_only = True if r < 0.4 else 'usep' if r < 0.6 else False     # value alphabet of this field
        room = 78 - len(name) - len(sep)
        r = rnd.random()
        if r < 0.04:
            lines = [b'']                                      # empty value
        elif r < 0.2 and any(len(s) <= room for s in SPECIAL):
            lines = [rnd.choice([s for s in SPECIAL if len(s) <= room])]
        else:
            lines = [gen_line(rnd, room, ascii_only)]
        if lines != [b'']:
            for _ in range(rnd.choice([0, 0, 0, 1, 1, 2, 3])):
                ws = rnd.choice([b' ', b' ', b'\t', b'  ', b' \t', b'\t\t ', b'        '])
                lines.append(ws + gen_line(rnd, 78 - len(ws), ascii_only))
            # trailing white space is allowed on a line that is not the last one of the value
            for i in range(len(lines) - 1):
                phys = len(lines[i]) + (len(name) + len(sep) if i == 0 else 0)
                if rnd.random() < 0.08 and phys < 78:
                    lines[i] += rnd.choice([b' ', b'\t'])
        fields.append((name, sep, lines))
    return fields


BODIES = [b'', b'body\r\n', b'\r\n\r\nlead', b'\n\nlead\n', b'.\r\n..\r\n', b'.', b'\x00\xff\r lone cr', b'line\nbare\n',
          b' \r\n x', b'\t\n', b' ', b'A: not a header\r\n\r\nmore', b'\r', b'\n', b'\r\n', b'\r\r\n', b'\n\r',
          b'--boundary\r\nContent-Type: text/plain\r\n\r\npart\r\n--boundary--\r\n', b'From x\r\n>From y\r\n',
          b'\xef\xbb\xbfbom', b' leading space', b'\x00', b'no newline at end', b'\r\n.\r\n', b'x\r\n.\r\ny\r\n',
          b'\x0b\x0c\x1c\x85', b'\xe2\x80\xa8ls']
BPOOL = [b'.', b'.', b'\r', b'\n', b'\r\n', b'\r\n.', b'\n.', b'a', b'\xff', b'\x00', b'..', b' ', b'\t', b':',
         b'text ', b'\r\n\r\n', b'\xc3\xa9', b'X: y']


def gen_body(rnd):
    r = rnd.random()
    if r < 0.35:
        return rnd.choice(BODIES)
    if r < 0.9:
        k = rnd.choice([3, 8, 20, 60, 150])
        return b''.join(rnd.choice(BPOOL) if rnd.random() < 0.8 else bytes([rnd.randrange(256)])
                        for _ in range(rnd.randrange(1, k + 1)))
    return bytes(rnd.getrandbits(8) for _ in range(rnd.randrange(1, 300)))


def render(fields, eolstyle, rnd):
    def eol():
        if eolstyle == 'mixed':
            return rnd.choice([b'\r\n', b'\n'])
        return eolstyle
    out = b''
    for name, sep, lines in fields:
        out += name + sep + lines[0] + eol()
        for ln in lines[1:]:
            out += ln + eol()
    return out, eol()


def gen_wf(rnd):
    fields = gen_fields(rnd)
    r = rnd.random()
    eolstyle = b'\r\n' if r < 0.55 else b'\n' if r < 0.96 else 'mixed'
    block, blank = render(fields, eolstyle, rnd)
    body = gen_body(rnd)
    if rnd.random() < 0.02:
        raw, body, shape = block, b'', 'no-blank-line'
    else:
        raw, shape = block + blank + body, 'normal'
    expect = [[name, b''.join(lines)] for name, sep, lines in fields]
    feats = {
        'folded': any(len(l) > 1 for _, _, l in fields),
        '8bit': any(c > 127 for _, _, l in fields for x in l for c in x),
        'dup': len({n.lower() for n, _, _ in fields}) < len(fields),
        'len78': any(len(n + s + l[0]) == 78 or any(len(x) == 78 for x in l[1:]) for n, s, l in fields),
        'nosp': any(s == b':' for _, s, _ in fields),
        'usep': any(has_usep(x) for _, _, l in fields for x in l),
        'eol': {b'\r\n': 'CRLF', b'\n': 'LF'}.get(eolstyle, 'mixed'),
        'shape': shape,
    }
    per_field = [sorted(f for f, on in (('folded', len(l) > 1), ('8bit', any(c > 127 for x in l for c in x)),
                                        ('nosp', s == b':'), ('first-line-78', len(n + s + l[0]) == 78),
                                        ('cont-line-78', any(len(x) == 78 for x in l[1:])),
                                        ('empty', l == [b'']),
                                        ('unicode-separator', any(has_usep(x) for x in l)),
                                        ('inner-trailing-ws', any(x[-1:] in (b' ', b'\t') for x in l[:-1])))
                        if on) for n, s, l in fields]
    return {'kind': 'wf', 'raw': raw, 'fields': expect, 'body': body, 'feats': feats, 'per_field': per_field,
            'rs': rnd.randrange(1 << 30)}


def body_class(body):
    c = []
    if body[:2] == b'\r\n' or body[:1] == b'\n':
        c.append('leading-blank')
    if body[:1] == b'.' or b'\n.' in body:
        c.append('dot-line')
    if b'\x00' in body:
        c.append('nul')
    if b'\r' in body.replace(b'\r\n', b''):
        c.append('lone-cr')
    if body[:1] in (b' ', b'\t'):
        c.append('leading-ws')
    return c


ARB_TOK = [b'\r', b'\n', b'\r\n', b'\r\n', b':', b': ', b' ', b'\t', b'a', b'X-H', b'\xff', b'\x00', b'From ', b'--',
           b'Content-Type: multipart/mixed; boundary=b\r\n', b'Content-Type: message/rfc822\r\n', b'--b\r\n',
           b'--b--\r\n', b'Content-Transfer-Encoding: base64\r\n', b'=?utf-8?q?', b'?=', b'\x0b', b'\x0c', b'\x85',
           b'\x1c', b'\x1d', b'\x1e', b'\x1f', b'\xc2\x85', b'\xe2\x80\xa8', b'\xe2\x80\xa9', b'\xc2\xa0',
           b'\xe3\x80\x80', b'\xef\xbb\xbf', b'\xa0', b'Subject', b'\r\n \r\n', b'\n\t\n', b'"', b'<', b'>', b'@', b',', b';', b'(', b'\\']
LONGVAL = [lambda rnd, n: b'v' * n,
           lambda rnd, n: b' '.join(b'w' * rnd.randrange(1, 12) for _ in range(n // 6 + 1)),
           lambda rnd, n: b'\xe9' * n,
           lambda rnd, n: b' '.join(rnd.choice([b'\xc3\xa9t\xc3\xa9', b'abc', b'=?utf-8?q?x?=', b'\xff'])
                                    for _ in range(n // 4 + 1)),
           lambda rnd, n: b', '.join(b'"N %d" <u%d@h.example>' % (i, i) for i in range(n // 20 + 1)),
           lambda rnd, n: b'<' + b'i' * n + b'@h>',
           lambda rnd, n: b'text/plain; ' + b'; '.join(b'p%d="%s"' % (i, b'q' * rnd.randrange(1, 40))
                                                        for i in range(n // 20 + 1)),
           lambda rnd, n: bytes(rnd.choice(b'ab ,;:<>()"@\\=?\t\xe9\xff._-') for _ in range(n))]


def gen_arb(rnd):
    style = rnd.randrange(9)
    if style == 0:
        raw, cls = bytes(rnd.getrandbits(8) for _ in range(rnd.choice([0, 1, 2, 5, 30, 200, 400]))), 'random-bytes'
    elif style == 1:
        raw, cls = b''.join(rnd.choice(ARB_TOK) for _ in range(rnd.randrange(1, 40))), 'token-soup'
    elif style == 2:
        raw = rnd.choice([b'', b'\r\n', b'\n', b' \r\n', b'\r\n\r\n']) + gen_body(rnd)
        cls = 'no-header-block'
    elif style == 3 or style == 4:
        name = rnd.choice(NAMES + [b'X-Long', b'N' * rnd.choice([60, 79, 200])])
        n = rnd.choice([70, 77, 78, 79, 80, 120, 300, 998, 999, 1500])
        val = rnd.choice(LONGVAL)(rnd, n)
        eol = rnd.choice([b'\r\n', b'\n'])
        raw = name + rnd.choice([b': ', b':']) + val + eol
        if rnd.random() < 0.4:
            raw += b' ' + rnd.choice(LONGVAL)(rnd, rnd.choice([10, 78, 200])) + eol
        if rnd.random() < 0.5:
            raw += b'Other: v' + eol
        raw += eol + gen_body(rnd)
        cls = 'over-long-line'
    elif style == 5:
        m = gen_wf(rnd)
        raw = bytearray(m['raw'])
        for _ in range(rnd.randrange(1, 4)):
            if not raw:
                break
            k = rnd.randrange(len(raw))
            op = rnd.randrange(3)
            b = rnd.choice([0, 9, 10, 13, 32, 58, 11, 12, 0x85, 255, rnd.randrange(256)])
            if op == 0:
                raw[k] = b
            elif op == 1:
                raw.insert(k, b)
            else:
                del raw[k]
        raw, cls = bytes(raw), 'mutated-well-formed'
    elif style == 6:
        eol = rnd.choice([b'\r\n', b'\n'])
        parts = [b'A: b', rnd.choice([b' ', b'\t', b'  \t ', b'\x0b', b' \x0c']), b' c', b'no colon line',
                 b'From someone Mon Jan 1', b' starts with continuation', b':empty name', b'B : space before colon',
                 b'C: ctl \x01\x7f\x0b\x0c\x1c', b'D: \x00nul', b'E: lone\rcr', b'F:', b'>From: x']
        rnd.shuffle(parts)
        raw = eol.join(parts[:rnd.randrange(1, len(parts))]) + eol + eol + gen_body(rnd)
        cls = 'defective-header-block'
    elif style == 7:
        eol = rnd.choice([b'\r\n', b'\n'])
        ct = rnd.choice([b'multipart/mixed; boundary=b', b'multipart/mixed', b'message/rfc822', b'multipart/digest; boundary="b"',
                         b'text/plain; charset="', b'text/plain; charset=nope', b'message/delivery-status',
                         b'multipart/signed; boundary=b; protocol="x"', b'text/html; charset=utf-16', b'\xff/\xff'])
        cte = rnd.choice([b'base64', b'quoted-printable', b'7bit', b'binary', b'x-uuencode', b'\xe9'])
        raw = b'Content-Type: ' + ct + eol + b'Content-Transfer-Encoding: ' + cte + eol + b'MIME-Version: 1.0' + eol
        raw += eol + rnd.choice([b'--b' + eol + b'A: b' + eol + eol + b'part' + eol + b'--b--' + eol,
                                 b'From: x' + eol + eol + b'inner', b'!!!not base64!!!', b'=ZZ=\r\n', gen_body(rnd)])
        cls = 'odd-mime-headers'
    else:
        raw = rnd.choice([b'\n', b'\r', b':', b' ', b'\r\n \r\n', b'A', b'A:', b'A: b', b'A: b\r', b'A: b\r\n \r\n c\r\n\r\nx',
                          b'\r\n\r\n\r\n', b'\x00', b'\xff:\xff\r\n\r\n', b'A: b\n \n\nbody'])
        cls = 'tiny'
    return {'kind': 'arb', 'raw': raw, 'cls': cls, 'rs': rnd.randrange(1 << 30)}


WORDS = ['héllo', 'wörld', '€', '日本語', '\U0001f600', 'plain', 'ascii', 'é', '=', '=3D',
         'a=b', '.', '..', 'From', ' ', 'naïve', 'x' * 40, 'é' * 30, '?', '_', 'ß', '--']


def gen_text(rnd, ascii_only=False):
    lines = []
    for _ in range(rnd.choice([1, 1, 2, 3, 6, 12])):
        r = rnd.random()
        if r < 0.1:
            ln = ''
        else:
            ws = [w for w in WORDS if not ascii_only or w.isascii()]
            ln = rnd.choice([' ', '\t', ' ', ' ', '  ']).join(rnd.choice(ws) for _ in range(rnd.choice([1, 2, 5, 12, 30])))
            if rnd.random() < 0.1:
                ln = rnd.choice(['.', 'From ', ' ', '\t']) + ln
            if rnd.random() < 0.1:
                ln += rnd.choice([' ', '\t', '  '])
        lines.append(ln)
    text = '\r\n'.join(lines)
    if rnd.random() < 0.8:
        text += '\r\n'
    if not ascii_only and text.isascii():
        text = 'é' + text
    return text


CTE_LABELS = {'absent': [None], '7bit': [b'7bit', b'7BIT'], '8bit': [b'8bit', b'8BIT'], 'binary': [b'binary', b'Binary'],
              'base64': [b'base64', b'Base64', b'BASE64', b'bAsE64'],
              'quoted-printable': [b'quoted-printable', b'Quoted-Printable', b'QUOTED-PRINTABLE'],
              'unknown': [b'x-uuencode', b'gzip64', b'base64x', b'quoted', b'8bitmime']}


def gen_7bit(rnd):
    ascii_only = rnd.random() < 0.08
    text = gen_text(rnd, ascii_only)
    hdrs = [b'Content-Type: ' + rnd.choice([b'text/plain; charset=utf-8', b'text/plain; charset="UTF-8"',
                                            b'text/plain; charset=utf-8; format=flowed', b'TEXT/PLAIN; CHARSET=UTF-8'])]
    if rnd.random() < 0.7:
        hdrs.append(b'MIME-Version: 1.0')
    # the label the header block carries for the (raw 8-bit) body: honest, absent, or a *mislabel* --
    # encode_7bit must go by the bytes, never by the label
    label = rnd.choice(sorted(CTE_LABELS))
    cte = rnd.choice(CTE_LABELS[label])
    if cte is not None:
        hdrs.append(b'Content-Transfer-Encoding:' + rnd.choice([b' ', b' ', b'', b'  ']) + cte)
    if rnd.random() < 0.7:
        hdrs.append(b'Subject: test ' + bytes(rnd.choice(ALNUM) for _ in range(8)))
    if rnd.random() < 0.5:
        hdrs.append(b'From: sender@example.com')
    rnd.shuffle(hdrs)
    raw = b'\r\n'.join(hdrs) + b'\r\n\r\n' + text.encode('utf-8')
    return {'kind': '7bit', 'raw': raw, 'text': text, 'encoder': rnd.choice(['base64', 'quopri', 'none']),
            'cte': label, 'rs': rnd.randrange(1 << 30)}


def gen_cases(tier, seed, shard, nshards):
    rnd = random.Random('c20-%d-%d-%s' % (seed, shard, tier))
    plan = [('wf', N_WF[tier] // nshards), ('arb', N_ARB[tier] // nshards), ('7bit', N_7BIT[tier] // nshards)]
    # interleave so that a budget cut still leaves every kind exercised
    left = dict(plan)
    total = sum(left.values())
    for i in range(total):
        r = i % 20
        kind = '7bit' if r == 0 else 'arb' if r in (1, 2, 3, 4) else 'wf'
        if left[kind] <= 0:
            kind = max(left, key=left.get)
        left[kind] -= 1
        yield {'wf': gen_wf, 'arb': gen_arb, '7bit': gen_7bit}[kind](rnd)


# --------------------------------------------------------------------------- execution + oracle

def new_env(rs):
    rnd = random.Random(rs)
    e = Envelope(sender=rnd.choice(['s@x.example', '', 'señder@x.example', None]),
                 recipients=['r%d@y.example' % i for i in range(rnd.randrange(0, 4))])
    e.client = {'ip': '192.0.2.%d' % rnd.randrange(256), 'name': 'hélo', 'auth': None, 'protocol': 'ESMTP'}
    e.receiver = 'recv.example'
    e.timestamp = 1700000000.25 + rnd.randrange(1000)
    return e


def meta(e):
    return (e.sender, list(e.recipients), dict(e.client), e.receiver, e.timestamp)


REFOLD_FRAMES = {'_fold', 'fold', 'fold_binary', '_refold_parse_tree'}


def where(exc):
    """Stable classifier of an escaping exception: every exception that comes out of the stdlib's header
    re-folding (email.policy._fold -> header_factory(...).fold) is one class, whatever parser routine inside
    it tripped; anything else is named by exception type and innermost function."""
    tb = traceback.extract_tb(exc.__traceback__)
    if any(f.name in REFOLD_FRAMES and '/email/' in f.filename for f in tb):
        return 'stdlib-header-refold'
    return '%s@%s' % (type(exc).__name__, tb[-1].name if tb else '?')


TRIGGER = 'refold-of-78-byte-line-without-space-after-colon'


def is_trigger(pf):
    """A first line 'Name:value' of exactly 78 bytes with no space after the colon: inside the property's input
    class (<= 78 bytes), but email.policy counts len(name) + 2 + len(value) = 79 > 78 and re-folds the field."""
    return 'first-line-78' in pf and 'nosp' in pf


def run_wf(case, R):
    raw, want_fields, want_body = case['raw'], [list(f) for f in case['fields']], case['body']
    feats = case['feats']
    # harness self-check: the independent splitter, applied to the *input*, must agree with the generator
    f0, rest0, p0 = split_header_block(raw, lf_ok=True)
    if finish_fields(f0) != want_fields or p0 or (rest0 if rest0 is not None else b'') != want_body:
        R.inconclusive('generator and splitter disagree on the input message')
        return
    bc = body_class(want_body)
    if feats['folded'] or feats['8bit'] or set(bc) & {'leading-blank', 'dot-line', 'nul', 'lone-cr'}:
        R.nontrivial(raw)
    R.observe('message-shape', (len(want_fields), feats['folded'], feats['8bit'], feats['dup'], feats['len78'],
                                feats['nosp'], feats['eol'], feats['shape'], tuple(bc), feats.get('usep')))
    for x in USEP:
        if any(x in f[1] for f in want_fields):
            R.observe('unicode-separator-in-judged-value', x)
    if feats.get('usep'):
        R.count('wf-messages-with-unicode-separator-in-a-value')
    for pf in case['per_field']:
        R.observe('field-shape', tuple(pf))

    def viol(mech, what, **kw):
        d = {'raw': raw, 'features': feats}
        d.update(kw)
        R.violation(mech, what, d)

    trig = [i for i, pf in enumerate(case['per_field']) if is_trigger(pf)]
    env = new_env(case['rs'])
    m0 = meta(env)
    R.eval()
    try:
        env.parse(raw)
        h, b = env.flatten()
    except Exception as exc:
        w = where(exc)
        viol(TRIGGER + '/raises' if trig and w == 'stdlib-header-refold' else 'raises/well-formed/parse-flatten/' + w,
             'parse/flatten of a well-formed message raised %r' % exc,
             traceback=traceback.format_exception(type(exc), exc, exc.__traceback__)[-3:])
        return
    # ---- body
    R.hit('body-compared')
    if b != want_body:
        viol('flatten/body-differs/' + (bc[0] if bc else 'plain') + ('' if feats['shape'] == 'normal' else '/' + feats['shape']),
             'body after the first blank line changed', got_body=b, want_body=want_body)
    # ---- header block
    R.hit('header-fields-compared')
    got, rest, probs = split_header_block(h)
    got = finish_fields(got)
    loose = h.replace(b'\r\n', b'')
    header_ok = False
    # index of the first input field that the output does not reproduce
    firstdiff = next((i for i, w in enumerate(want_fields) if i >= len(got) or got[i] != w), None)
    attributed = firstdiff is not None and firstdiff in trig
    usuf = ('/unicode-separator-in-value' if firstdiff is not None and firstdiff < len(case['per_field'])
            and 'unicode-separator' in case['per_field'][firstdiff] else '')
    if probs or rest != b'' or b'\r' in loose or b'\n' in loose:
        viol(TRIGGER + '/header-changed' if attributed else 'flatten/header-block-not-crlf-lines' + usuf,
             'flattened header block is not CRLF lines + one blank line (%s)'
             % (probs or 'bare CR/LF or data after the blank line'), got_header=h, first_differing_field=firstdiff)
    elif got != want_fields:
        if [g[0] for g in got] != [w[0] for w in want_fields]:
            viol(TRIGGER + '/header-changed' if attributed else 'flatten/header-names-or-order-differ' + usuf,
                 'header names / order changed', got=got, want=want_fields, got_header=h,
                 first_differing_field=firstdiff)
        else:
            pf = case['per_field'][firstdiff]
            viol(TRIGGER + '/header-changed' if attributed else
                 'flatten/header-value-differs/' + ('+'.join(pf) or 'plain'),
                 'value of field %r changed (%s)' % (want_fields[firstdiff][0], '+'.join(pf)),
                 got_value=got[firstdiff][1], want_value=want_fields[firstdiff][1], got_header=h)
    else:
        header_ok = True
        R.count('header-fields-equal')
        blk = raw[:len(raw) - len(want_body)] if feats['shape'] == 'normal' else raw + b'\r\n'
        if h == blk.replace(b'\r\n', b'\n').replace(b'\n', b'\r\n'):
            R.count('header-block-byte-identical-after-crlf-normalisation')
    if meta(env) != m0:
        viol('parse/metadata-changed', 'parse changed sender/recipients/client', got=meta(env), want=m0)
    # ---- copy
    R.eval()
    try:
        c = env.copy()
        hc, bc2 = c.flatten()
        R.hit('copy-compared')
        if (hc, bc2) != (h, b):
            viol('copy/flatten-differs', 'copy() flattens differently', got=(hc, bc2), want=(h, b))
        if meta(c) != meta(env):
            viol('copy/metadata-differs', 'copy() metadata differs', got=meta(c), want=meta(env))
        if c.headers is env.headers or (c.recipients is env.recipients) or c.client is env.client:
            viol('copy/shares-structure', 'copy() shares headers/recipients/client with the original')
        c.recipients.append('extra@z')
        c.headers['X-Added'] = 'y'
        c2 = env.copy(['n@z'])
        if c2.recipients != ['n@z'] or c2.flatten() != (h, b) or env.flatten() != (h, b) or meta(env) != m0:
            viol('copy/new-rcpts-or-aliasing', 'copy(new_rcpts) wrong or original changed through a copy',
                 got=(c2.recipients, meta(env)))
    except Exception as exc:
        viol('raises/well-formed/copy/' + where(exc), 'copy of a well-formed message raised %r' % exc)
    # ---- pickle
    R.eval()
    try:
        p = pickle.loads(pickle.dumps(env, pickle.HIGHEST_PROTOCOL))
        R.hit('pickle-compared')
        if p.flatten() != (h, b):
            viol('pickle/flatten-differs', 'pickle round trip flattens differently', got=p.flatten(), want=(h, b))
        if meta(p) != meta(env):
            viol('pickle/metadata-differs', 'pickle round trip metadata differs', got=meta(p), want=meta(env))
    except Exception as exc:
        viol('raises/well-formed/pickle/' + where(exc), 'pickle round trip of a well-formed message raised %r' % exc)
    # ---- re-parse fixed point
    R.eval()
    try:
        e4 = Envelope()
        e4.parse(h + b)
        R.hit('reparse-compared')
        if e4.flatten() != (h, b):
            h4, b4 = e4.flatten()
            # which field does the second pass reproduce differently?
            f1, f4 = split_header_block(h)[0], split_header_block(h4)[0]
            d = next((i for i in range(max(len(f1), len(f4))) if i >= len(f1) or i >= len(f4) or f1[i] != f4[i]), None)
            viol(TRIGGER + '/reparse-not-a-fixed-point' if trig and (d in trig or not header_ok) else
                 'reparse/not-a-fixed-point/' + ('body' if b4 != b else 'headers') +
                 ('/unicode-separator-in-value' if d is not None and d < len(case['per_field'])
                  and 'unicode-separator' in case['per_field'][d] else ''),
                 're-parsing the flattened output gives a different result (%s)' % ('body' if b4 != b else 'headers'),
                 got=(h4, b4), want=(h, b), first_differing_field=d)
    except Exception as exc:
        w = where(exc)
        viol(TRIGGER + '/raises' if trig and not header_ok and w == 'stdlib-header-refold' else
             'raises/well-formed/reparse/' + w, 're-parse of flattened output raised %r' % exc)
    if feats['folded'] and feats['8bit'] and bc:
        R.sample({'raw': raw[:300], 'flattened_header': h[:300], 'flattened_body': b[:80]})


def run_arb(case, R):
    raw = case['raw']
    R.observe('arbitrary-class', case['cls'])
    env = new_env(case['rs'])
    stage = 'parse'
    try:
        R.eval()
        env.parse(raw)
        stage = 'flatten'
        h, b = env.flatten()
        stage = 'copy'
        R.eval()
        env.copy().flatten()
        stage = 'pickle'
        R.eval()
        pickle.loads(pickle.dumps(env, pickle.HIGHEST_PROTOCOL)).flatten()
        R.hit('no-raise-judged')
        R.observe('arbitrary-outcome', (case['cls'], len(env.headers.keys()), bool(b), bool(env.headers.defects)))
    except Exception as exc:
        R.hit('no-raise-judged')
        R.violation('raises/arbitrary/%s/%s' % (stage, where(exc)),
                    '%s raised %r on an arbitrary byte string (%s)' % (stage, exc, case['cls']),
                    {'raw': raw[:2000], 'class': case['cls'],
                     'traceback': traceback.format_exception(type(exc), exc, exc.__traceback__)[-4:]})


ENCODERS = {'base64': encode_base64, 'quopri': encode_quopri, 'none': None}


def run_7bit(case, R):
    raw, text, encname = case['raw'], case['text'], case['encoder']
    label = case.get('cte', 'absent')
    eightbit = not text.isascii()
    if eightbit:
        R.nontrivial(raw)
    R.observe('7bit-cte-label', (encname, label, eightbit))
    R.observe('7bit-shape', (encname, eightbit, text.endswith('\r\n'), text.count('\r\n') > 1,
                             any(len(ln) > 76 for ln in text.split('\r\n'))))

    def viol(mech, what, **kw):
        d = {'raw': raw, 'text': text, 'encoder': encname, 'cte_label_in_header_block': label}
        d.update(kw)
        R.violation(mech, what, d)

    env = new_env(case['rs'])
    env.parse(raw)
    h0, b0 = env.flatten()
    R.eval()
    if encname == 'none':
        try:
            env.encode_7bit()
        except Exception as exc:
            R.hit('7bit-refusal-judged')
            R.observe('7bit-refusal', (type(exc).__name__, eightbit))
            if not eightbit:
                viol('encode-7bit/no-encoder/ascii-body-refused', 'pure ASCII body refused: %r' % exc)
            return
        if eightbit:
            R.hit('7bit-refusal-judged')
            h, b = env.flatten()
            viol('encode-7bit/no-encoder/8bit-passed-on' + ('' if label in ('absent', '8bit') else '/cte-label-' + label),
                 'no encoder given and the 8-bit body was not refused', flattened=(h, b))
        return
    try:
        env.encode_7bit(ENCODERS[encname])
        h, b = env.flatten()
    except Exception as exc:
        viol('encode-7bit/%s/raises/%s' % (encname, where(exc)), 'encode_7bit raised %r' % exc)
        return
    R.hit('7bit-ascii-and-text-compared')
    if eightbit:
        R.count('7bit-ascii-judged/cte-label-' + label)
    if not (h + b).isascii():
        viol('encode-7bit/%s/8bit-passed-on/cte-label-%s' % (encname, label),
             'encoder given, but the result of encode_7bit still contains 8-bit bytes (header block labels the '
             'body %s)' % label, flattened=(h, b))
        return
    if not eightbit and label in ('base64', 'quoted-printable'):
        # a pure ASCII body under a base64 / quoted-printable label is, for all anyone can tell, honestly
        # labelled and outside the "8-bit text body" claim: decoding it as text would judge the generator,
        # not the library.  Only: nothing may have been touched.
        R.count('ascii-body-under-7bit-cte-label/judged-unchanged-only')
        if (h, b) != (h0, b0):
            viol('encode-7bit/%s/ascii-body-changed/cte-label-%s' % (encname, label),
                 'a pure ASCII message was changed by encode_7bit', flattened=(h, b), before=(h0, b0))
        return
    m = email.message_from_bytes(h + b)
    try:
        dec = m.get_payload(decode=True)
        got = dec.decode('utf-8')
    except Exception as exc:
        viol('encode-7bit/%s/undecodable' % encname, 'result does not decode: %r' % exc, flattened=(h, b))
        return
    cs = (m.get_content_charset() or '').lower()
    ctes = m.get_all('Content-Transfer-Encoding') or []
    if eightbit:
        R.observe('7bit-result-cte', tuple(x.lower() for x in ctes))
    if got != text:
        if got.replace('\r\n', '\n') == text.replace('\r\n', '\n'):
            viol('encode-7bit/%s/line-ends-differ' % encname,
                 'decoded text has other line ends than the CRLF text that went in '
                 '(CRLF count %d -> %d)' % (text.count('\r\n'), got.count('\r\n')),
                 decoded=got, flattened=(h, b))
        else:
            viol('encode-7bit/%s/text-differs' % encname, 'decoded text differs', decoded=got, flattened=(h, b))
    elif m.is_multipart() or cs != 'utf-8' or m.get_content_type() != 'text/plain' or len(ctes) > 1:
        viol('encode-7bit/%s/mime-headers-damaged' % encname,
             'content type / charset / transfer-encoding headers no longer describe the text '
             '(type %s, charset %s, CTE %r)' % (m.get_content_type(), cs, ctes), flattened=(h, b))
    else:
        R.count('7bit-text-equal')
        if eightbit and len(R.samples) < 2:
            R.sample({'encoder': encname, 'text': text[:80], 'flattened_body': b[:120]})


def run_case(case, R):
    {'wf': run_wf, 'arb': run_arb, '7bit': run_7bit}[case['kind']](case, R)
