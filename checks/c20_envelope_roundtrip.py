"""C20 -- Envelope parsing keeps the body byte-exact and the headers intact.

The real ``slimta.envelope.Envelope`` is driven through parse / flatten / copy / pickle (HIGHEST_PROTOCOL,
as the disk, redis and cloud stores do) / re-parse / encode_7bit on generated messages.

Further strata on the same well-formed messages (coverage audit): pickle protocols 2..5; an envelope constructed
from a pre-split header block (stdlib-parsed ``Message``) + body; ``parse_msg``; the no-encoder 7-bit verdict on
every shape (8-bit headers with ASCII body, long bodies); rewrites of a parsed envelope -- ``prepend_header``,
``headers[name] = value``, ``del headers[name]``, ``replace_header``, reading through the Message API, the
library's own ``AddReceivedHeader`` / ``AddDateHeader`` / ``AddMessageIdHeader`` -- followed by flatten, copy,
pickle and re-parse; and ``slimta.bounce.Bounce`` embedding the flattened original.

Monitors (public boundary): the two byte strings returned by ``Envelope.flatten()`` of the parsed envelope,
of its ``copy()``, of its pickle round trip and of a fresh envelope that parsed the flattened output; the
envelope metadata of the copies; any exception leaving those calls.

Oracle: the generator knows the message it built (list of (name, unfolded value) and the body bytes); the
flattened header block is split by ``split_header_block`` below -- an independent splitter that does not use
the ``email`` package: lines end with CRLF, the block ends at the first empty line, a line starting with
SP/TAB continues the previous field, unfolding = dropping the line break, name = bytes before the first ':',
value = rest with leading SP/TAB removed.  Only for the 7-bit clause the stdlib decoder is used, as allowed.
"""
import pickle
import random
import traceback

import email
import email.policy
from email.parser import BytesParser
from email.encoders import encode_base64, encode_quopri, encode_7or8bit, encode_noop

from slimta.envelope import Envelope
from slimta.bounce import Bounce
from slimta.smtp.reply import Reply
from slimta.policy.headers import AddDateHeader, AddMessageIdHeader, AddReceivedHeader

PROPERTY = 'C20'
LEVEL = 'exploration'
LEVEL_TEXT = ('Real Envelope.parse/flatten/copy/pickle/encode_7bit run on seeded generated messages of exactly the '
              'input class of the property (1..7 well-formed fields, folded continuation lines with non-blank content, '
              '8-bit values incl. U+0085/U+2028/U+2029/Unicode-space/BOM and lone 0x85/0xA0 bytes, duplicate names, lines <= 78 bytes incl. lines of exactly 78, CRLF or LF, arbitrary '
              'body bytes), on arbitrary byte strings for the no-raise claim, and on single-part UTF-8 text/plain '
              'messages for the 7-bit clause; every message is compared with what the generator built, through an '
              'independent header splitter. The same messages (incl. a value that starts on a continuation line, '
              'top-level multipart/* / message/* / delivery-status content types over MIME-looking bodies, bodies > 8 KiB; '
              'plus a few dozen header blocks of 70-200 KiB -- many short fields, a few long folded fields, one field with '
              'thousands of continuation lines -- over LF / mixed / lone-CR / leading-blank / unterminated bodies) '
              'also go through pickle protocols 2-5, Envelope(headers=<stdlib Message>, message=body), parse_msg, '
              'encode_7bit() without encoder, one or two header rewrites (prepend_header, Message API assignment / '
              'deletion / replacement / reading, the three Add*Header policies) each followed by flatten + copy + '
              'pickle + re-parse, and Bounce embedding. Held = held on the messages reported; not a proof for all messages.')
LEVEL_NOTE = ('Trusted: the generator\'s own record of what it built, split_header_block (25 lines, cross-checked '
              'against the generator on every input message), the stdlib base64/quoted-printable decoder for the '
              '7-bit clause.')
TECHNIQUE = 'runtime monitoring: round-trip / fixed-point oracle with an independent header splitter'
RULE = ('case = one generated message; evaluations = the Envelope operations run on it (parse+flatten, copy, pickle '
        'round trip, re-parse; or encode_7bit). kinds: wf (property input class, judged on body identity, header '
        'fields, copy/pickle/re-parse fixed points), arb (arbitrary bytes: no header block, over-long lines, blank '
        'continuation lines, mutated well-formed messages, odd MIME headers; judged on never-raises only), 7bit '
        '(text/plain; charset=utf-8, CRLF raw 8-bit body; Content-Transfer-Encoding field absent / 7bit / 8bit / binary / '
        'base64 / quoted-printable in any case / unknown token, i.e. including mislabelled bodies; base64 / '
        'quoted-printable / no encoder). non-trivial & distinct = distinct '
        'wf message with a folded or 8-bit header or whose body starts with a blank or dot line or contains NUL or a '
        'lone CR; or a distinct 7bit message with non-ASCII text. Further strata per wf message (counted as '
        'evaluations, judged against the flattened form of the plain round trip): pickle protocol 2..5, pre-split '
        'construction, parse_msg (only messages without MIME header fields and with a CRLF-only body), no-encoder '
        'encode_7bit, two rewrite operations, and for ~30 % a Bounce (full or headers-only)')
ASSUMPTIONS = ['"same values" is compared on unfolded values (line break before SP/TAB dropped, white space after the '
               'colon dropped), as the statement normalises line endings and does not promise the fold points',
               'header values are built from printable ASCII, 8-bit bytes and inner SP/TAB; ASCII control '
               'characters in header values are outside the judged class (they are in the never-raises class)',
               '7-bit clause: headers of those messages are ASCII; "same text" is exact string equality after '
               'decoding the transfer encoding with the stdlib and the bytes as UTF-8; a difference in line ends '
               'only is reported under its own mechanism',
               'rewrites: "headers intact" is read as: every original field the operation does not name keeps its '
               'place and unfolded value, the body keeps its bytes, the new field has the given name at the documented '
               'place; the *value* of an added field is compared word-wise and only for ASCII words of <= 60 characters '
               'under an unstructured name (how the stdlib folds / RFC 2047-encodes other values is not judged); '
               're-parse after a rewrite is compared on fields and body (a prepended empty value is generated as '
               '"Name:" and re-generated as "Name: ")',
               'parse_msg is judged only where a stdlib Message can carry the message unchanged at all: no MIME header '
               'fields, body with CRLF line ends only',
               'exceptions raised inside the stdlib while *reading* hostile header values through envelope.headers '
               '(items(), get()) are counted, not judged: the statement promises parse/flatten/copy/pickle']
REQUIRED_HITS = ['body-compared', 'header-fields-compared', 'copy-compared', 'pickle-compared', 'reparse-compared',
                 'no-raise-judged', '7bit-ascii-and-text-compared', '7bit-refusal-judged',
                 'big-header-block-compared', 'presplit-compared', 'parse-msg-compared', 'wf-7bit-judged', 'rewrite-compared', 'rewrite-reparse-compared',
                 'bounce-embed-compared']
SHARDS = {'quick': 8, 'thorough': 16}
BUDGET = {'quick': 50, 'thorough': 800}

N_WF = {'quick': 20000, 'thorough': 1000000}
N_ARB = {'quick': 6000, 'thorough': 200000}
N_7BIT = {'quick': 1500, 'thorough': 40000}
N_BIG = {'quick': 40, 'thorough': 480}


# --------------------------------------------------------------------------- independent splitter

def split_header_block(block, lf_ok=False):
    """-> (fields [[name, raw unfolded rest]], bytes after the first blank line or None, problems).
    lf_ok=False: lines end with CRLF only (flattened output); True: LF or CRLF (generated input)."""
    fields, problems = [], []
    pos = 0
    while True:
        if pos >= len(block):
            return fields, None, problems          # no blank line
        i = block.find(b'\n' if lf_ok else b'\r\n', pos)
        if i < 0:
            problems.append('unterminated-line')
            return fields, None, problems
        line = block[pos:i]
        pos = i + (1 if lf_ok else 2)
        if lf_ok and line.endswith(b'\r'):
            line = line[:-1]
        if line == b'':
            return fields, block[pos:], problems
        if line[:1] in (b' ', b'\t'):
            if not fields:
                problems.append('continuation-first')
            else:
                fields[-1][1] += line
            continue
        name, colon, rest = line.partition(b':')
        if not colon:
            problems.append('no-colon')
        fields.append([name, rest])


def finish_fields(fields):
    return [[bytes(n), bytes(v).lstrip(b' \t')] for n, v in fields]


# --------------------------------------------------------------------------- generators

ALNUM = b'ABCDEFGHIJKLMNOPQRSTUVWXYZabcdefghijklmnopqrstuvwxyz0123456789-'
FTEXT = bytes(c for c in range(33, 127) if c != 58)
NAMES = [b'Subject', b'From', b'To', b'Cc', b'Received', b'Content-Type', b'Content-Transfer-Encoding',
         b'MIME-Version', b'Date', b'Message-ID', b'X-Spam', b'DKIM-Signature', b'Return-Path', b'content-type',
         b'SUBJECT', b'List-Unsubscribe', b'Content-Disposition', b'Resent-From', b'Reply-To', b'Sender']
SPECIAL = [b'text/plain; charset=utf-8', b'multipart/mixed; boundary="xyz"', b'multipart/mixed', b'message/rfc822',
           b'base64', b'quoted-printable', b'8bit', b'1.0', b'=?utf-8?q?h=C3=A9?= <a@b.c>', b'<id@host>',
           b'Mon, 1 Jan 2024 00:00:00 +0000', b'"Doe, J" <j@d.example>, group: a@b, c@d;', b'a@b (comment)',
           b'text/plain; charset="utf-8"; name*=utf-8\'\'%e2%82%ac.txt', b'attachment; filename="a b.txt"',
           b'from a by b with SMTP id 1; Mon, 1 Jan 2024 00:00:00 +0000', b'v=1; a=rsa-sha256; b=abc=']
VPOOL = [b'a', b'b', b'Z', b'0', b'9', b' ', b' ', b'\t', b':', b'=', b'?', b'<', b'>', b'"', b',', b';', b'(', b')',
         b'@', b'.', b'\\', b'[', b']', b'-', b'_', b'/', b'%', b'~', b'!', b'#', b'word', b'=?', b'?=',
         b'\xc3\xa9', b'\xe2\x82\xac', b'\xe6\x97\xa5\xe6\x9c\xac', b'\xf0\x9f\x98\x80', b'\xe9', b'\xff', b'\x80', b'\xa0']
APOOL = [t for t in VPOOL if all(c < 128 for c in t)]
# 8-bit content that *Python* treats as a line or field separator once the bytes are decoded to str
# (str.splitlines: U+0085 U+2028 U+2029; str.split/strip/isspace: U+00A0 U+1680 U+2000..U+200A U+202F U+205F
# U+3000; U+FEFF) and the latin-1 single bytes 0x85 / 0xA0.  To a mail message they are ordinary 8-bit content
# (not ASCII white space); they are kept off the two ends of every value line all the same.
USEP = ([c.encode('utf-8') for c in '\x85\u2028\u2029\xa0\u1680\u2000\u2001\u2002\u2003\u2004\u2005\u2006\u2007'
         '\u2008\u2009\u200a\u202f\u205f\u3000\ufeff'] + [b'\x85', b'\xa0'])
USEP_STRIP = sorted(USEP, key=len, reverse=True)
UPOOL = VPOOL + USEP + [c.encode('utf-8') for c in '\x85\u2028\u2029'] * 3


def strip_usep(out):
    changed = True
    while changed:
        changed = False
        out2 = out.strip(b' \t')
        for t in USEP_STRIP:
            if out2.startswith(t):
                out2 = out2[len(t):]
            if out2.endswith(t):
                out2 = out2[:-len(t)]
        if out2 != out:
            out, changed = out2, True
    return out


def has_usep(line):
    return any(t in line for t in USEP)


def gen_line(rnd, maxlen, ascii_only):
    """A non-blank value line without leading/trailing white space, 1..maxlen bytes."""
    maxlen = max(1, maxlen)
    target = maxlen if rnd.random() < 0.12 else rnd.randrange(1, maxlen + 1)
    pool = APOOL if ascii_only is True else UPOOL if ascii_only == 'usep' else VPOOL
    out = b''
    while len(out) < target:
        t = rnd.choice(pool)
        if len(out) + len(t) > target:
            t = b'x'
        out += t
    out = strip_usep(out) if ascii_only == 'usep' else out.strip(b' \t')
    if not out:
        out = b'x'
    if len(out) < target and rnd.random() < 0.5:       # stripping shortened it: pad back to the target
        out = out + b'y' * (target - len(out))
    return out


def gen_fields(rnd):
    """-> list of (name, sep, [physical lines after 'name:sep']) honouring the property's input class."""
    fields = []
    nf = rnd.choice([1, 1, 2, 3, 4, 5, 7])
    for _ in range(nf):
        r = rnd.random()
        if fields and r < 0.25:
            name = rnd.choice(fields)[0]                       # duplicate name
        elif r < 0.55:
            name = rnd.choice(NAMES)
        elif r < 0.9:
            name = bytes(rnd.choice(ALNUM) for _ in range(rnd.randrange(1, 14)))
        else:
            name = bytes(rnd.choice(FTEXT) for _ in range(rnd.randrange(1, 30)))
        sep = b': ' if rnd.random() < 0.85 else b':'
        r = rnd.random()
        ascii_only = True if r < 0.4 else 'usep' if r < 0.6 else False     # value alphabet of this field
        room = 78 - len(name) - len(sep)
        r = rnd.random()
        efl = False
        if r < 0.04:
            lines = [b'']                                      # empty value
        elif r < 0.08:
            lines, efl = [b''], True                           # 'Name:' CRLF ' value': the value starts on a continuation line
        elif r < 0.2 and any(len(s) <= room for s in SPECIAL):
            lines = [rnd.choice([s for s in SPECIAL if len(s) <= room])]
        else:
            lines = [gen_line(rnd, room, ascii_only)]
        if lines != [b''] or efl:
            for _ in range(rnd.choice([1, 1, 2, 3] if efl else [0, 0, 0, 1, 1, 2, 3])):
                ws = rnd.choice([b' ', b' ', b'\t', b'  ', b' \t', b'\t\t ', b'        '])
                lines.append(ws + gen_line(rnd, 78 - len(ws), ascii_only))
            # trailing white space is allowed on a line that is not the last one of the value
            for i in range(len(lines) - 1):
                phys = len(lines[i]) + (len(name) + len(sep) if i == 0 else 0)
                if rnd.random() < 0.08 and phys < 78:
                    lines[i] += rnd.choice([b' ', b'\t'])
        fields.append((name, sep, lines))
    return fields


BODIES = [b'', b'body\r\n', b'\r\n\r\nlead', b'\n\nlead\n', b'.\r\n..\r\n', b'.', b'\x00\xff\r lone cr', b'line\nbare\n',
          b' \r\n x', b'\t\n', b' ', b'A: not a header\r\n\r\nmore', b'\r', b'\n', b'\r\n', b'\r\r\n', b'\n\r',
          b'--boundary\r\nContent-Type: text/plain\r\n\r\npart\r\n--boundary--\r\n', b'From x\r\n>From y\r\n',
          b'\xef\xbb\xbfbom', b' leading space', b'\x00', b'no newline at end', b'\r\n.\r\n', b'x\r\n.\r\ny\r\n',
          b'\x0b\x0c\x1c\x85', b'\xe2\x80\xa8ls']
BPOOL = [b'.', b'.', b'\r', b'\n', b'\r\n', b'\r\n.', b'\n.', b'a', b'\xff', b'\x00', b'..', b' ', b'\t', b':',
         b'text ', b'\r\n\r\n', b'\xc3\xa9', b'X: y']


def gen_body(rnd):
    r = rnd.random()
    if r < 0.35:
        return rnd.choice(BODIES)
    if r < 0.9:
        k = rnd.choice([3, 8, 20, 60, 150])
        return b''.join(rnd.choice(BPOOL) if rnd.random() < 0.8 else bytes([rnd.randrange(256)])
                        for _ in range(rnd.randrange(1, k + 1)))
    if r < 0.97:
        return bytes(rnd.getrandbits(8) for _ in range(rnd.randrange(1, 300)))
    # long: more than 8 KiB, one very long line or many lines, the only 8-bit byte (if any) near the end
    n = rnd.choice([9000, 20000, 70000])
    unit = rnd.choice([b'x', b'line of text\r\n', b'line\n', b'. \r\n'])
    out = unit * (n // len(unit))
    return out + rnd.choice([b'', b'\xe9', b'\xc3\xa9\r\n', b'\x00', b'\r\n.\r\n'])


def render(fields, eolstyle, rnd):
    def eol():
        if eolstyle == 'mixed':
            return rnd.choice([b'\r\n', b'\n'])
        return eolstyle
    out = b''
    for name, sep, lines in fields:
        out += name + sep + lines[0] + eol()
        for ln in lines[1:]:
            out += ln + eol()
    return out, eol()


MIME_CT = [[b'multipart/mixed; boundary="b1"'], [b'multipart/alternative; boundary=b1'], [b'multipart/mixed'],
           [b'multipart/report; report-type=delivery-status;', b'    boundary="b1"'], [b'multipart/digest; boundary=b1'],
           [b'multipart/signed; boundary=b1;', b'\tprotocol="application/pgp-signature"'], [b'message/rfc822'],
           [b'message/delivery-status'], [b'text/rfc822-headers'], [b'message/partial; id="x"; number=1; total=2'],
           [b'message/external-body; access-type=x'], [b'message/global'], [b'MULTIPART/Mixed; BOUNDARY=b1'],
           [b'text/plain; charset=utf-8'], [b'application/octet-stream']]
MIME_CTE = [b'7bit', b'8bit', b'binary', b'base64', b'quoted-printable', b'x-unknown']


def gen_mime_body(rnd):
    """A body that *looks* like MIME structure (parts, nested header blocks, inner messages, status blocks): to
    Envelope.parse it is opaque bytes after the first blank line, whatever the top-level Content-Type says."""
    eol = rnd.choice([b'\r\n', b'\r\n', b'\n'])
    inner = rnd.choice([b'Subject: inner' + eol + b'Content-Type: text/plain; charset=utf-8' + eol + eol + b'h\xc3\xa9llo' + eol,
                        b'From: a@b' + eol + b' folded' + eol + eol + b'x' + eol, b'no header here' + eol,
                        b'Reporting-MTA: dns; x' + eol + eol + b'Final-Recipient: rfc822; a@b' + eol + b'Action: failed' + eol + b'Status: 5.1.1' + eol,
                        eol + b'starts blank' + eol, b'\xff\xfe 8-bit \x00' + eol, gen_body(rnd)])
    r = rnd.random()
    if r < 0.55:
        parts = [rnd.choice([inner, b'Content-Type: text/plain' + eol + eol + b'part' + eol,
                             b'Content-Type: message/rfc822' + eol + eol + inner,
                             b'Content-Type: multipart/mixed; boundary=b2' + eol + eol + b'--b2' + eol + eol + b'n' + eol + b'--b2--' + eol,
                             eol + b'headerless part' + eol, b'']) for _ in range(rnd.choice([1, 2, 3]))]
        out = rnd.choice([b'', b'preamble' + eol, b'pr\xe9amble' + eol, eol])
        for pt in parts:
            out += b'--b1' + eol + pt + eol
        out += rnd.choice([b'--b1--' + eol, b'--b1--' + eol + b'epilogue' + eol, b'', b'--b1--'])
        return out
    if r < 0.9:
        return inner
    return gen_body(rnd)


BIG_BODIES = [b'unix body\nsecond line\n', b'\r\n\r\nleading blank lines\r\n', b'\n\nleading blank lines\n', b'lone\rcr\r\n',
              b'mixed\r\nline\nends\r\n', b'line\nno final newline', b'\n', b'\r', b'\n.\n..\n', b'crlf\r\nonly\r\n', b'',
              b'\r\n', b'x\r\r\ny', b'\x00\xff\nnul and 8-bit\n']


def gen_big_fields(rnd):
    """A well-formed header block of 70..200 KiB, every line <= 78 bytes: many short fields, a few fields with
    hundreds of continuation lines each, or one field with thousands of continuation lines."""
    style = rnd.choice(['many-short-fields', 'few-long-folded-fields', 'one-field-thousands-of-lines'])
    target = rnd.choice([70, 100, 130, 200]) * 1024
    fields, size = [], 0

    def alpha():
        return rnd.choice([True, True, False, 'usep'])

    def field(name, ncont, maxlen, nbytes=0):
        sep = b': ' if rnd.random() < 0.85 else b':'
        a = alpha()
        lines = [gen_line(rnd, min(maxlen, 78 - len(name) - len(sep)), a)]
        got = 0
        while len(lines) <= ncont or got < nbytes:
            ws = rnd.choice([b' ', b'\t', b'  '])
            lines.append(ws + gen_line(rnd, min(maxlen, 78 - len(ws)), a))
            got += len(lines[-1]) + 1
        return (name, sep, lines)

    if style == 'many-short-fields':
        while size < target:
            name = rnd.choice([b'X-H%d' % len(fields), b'Received', b'X-Dup', rnd.choice(NAMES)])
            f = field(name, rnd.choice([0, 0, 0, 1]), rnd.choice([30, 60, 76]))
            fields.append(f)
            size += len(f[0]) + sum(len(x) + 1 for x in f[2]) + 1
    elif style == 'few-long-folded-fields':
        n = rnd.choice([2, 3, 5, 8])
        for k in range(n):
            fields.append(field(rnd.choice([b'DKIM-Signature', b'To', b'X-Long-%d' % k, b'References']), 1, 76, target // n))
    else:
        fields.append(field(b'Subject', 0, 40))
        fields.append(field(rnd.choice([b'To', b'X-Many-Lines', b'References']), 2000, 50, target))
        fields.append(field(b'X-After', 1, 40))
    return style, fields


def gen_wf_big(rnd):
    style, fields = gen_big_fields(rnd)
    body = rnd.choice(BIG_BODIES) if rnd.random() < 0.85 else gen_body(rnd)
    eolstyle = rnd.choice([b'\r\n', b'\r\n', b'\n', b'\n', 'mixed'])
    case = gen_wf(rnd, fields=fields, body=body, eolstyle=eolstyle)
    case['feats']['bighdr'] = style
    case['extra'] = False
    return case


def gen_wf(rnd, fields=None, body=None, eolstyle=None):
    if fields is not None:
        block, blank = render(fields, eolstyle, rnd)
        mime, raw, shape = False, block + blank + body, 'normal'
        return finish_wf(rnd, fields, raw, body, shape, mime, eolstyle)
    fields = gen_fields(rnd)
    mime = rnd.random() < 0.08
    if mime:
        # a top-level Content-Type (and sometimes Content-Transfer-Encoding) that makes the stdlib's *full* parser
        # descend into the body: multipart/*, message/*, delivery-status, rfc822-headers
        ct = [list(x) for x in [rnd.choice(MIME_CT)]][0]
        fields.insert(rnd.randrange(len(fields) + 1), (rnd.choice([b'Content-Type', b'Content-Type', b'content-type', b'CONTENT-TYPE']), b': ', ct))
        if rnd.random() < 0.4:
            fields.insert(rnd.randrange(len(fields) + 1), (b'Content-Transfer-Encoding', b': ', [rnd.choice(MIME_CTE)]))
        if rnd.random() < 0.5:
            fields.insert(rnd.randrange(len(fields) + 1), (b'MIME-Version', b': ', [b'1.0']))
    r = rnd.random()
    eolstyle = b'\r\n' if r < 0.55 else b'\n' if r < 0.96 else 'mixed'
    block, blank = render(fields, eolstyle, rnd)
    body = gen_mime_body(rnd) if mime and rnd.random() < 0.85 else gen_body(rnd)
    if rnd.random() < 0.02:
        raw, body, shape = block, b'', 'no-blank-line'
    else:
        raw, shape = block + blank + body, 'normal'
    return finish_wf(rnd, fields, raw, body, shape, mime, eolstyle)


def finish_wf(rnd, fields, raw, body, shape, mime, eolstyle):
    expect = [[name, b''.join(lines).lstrip(b' \t')] for name, sep, lines in fields]
    feats = {
        'mime': mime,
        'efl': any(l[0] == b'' and len(l) > 1 for _, _, l in fields),
        'folded': any(len(l) > 1 for _, _, l in fields),
        '8bit': any(c > 127 for _, _, l in fields for x in l for c in x),
        'dup': len({n.lower() for n, _, _ in fields}) < len(fields),
        'len78': any(len(n + s + l[0]) == 78 or any(len(x) == 78 for x in l[1:]) for n, s, l in fields),
        'nosp': any(s == b':' for _, s, _ in fields),
        'usep': any(has_usep(x) for _, _, l in fields for x in l),
        'eol': {b'\r\n': 'CRLF', b'\n': 'LF'}.get(eolstyle, 'mixed'),
        'shape': shape,
    }
    per_field = [sorted(f for f, on in (('folded', len(l) > 1), ('8bit', any(c > 127 for x in l for c in x)),
                                        ('nosp', s == b':'), ('first-line-78', len(n + s + l[0]) == 78),
                                        ('cont-line-78', any(len(x) == 78 for x in l[1:])),
                                        ('empty', l == [b'']),
                                        ('empty-first-line', l[0] == b'' and len(l) > 1),
                                        ('mime-structural', mime and n.lower() == b'content-type'),
                                        ('unicode-separator', any(has_usep(x) for x in l)),
                                        ('inner-trailing-ws', any(x[-1:] in (b' ', b'\t') for x in l[:-1])))
                        if on) for n, s, l in fields]
    return {'kind': 'wf', 'raw': raw, 'fields': expect, 'body': body, 'feats': feats, 'per_field': per_field,
            'rs': rnd.randrange(1 << 30)}


def body_class(body):
    c = []
    if body[:2] == b'\r\n' or body[:1] == b'\n':
        c.append('leading-blank')
    if body[:1] == b'.' or b'\n.' in body:
        c.append('dot-line')
    if b'\x00' in body:
        c.append('nul')
    if b'\r' in body.replace(b'\r\n', b''):
        c.append('lone-cr')
    if body[:1] in (b' ', b'\t'):
        c.append('leading-ws')
    if len(body) > 8192:
        c.append('long')
    return c


ARB_TOK = [b'\r', b'\n', b'\r\n', b'\r\n', b':', b': ', b' ', b'\t', b'a', b'X-H', b'\xff', b'\x00', b'From ', b'--',
           b'Content-Type: multipart/mixed; boundary=b\r\n', b'Content-Type: message/rfc822\r\n', b'--b\r\n',
           b'--b--\r\n', b'Content-Transfer-Encoding: base64\r\n', b'=?utf-8?q?', b'?=', b'\x0b', b'\x0c', b'\x85',
           b'\x1c', b'\x1d', b'\x1e', b'\x1f', b'\xc2\x85', b'\xe2\x80\xa8', b'\xe2\x80\xa9', b'\xc2\xa0',
           b'\xe3\x80\x80', b'\xef\xbb\xbf', b'\xa0', b'Subject', b'\r\n \r\n', b'\n\t\n', b'"', b'<', b'>', b'@', b',', b';', b'(', b'\\']
LONGVAL = [lambda rnd, n: b'v' * n,
           lambda rnd, n: b' '.join(b'w' * rnd.randrange(1, 12) for _ in range(n // 6 + 1)),
           lambda rnd, n: b'\xe9' * n,
           lambda rnd, n: b' '.join(rnd.choice([b'\xc3\xa9t\xc3\xa9', b'abc', b'=?utf-8?q?x?=', b'\xff'])
                                    for _ in range(n // 4 + 1)),
           lambda rnd, n: b', '.join(b'"N %d" <u%d@h.example>' % (i, i) for i in range(n // 20 + 1)),
           lambda rnd, n: b'<' + b'i' * n + b'@h>',
           lambda rnd, n: b'text/plain; ' + b'; '.join(b'p%d="%s"' % (i, b'q' * rnd.randrange(1, 40))
                                                        for i in range(n // 20 + 1)),
           lambda rnd, n: bytes(rnd.choice(b'ab ,;:<>()"@\\=?\t\xe9\xff._-') for _ in range(n))]


def gen_arb(rnd):
    style = rnd.randrange(9)
    if style == 0:
        raw, cls = bytes(rnd.getrandbits(8) for _ in range(rnd.choice([0, 1, 2, 5, 30, 200, 400]))), 'random-bytes'
    elif style == 1:
        raw, cls = b''.join(rnd.choice(ARB_TOK) for _ in range(rnd.randrange(1, 40))), 'token-soup'
    elif style == 2:
        raw = rnd.choice([b'', b'\r\n', b'\n', b' \r\n', b'\r\n\r\n']) + gen_body(rnd)
        cls = 'no-header-block'
    elif style == 3 or style == 4:
        name = rnd.choice(NAMES + [b'X-Long', b'N' * rnd.choice([60, 79, 200])])
        n = rnd.choice([70, 77, 78, 79, 80, 120, 300, 998, 999, 1500, 1500, 20000])
        val = rnd.choice(LONGVAL)(rnd, n)
        eol = rnd.choice([b'\r\n', b'\n'])
        raw = name + rnd.choice([b': ', b':']) + val + eol
        if rnd.random() < 0.4:
            raw += b' ' + rnd.choice(LONGVAL)(rnd, rnd.choice([10, 78, 200])) + eol
        if rnd.random() < 0.5:
            raw += b'Other: v' + eol
        raw += eol + gen_body(rnd)
        cls = 'over-long-line'
    elif style == 5:
        m = gen_wf(rnd)
        raw = bytearray(m['raw'])
        for _ in range(rnd.randrange(1, 4)):
            if not raw:
                break
            k = rnd.randrange(len(raw))
            op = rnd.randrange(3)
            b = rnd.choice([0, 9, 10, 13, 32, 58, 11, 12, 0x85, 255, rnd.randrange(256)])
            if op == 0:
                raw[k] = b
            elif op == 1:
                raw.insert(k, b)
            else:
                del raw[k]
        raw, cls = bytes(raw), 'mutated-well-formed'
    elif style == 6:
        eol = rnd.choice([b'\r\n', b'\n'])
        parts = [b'A: b', rnd.choice([b' ', b'\t', b'  \t ', b'\x0b', b' \x0c']), b' c', b'no colon line',
                 b'From someone Mon Jan 1', b' starts with continuation', b':empty name', b'B : space before colon',
                 b'C: ctl \x01\x7f\x0b\x0c\x1c', b'D: \x00nul', b'E: lone\rcr', b'F:', b'>From: x']
        rnd.shuffle(parts)
        raw = eol.join(parts[:rnd.randrange(1, len(parts))]) + eol + eol + gen_body(rnd)
        cls = 'defective-header-block'
    elif style == 7:
        eol = rnd.choice([b'\r\n', b'\n'])
        ct = rnd.choice([b'multipart/mixed; boundary=b', b'multipart/mixed', b'message/rfc822', b'multipart/digest; boundary="b"',
                         b'text/plain; charset="', b'text/plain; charset=nope', b'message/delivery-status',
                         b'multipart/signed; boundary=b; protocol="x"', b'text/html; charset=utf-16', b'\xff/\xff'])
        cte = rnd.choice([b'base64', b'quoted-printable', b'7bit', b'binary', b'x-uuencode', b'\xe9'])
        raw = b'Content-Type: ' + ct + eol + b'Content-Transfer-Encoding: ' + cte + eol + b'MIME-Version: 1.0' + eol
        raw += eol + rnd.choice([b'--b' + eol + b'A: b' + eol + eol + b'part' + eol + b'--b--' + eol,
                                 b'From: x' + eol + eol + b'inner', b'!!!not base64!!!', b'=ZZ=\r\n', gen_body(rnd)])
        cls = 'odd-mime-headers'
    else:
        raw = rnd.choice([b'\n', b'\r', b':', b' ', b'\r\n \r\n', b'A', b'A:', b'A: b', b'A: b\r', b'A: b\r\n \r\n c\r\n\r\nx',
                          b'\r\n\r\n\r\n', b'\x00', b'\xff:\xff\r\n\r\n', b'A: b\n \n\nbody'])
        cls = 'tiny'
    return {'kind': 'arb', 'raw': raw, 'cls': cls, 'rs': rnd.randrange(1 << 30)}


WORDS = ['héllo', 'wörld', '€', '日本語', '\U0001f600', 'plain', 'ascii', 'é', '=', '=3D',
         'a=b', '.', '..', 'From', ' ', 'naïve', 'x' * 40, 'é' * 30, '?', '_', 'ß', '--']


def gen_text(rnd, ascii_only=False):
    lines = []
    for _ in range(rnd.choice([1, 1, 2, 3, 6, 12])):
        r = rnd.random()
        if r < 0.1:
            ln = ''
        else:
            ws = [w for w in WORDS if not ascii_only or w.isascii()]
            ln = rnd.choice([' ', '\t', ' ', ' ', '  ']).join(rnd.choice(ws) for _ in range(rnd.choice([1, 2, 5, 12, 30])))
            if rnd.random() < 0.1:
                ln = rnd.choice(['.', 'From ', ' ', '\t']) + ln
            if rnd.random() < 0.1:
                ln += rnd.choice([' ', '\t', '  '])
        lines.append(ln)
    text = '\r\n'.join(lines)
    if rnd.random() < 0.8:
        text += '\r\n'
    if not ascii_only and text.isascii():
        text = 'é' + text
    return text


CTE_LABELS = {'absent': [None], '7bit': [b'7bit', b'7BIT'], '8bit': [b'8bit', b'8BIT'], 'binary': [b'binary', b'Binary'],
              'base64': [b'base64', b'Base64', b'BASE64', b'bAsE64'],
              'quoted-printable': [b'quoted-printable', b'Quoted-Printable', b'QUOTED-PRINTABLE'],
              'unknown': [b'x-uuencode', b'gzip64', b'base64x', b'quoted', b'8bitmime']}


def gen_7bit(rnd):
    ascii_only = rnd.random() < 0.08
    text = gen_text(rnd, ascii_only)
    if rnd.random() < 0.06:
        # long: the only non-ASCII character sits behind more than 8 KiB of ASCII text
        unit = rnd.choice(['line of plain text\r\n', 'x' * 70 + '\r\n', 'y' * 997 + '\r\n'])
        text = unit * (rnd.choice([9000, 30000]) // len(unit)) + ('' if ascii_only else 'fin\xe9') + rnd.choice(['', '\r\n'])
    r = rnd.random()
    # how the header block describes the UTF-8 text: charset given (the usual case), text/* without charset, or no
    # Content-Type at all (an SMTPUTF8 client that sends raw UTF-8 without MIME headers)
    ctk = 'utf8' if r < 0.7 else 'html-utf8' if r < 0.8 else 'no-charset' if r < 0.9 else 'none'
    hdrs = {'utf8': [b'Content-Type: ' + rnd.choice([b'text/plain; charset=utf-8', b'text/plain; charset="UTF-8"',
                                                     b'text/plain; charset=utf-8; format=flowed', b'TEXT/PLAIN; CHARSET=UTF-8'])],
            'html-utf8': [b'Content-Type: text/html; charset=utf-8'], 'no-charset': [b'Content-Type: text/plain'], 'none': []}[ctk]
    if rnd.random() < 0.7:
        hdrs.append(b'MIME-Version: 1.0')
    # the label the header block carries for the (raw 8-bit) body: honest, absent, or a *mislabel* --
    # encode_7bit must go by the bytes, never by the label
    label = rnd.choice(sorted(CTE_LABELS))
    cte = rnd.choice(CTE_LABELS[label])
    if cte is not None:
        hdrs.append(b'Content-Transfer-Encoding:' + rnd.choice([b' ', b' ', b'', b'  ']) + cte)
    if rnd.random() < 0.7:
        hdrs.append(b'Subject: test ' + bytes(rnd.choice(ALNUM) for _ in range(8)))
    if rnd.random() < 0.5:
        hdrs.append(b'From: sender@example.com')
    rnd.shuffle(hdrs)
    raw = b'\r\n'.join(hdrs) + b'\r\n\r\n' + text.encode('utf-8')
    return {'kind': '7bit', 'raw': raw, 'text': text,
            'encoder': rnd.choice(['base64', 'quopri', 'none', 'base64', 'quopri', 'none', '7or8bit', 'noop']),
            'cte': label, 'ct': ctk, 'via_pickle': rnd.random() < 0.4, 'rs': rnd.randrange(1 << 30)}


def gen_cases(tier, seed, shard, nshards):
    rnd = random.Random('c20-%d-%d-%s' % (seed, shard, tier))
    plan = [('wf', N_WF[tier] // nshards), ('arb', N_ARB[tier] // nshards), ('7bit', N_7BIT[tier] // nshards)]
    # interleave so that a budget cut still leaves every kind exercised
    left = dict(plan)
    total = sum(left.values())
    big = random.Random('c20-big-%d-%d-%s' % (seed, shard, tier))      # own stream: the other cases stay the same
    nbig = N_BIG[tier] // nshards
    for i in range(total):
        if i % 150 == 40 and i // 150 < nbig:
            # header blocks of 70..200 KiB (each costs ~0.2 s): a few dozen per run, early in the shard
            yield gen_wf_big(big)
        r = i % 20
        kind = '7bit' if r == 0 else 'arb' if r in (1, 2, 3, 4) else 'wf'
        if left[kind] <= 0:
            kind = max(left, key=left.get)
        left[kind] -= 1
        case = {'wf': gen_wf, 'arb': gen_arb, '7bit': gen_7bit}[kind](rnd)
        # the further strata (run_wf_extra) cost ~7 ms a message (the plain round trip 0.3 ms): every third message
        # in quick, every fourth in thorough
        case['extra'] = i % (4 if tier == 'thorough' else 3) == 0
        yield case


# --------------------------------------------------------------------------- execution + oracle

def new_env(rs):
    rnd = random.Random(rs)
    e = Envelope(sender=rnd.choice(['s@x.example', '', 'señder@x.example', None]),
                 recipients=['r%d@y.example' % i for i in range(rnd.randrange(0, 4))])
    e.client = {'ip': '192.0.2.%d' % rnd.randrange(256), 'name': 'hélo', 'auth': None, 'protocol': 'ESMTP'}
    e.receiver = 'recv.example'
    e.timestamp = 1700000000.25 + rnd.randrange(1000)
    return e


def meta(e):
    return (e.sender, list(e.recipients), dict(e.client), e.receiver, e.timestamp)


REFOLD_FRAMES = {'_fold', 'fold', 'fold_binary', '_refold_parse_tree'}


def where(exc):
    """Stable classifier of an escaping exception: every exception that comes out of the stdlib's header
    re-folding (email.policy._fold -> header_factory(...).fold) is one class, whatever parser routine inside
    it tripped; anything else is named by exception type and innermost function."""
    tb = traceback.extract_tb(exc.__traceback__)
    if any(f.name in REFOLD_FRAMES and '/email/' in f.filename for f in tb):
        return 'stdlib-header-refold'
    return '%s@%s' % (type(exc).__name__, tb[-1].name if tb else '?')


TRIGGER = 'refold-of-78-byte-line-without-space-after-colon'


def is_trigger(pf):
    """A first line 'Name:value' of exactly 78 bytes with no space after the colon: inside the property's input
    class (<= 78 bytes), but email.policy counts len(name) + 2 + len(value) = 79 > 78 and re-folds the field."""
    return 'first-line-78' in pf and 'nosp' in pf


def run_wf(case, R):
    raw, want_fields, want_body = case['raw'], [list(f) for f in case['fields']], case['body']
    feats = case['feats']
    # harness self-check: the independent splitter, applied to the *input*, must agree with the generator
    f0, rest0, p0 = split_header_block(raw, lf_ok=True)
    if finish_fields(f0) != want_fields or p0 or (rest0 if rest0 is not None else b'') != want_body:
        R.inconclusive('generator and splitter disagree on the input message')
        return
    bc = body_class(want_body)
    if feats['folded'] or feats['8bit'] or set(bc) & {'leading-blank', 'dot-line', 'nul', 'lone-cr'}:
        R.nontrivial(raw)
    R.observe('message-shape', (len(want_fields), feats['folded'], feats['8bit'], feats['dup'], feats['len78'],
                                feats['nosp'], feats['eol'], feats['shape'], tuple(bc), feats.get('usep')))
    for x in USEP:
        if any(x in f[1] for f in want_fields):
            R.observe('unicode-separator-in-judged-value', x)
    if feats.get('usep'):
        R.count('wf-messages-with-unicode-separator-in-a-value')
    if feats.get('bighdr'):
        blk_len = len(raw) - len(want_body)
        R.observe('big-header-block', (feats['bighdr'], blk_len // 32768 * 32, feats['eol'], tuple(bc)))
    else:
        for pf in case['per_field']:
            R.observe('field-shape', tuple(pf))

    def viol(mech, what, **kw):
        d = {'raw': raw, 'features': feats}
        d.update(kw)
        R.violation(mech, what, d)

    trig = [i for i, pf in enumerate(case['per_field']) if is_trigger(pf)]
    env = new_env(case['rs'])
    m0 = meta(env)
    R.eval()
    try:
        env.parse(raw)
        h, b = env.flatten()
    except Exception as exc:
        w = where(exc)
        viol(TRIGGER + '/raises' if trig and w == 'stdlib-header-refold' else 'raises/well-formed/parse-flatten/' + w,
             'parse/flatten of a well-formed message raised %r' % exc,
             traceback=traceback.format_exception(type(exc), exc, exc.__traceback__)[-3:])
        return
    # ---- body
    R.hit('body-compared')
    if feats.get('bighdr'):
        R.hit('big-header-block-compared')
    if b != want_body:
        viol('flatten/body-differs/' + (bc[0] if bc else 'plain') + ('' if feats['shape'] == 'normal' else '/' + feats['shape'])
             + ('/header-block-over-64k' if feats.get('bighdr') and len(raw) - len(want_body) > 65536 else ''),
             'body after the first blank line changed', got_body=b, want_body=want_body)
    # ---- header block
    R.hit('header-fields-compared')
    got, rest, probs = split_header_block(h)
    got = finish_fields(got)
    loose = h.replace(b'\r\n', b'')
    header_ok = False
    # index of the first input field that the output does not reproduce
    firstdiff = next((i for i, w in enumerate(want_fields) if i >= len(got) or got[i] != w), None)
    attributed = firstdiff is not None and firstdiff in trig
    usuf = ('/unicode-separator-in-value' if firstdiff is not None and firstdiff < len(case['per_field'])
            and 'unicode-separator' in case['per_field'][firstdiff] else '')
    if probs or rest != b'' or b'\r' in loose or b'\n' in loose:
        viol(TRIGGER + '/header-changed' if attributed else 'flatten/header-block-not-crlf-lines' + usuf,
             'flattened header block is not CRLF lines + one blank line (%s)'
             % (probs or 'bare CR/LF or data after the blank line'), got_header=h, first_differing_field=firstdiff)
    elif got != want_fields:
        if [g[0] for g in got] != [w[0] for w in want_fields]:
            viol(TRIGGER + '/header-changed' if attributed else 'flatten/header-names-or-order-differ' + usuf,
                 'header names / order changed', got=got, want=want_fields, got_header=h,
                 first_differing_field=firstdiff)
        else:
            pf = case['per_field'][firstdiff]
            viol(TRIGGER + '/header-changed' if attributed else
                 'flatten/header-value-differs/' + ('+'.join(pf) or 'plain'),
                 'value of field %r changed (%s)' % (want_fields[firstdiff][0], '+'.join(pf)),
                 got_value=got[firstdiff][1], want_value=want_fields[firstdiff][1], got_header=h)
    else:
        header_ok = True
        R.count('header-fields-equal')
        blk = raw[:len(raw) - len(want_body)] if feats['shape'] == 'normal' else raw + b'\r\n'
        if h == blk.replace(b'\r\n', b'\n').replace(b'\n', b'\r\n'):
            R.count('header-block-byte-identical-after-crlf-normalisation')
    if meta(env) != m0:
        viol('parse/metadata-changed', 'parse changed sender/recipients/client', got=meta(env), want=m0)
    # ---- copy
    R.eval()
    try:
        c = env.copy()
        hc, bc2 = c.flatten()
        R.hit('copy-compared')
        if (hc, bc2) != (h, b):
            viol('copy/flatten-differs', 'copy() flattens differently', got=(hc, bc2), want=(h, b))
        if meta(c) != meta(env):
            viol('copy/metadata-differs', 'copy() metadata differs', got=meta(c), want=meta(env))
        if c.headers is env.headers or (c.recipients is env.recipients) or c.client is env.client:
            viol('copy/shares-structure', 'copy() shares headers/recipients/client with the original')
        c.recipients.append('extra@z')
        c.headers['X-Added'] = 'y'
        c2 = env.copy(['n@z'])
        if c2.recipients != ['n@z'] or c2.flatten() != (h, b) or env.flatten() != (h, b) or meta(env) != m0:
            viol('copy/new-rcpts-or-aliasing', 'copy(new_rcpts) wrong or original changed through a copy',
                 got=(c2.recipients, meta(env)))
    except Exception as exc:
        viol('raises/well-formed/copy/' + where(exc), 'copy of a well-formed message raised %r' % exc)
    # ---- pickle
    R.eval()
    try:
        p = pickle.loads(pickle.dumps(env, pickle.HIGHEST_PROTOCOL))
        R.hit('pickle-compared')
        if p.flatten() != (h, b):
            viol('pickle/flatten-differs', 'pickle round trip flattens differently', got=p.flatten(), want=(h, b))
        if meta(p) != meta(env):
            viol('pickle/metadata-differs', 'pickle round trip metadata differs', got=meta(p), want=meta(env))
    except Exception as exc:
        viol('raises/well-formed/pickle/' + where(exc), 'pickle round trip of a well-formed message raised %r' % exc)
    # ---- re-parse fixed point
    R.eval()
    try:
        e4 = Envelope()
        e4.parse(h + b)
        R.hit('reparse-compared')
        if e4.flatten() != (h, b):
            h4, b4 = e4.flatten()
            # which field does the second pass reproduce differently?
            f1, f4 = split_header_block(h)[0], split_header_block(h4)[0]
            d = next((i for i in range(max(len(f1), len(f4))) if i >= len(f1) or i >= len(f4) or f1[i] != f4[i]), None)
            viol(TRIGGER + '/reparse-not-a-fixed-point' if trig and (d in trig or not header_ok) else
                 'reparse/not-a-fixed-point/' + ('body' if b4 != b else 'headers') +
                 ('/unicode-separator-in-value' if d is not None and d < len(case['per_field'])
                  and 'unicode-separator' in case['per_field'][d] else ''),
                 're-parsing the flattened output gives a different result (%s)' % ('body' if b4 != b else 'headers'),
                 got=(h4, b4), want=(h, b), first_differing_field=d)
    except Exception as exc:
        w = where(exc)
        viol(TRIGGER + '/raises' if trig and not header_ok and w == 'stdlib-header-refold' else
             'raises/well-formed/reparse/' + w, 're-parse of flattened output raised %r' % exc)
    if feats['folded'] and feats['8bit'] and bc:
        R.sample({'raw': raw[:300], 'flattened_header': h[:300], 'flattened_body': b[:80]})
    if header_ok and b == want_body and case.get('extra', True):
        # the further strata are judged against (h, b), so only when the plain round trip itself was right
        run_wf_extra(case, R, env, h, b, want_fields, viol)


# --------------------------------------------------------------------------- further strata on well-formed messages
# (audit): other pickle protocols, pre-split construction, parse_msg, the no-encoder 7-bit verdict on every
# well-formed shape, header rewrites through the documented API and by the library's own header policies,
# and the Bounce that embeds the message.

PICKLE_PROTOCOLS = [2, 3, 4, 5]          # HIGHEST_PROTOCOL of the Pythons slimta ran on (2 = py2 ... 5 = py3.8+)
STRUCTURED = {b'date', b'from', b'to', b'cc', b'bcc', b'sender', b'reply-to', b'message-id', b'content-type',
              b'mime-version', b'content-disposition', b'content-transfer-encoding', b'resent-from', b'resent-to',
              b'resent-cc', b'resent-bcc', b'resent-sender', b'resent-date', b'resent-message-id', b'orig-date'}
MIME_NAMES = {b'content-type', b'content-transfer-encoding', b'mime-version'}
STDLIB_POLICIES = {'compat32': email.policy.compat32, 'SMTP': email.policy.SMTP, 'default': email.policy.default}
ADD_VALUES = [('short', 'simple value'), ('short', 'from a.example (b [192.0.2.1]) by c.example with ESMTP; Mon, 1 Jan 2024 00:00:00 +0000'),
              ('many-words', 'w ' * 60 + 'end'), ('many-words', ' '.join('tok%d' % i for i in range(40))),
              ('exactly-fills-line', 'x' * 60), ('long-token', 'a' * 200), ('long-token', 'for <' + '>,<'.join('r%d@example.com' % i for i in range(30)) + '>'),
              ('non-ascii', 'h\xe9llo w\xf6rld'), ('non-ascii', '日本 ' * 30), ('empty', ''), ('short', 'tab\tseparated'),
              ('short', 'a@b.example, "C D" <c@d.example>'), ('encoded-word-lookalike', '=?utf-8?q?x?= y')]
CLIENT_NAMES = ['mail.example.com', 'h\xe9lo.example', '[192.0.2.1]', 'x' * 200, '', None, 'a b (c) <d>;', '日本']
ASCII_SHORT = [v for v in ADD_VALUES if v[0] == 'short']


def pick_value(rnd, name):
    """Free text (8-bit, empty, over-long words) only under unstructured names: what the stdlib makes of a
    non-ASCII Message-ID or Date handed to it is not the envelope's business."""
    return rnd.choice(ASCII_SHORT if name.lower().encode('latin-1') in STRUCTURED else ADD_VALUES)


REWRITE_OPS = ['prepend', 'prepend', 'append', 'delete', 'replace', 'policy-received', 'policy-received', 'policy-date',
               'policy-message-id', 'read']


def fields_of(h):
    got, rest, probs = split_header_block(h)
    return finish_fields(got), (probs or rest != b'' or b'\r' in h.replace(b'\r\n', b'') or b'\n' in h.replace(b'\r\n', b''))


def value_judgeable(name, val):
    return (name.lower().encode('latin-1') not in STRUCTURED and val.isascii() and val.strip() != '' and '=?' not in val
            and all(len(t) <= 60 for t in val.split()))


def run_wf_extra(case, R, env, h, b, want_fields, viol):
    rnd = random.Random(case['rs'] ^ 0x5eed)
    feats = case['feats']
    shape = ('mime' if feats.get('mime') else '') + ('8bit' if feats['8bit'] else 'ascii')

    def fresh():
        e = new_env(case['rs'])
        e.parse(case['raw'])
        return e

    # ---- the other pickle protocols a stored envelope may have been written with
    proto = rnd.choice(PICKLE_PROTOCOLS)
    R.eval()
    try:
        p = pickle.loads(pickle.dumps(env, proto))
        R.count('pickle-protocol-%d-compared' % proto)
        if p.flatten() != (h, b) or meta(p) != meta(env):
            viol('pickle/protocol-%d/flatten-or-metadata-differs' % proto, 'pickle round trip (protocol %d) differs' % proto,
                 got=p.flatten(), want=(h, b))
    except Exception as exc:
        viol('raises/well-formed/pickle-protocol-%d/%s' % (proto, where(exc)), 'pickle protocol %d raised %r' % (proto, exc))

    # ---- envelope built from a pre-split header block (a stdlib-parsed Message) and the body bytes
    polname = rnd.choice(['compat32', 'SMTP'])
    blk = case['raw'][:len(case['raw']) - len(case['body'])] if feats['shape'] == 'normal' else case['raw']
    R.eval()
    try:
        hm = BytesParser(policy=STDLIB_POLICIES[polname]).parsebytes(blk, headersonly=True)
        e3 = Envelope('s@x.example', ['r@y.example'], headers=hm, message=case['body'])
        h3, b3 = e3.flatten()
        R.hit('presplit-compared')
        f3, bad = fields_of(h3)
        if bad or f3 != want_fields:
            viol('presplit/%s/header-fields-differ' % polname, 'Envelope(headers=<Message parsed by the stdlib, policy %s>, '
                 'message=body).flatten() does not give the fields of the header block as CRLF lines' % polname,
                 got_header=h3, want=want_fields)
        if b3 != case['body']:
            viol('presplit/%s/body-differs' % polname, 'flatten() of a pre-split envelope changed the body', got_body=b3)
        p3 = pickle.loads(pickle.dumps(e3, pickle.HIGHEST_PROTOCOL))
        if p3.flatten() != (h3, b3) or e3.copy().flatten() != (h3, b3):
            viol('presplit/%s/copy-or-pickle-differs' % polname, 'copy / pickle of a pre-split envelope flattens differently',
                 got=p3.flatten(), want=(h3, b3))
    except Exception as exc:
        viol('raises/well-formed/presplit-%s/%s' % (polname, where(exc)), 'pre-split envelope raised %r' % exc)

    # ---- parse_msg: the message handed over as a stdlib Message object
    names = {f[0].lower() for f in want_fields}
    crlf_only = b'\r' not in case['body'].replace(b'\r\n', b'') and b'\n' not in case['body'].replace(b'\r\n', b'')
    polname = rnd.choice(['compat32', 'SMTP', 'default'])
    if feats['shape'] == 'normal' and not (names & MIME_NAMES) and crlf_only:
        # judged class: no MIME headers (the Message is a single opaque text part) and a CRLF-only body (a Message
        # does not remember which line break a text payload used -- the recorded base64 finding has the same root)
        R.eval()
        try:
            msg = email.message_from_bytes(case['raw'], policy=STDLIB_POLICIES[polname])
            e5 = new_env(case['rs'])
            e5.parse_msg(msg)
            h5, b5 = e5.flatten()
            R.hit('parse-msg-compared')
            f5, bad = fields_of(h5)
            if bad or f5 != want_fields:
                viol('parse-msg/%s/header-fields-differ' % polname, 'parse_msg(Message) does not give the header fields '
                     'of the message', got_header=h5, want=want_fields)
            if b5 != case['body']:
                viol('parse-msg/%s/body-differs' % polname, 'parse_msg(Message) changed the body', got_body=b5)
        except Exception as exc:
            viol('raises/well-formed/parse-msg-%s/%s' % (polname, where(exc)), 'parse_msg raised %r' % exc)
    else:
        R.count('parse-msg-not-judged/mime-headers-or-body-not-crlf-only')

    # ---- 7-bit verdict without an encoder on every well-formed shape (8-bit *headers* do not make a body 8-bit)
    body8 = not case['body'].isascii()
    R.eval()
    e7 = fresh()
    try:
        e7.encode_7bit()
        refused = False
    except UnicodeDecodeError:
        refused = True
    except Exception as exc:
        refused = None
        viol('encode-7bit/no-encoder/well-formed/raises/' + where(exc), 'encode_7bit() raised %r' % exc)
    if refused is not None:
        R.hit('wf-7bit-judged')
        R.observe('wf-7bit', (shape, body8, 'long' in body_class(case['body'])))
        if body8 and not refused:
            viol('encode-7bit/no-encoder/well-formed/8bit-passed-on', 'no encoder given and the 8-bit body was not refused')
        if not body8 and refused:
            viol('encode-7bit/no-encoder/well-formed/ascii-body-refused', 'pure ASCII body refused')
        if e7.flatten() != (h, b):
            viol('encode-7bit/no-encoder/well-formed/envelope-changed', 'encode_7bit() without encoder changed the envelope',
                 got=e7.flatten(), want=(h, b))
    if not body8:
        encname = rnd.choice(['base64', 'quopri'])
        R.eval()
        try:
            e7.encode_7bit(ENCODERS[encname])
            R.count('wf-7bit-ascii-body-with-encoder-judged-unchanged')
            if e7.flatten() != (h, b):
                viol('encode-7bit/%s/well-formed/ascii-body-message-changed' % encname,
                     'a message with a pure ASCII body was changed by encode_7bit(encoder)', got=e7.flatten(), want=(h, b))
        except Exception as exc:
            viol('encode-7bit/%s/well-formed/raises/%s' % (encname, where(exc)), 'encode_7bit(encoder) on an ASCII body raised %r' % exc)

    # ---- header rewrites
    for op in rnd.sample(REWRITE_OPS, 2):
        run_rewrite(case, R, fresh(), op, rnd, h, b, want_fields, viol)

    # ---- the bounce that embeds the message
    if rnd.random() < 0.3:
        run_bounce(case, R, fresh(), rnd, h, b, viol)


def run_rewrite(case, R, e, op, rnd, h, b, want_fields, viol):
    """One rewrite of a parsed envelope.  Judged: nothing raises; the flattened block is CRLF lines; every original
    field that the operation does not name is still there, same order, same value; the body is the same bytes; the
    new field has the given name at the documented place (first for prepend / Received, last for an assignment);
    its value is compared only where unfolding alone must give it back (ASCII words of <= 60 characters under an
    unstructured name); copy / pickle of the rewritten envelope flatten identically; re-parsing the flattened
    result gives the same fields and body."""
    vclass = ''
    expect_new = None                      # (position 'first'|'last', name, value or None)
    keep = [list(f) for f in want_fields]
    R.eval()
    pre = rnd.random() < 0.5
    try:
        if pre:
            # the envelope has already been flattened once (a first delivery attempt, a policy that looked at the
            # bytes) before it is rewritten: flatten() must not answer from what it generated earlier
            e.flatten()
        if op == 'prepend':
            name = rnd.choice(['Received', 'X-Verif-Added', 'X-Verif-Added', want_fields[0][0].decode('latin-1'), 'Subject', 'To'])
            vclass, val = pick_value(rnd, name)
            e.prepend_header(name, val)
            expect_new = ('first', name, val)
        elif op == 'append':
            vclass, val = rnd.choice(ADD_VALUES)
            name = 'X-Verif-Appended'
            e.headers[name] = val
            expect_new = ('last', name, val)
        elif op == 'delete':
            name = rnd.choice(want_fields)[0]
            del e.headers[name.decode('latin-1')]
            keep = [f for f in keep if f[0].lower() != name.lower()]
            vclass = 'dup' if len(want_fields) - len(keep) > 1 else 'single'
        elif op == 'replace':
            i = rnd.randrange(len(want_fields))
            name = want_fields[i][0]
            vclass, val = pick_value(rnd, name.decode('latin-1'))
            first = next(j for j, f in enumerate(want_fields) if f[0].lower() == name.lower())
            e.headers.replace_header(name.decode('latin-1'), val)
            keep[first] = [keep[first][0], None if not value_judgeable(name.decode('latin-1'), val) else val]
        elif op == 'policy-received':
            e.client = {'ip': rnd.choice(['192.0.2.7', '2001:db8::1', None]), 'name': rnd.choice(CLIENT_NAMES),
                        'host': rnd.choice(['ptr.example.com', None, 'p\xe9.example']),
                        'protocol': rnd.choice(['ESMTP', 'ESMTPSA', 'UTF8SMTP', None]), 'auth': None}
            e.recipients = (['rcpt%d@example.com' % j for j in range(rnd.choice([0, 1, 3, 30]))]
                            + rnd.choice([[], ['\xfc@x.example'], ['"a b"@x.example']]))
            vclass = 'rcpts-%d' % len(e.recipients)
            AddReceivedHeader().apply(e)
            expect_new = ('first', 'Received', None)
        elif op == 'policy-date':
            present = any(f[0].lower() == b'date' for f in want_fields)
            vclass = 'present' if present else 'absent'
            AddDateHeader().apply(e)
            expect_new = None if present else ('last', 'Date', None)
        elif op == 'policy-message-id':
            present = any(f[0].lower() == b'message-id' for f in want_fields)
            vclass = 'present' if present else 'absent'
            AddMessageIdHeader('verif.example').apply(e)
            expect_new = None if present else ('last', 'Message-Id', None)
        elif op == 'read':
            # reading through the Message API parses values inside the stdlib; what it returns (or raises, on
            # hostile values) is the stdlib's business -- the envelope must not change by being looked at
            try:
                for k, v in e.headers.items():
                    str(v)
                e.headers.get('subject'), e.headers.get_all('received'), 'date' in e.headers, e.headers.keys()
                R.count('header-read-ok')
            except Exception as exc:
                R.observe('header-read-raises-inside-stdlib', where(exc))
                R.count('header-read-raised-inside-stdlib (observed, outside the statement)')
        h2, b2 = e.flatten()
    except Exception as exc:
        viol('rewrite/%s/raises/%s' % (op, where(exc)), '%s on a parsed well-formed message raised %r' % (op, exc),
             traceback=traceback.format_exception(type(exc), exc, exc.__traceback__)[-3:])
        return
    R.hit('rewrite-compared')
    R.observe('rewrite-op', (op, vclass, 'flattened-before' if pre else 'fresh'))
    f2, bad = fields_of(h2)
    if bad:
        viol('rewrite/%s/header-block-not-crlf-lines' % op, 'flattened header block after %s is not CRLF lines + one '
             'blank line' % op, got_header=h2)
        return

    def same(g, k):            # k[1]: bytes = must be equal, None = not judged, str = replaced value (word-wise)
        return g[0] == k[0] and (k[1] is None or (g[1].split() == k[1].encode().split() if isinstance(k[1], str)
                                                  else g[1] == k[1]))

    new = None
    if expect_new and len(f2) == len(keep) and all(same(g, k) for g, k in zip(f2, keep)):
        viol('rewrite/%s/new-field-missing' % op, 'the flattened block after %s has the old fields only: the new %s field '
             'is not there' % (op, expect_new[1]), got_header=h2, flattened_before_the_rewrite=pre)
        return
    if expect_new and f2:
        new = f2[0] if expect_new[0] == 'first' else f2[-1]
        f2 = f2[1:] if expect_new[0] == 'first' else f2[:-1]
    ok = len(f2) == len(keep) and all(same(g, k) for g, k in zip(f2, keep))
    if not ok:
        viol('rewrite/%s/original-fields-changed' % op, 'after %s the other header fields are not the original ones in the '
             'original order' % op, got_header=h2, want_other_fields=keep, header_before=h, flattened_before_the_rewrite=pre)
    elif b2 != b:
        viol('rewrite/%s/body-changed' % op, '%s changed the body' % op, got_body=b2)
    elif expect_new:
        pos, name, val = expect_new
        if new is None or new[0] != name.encode('latin-1'):
            viol('rewrite/%s/new-field-misplaced' % op, 'the new %s field is not %s in the flattened block' % (name, pos),
                 got_header=h2)
        elif val is not None and value_judgeable(name, val):
            R.count('rewrite-new-value-compared')
            if new[1].split() != val.encode().split():
                viol('rewrite/%s/new-value-differs' % op, 'the new field does not carry the given value', got_value=new[1], want_value=val)
        else:
            R.count('rewrite-new-value-not-judged (structured name, non-ASCII, empty or over-long word)')
    elif op in ('policy-date', 'policy-message-id', 'read') and (h2, b2) != (h, b):
        viol('rewrite/%s/changed-although-nothing-to-do' % op, '%s changed an envelope it had nothing to add to' % op,
             got_header=h2, header_before=h)
    # copy / pickle / re-parse of the rewritten envelope
    try:
        proto = rnd.choice(PICKLE_PROTOCOLS)
        R.eval(3)
        if e.copy().flatten() != (h2, b2):
            viol('rewrite/%s/copy-differs' % op, 'copy() of the rewritten envelope flattens differently', want=(h2, b2))
        if pickle.loads(pickle.dumps(e, proto)).flatten() != (h2, b2):
            viol('rewrite/%s/pickle-differs' % op, 'pickle round trip of the rewritten envelope flattens differently', want=(h2, b2))
        if not fields_of(h2)[0]:
            R.count('rewrite-left-no-field (re-parse not judged: outside the quantifier)')
            return
        e4 = Envelope()
        e4.parse(h2 + b2)
        h4, b4 = e4.flatten()
        R.hit('rewrite-reparse-compared')
        if (fields_of(h4)[0], b4) != (fields_of(h2)[0], b2):
            viol('rewrite/%s/reparse-fields-or-body-differ' % op, 're-parsing the flattened rewritten envelope gives other '
                 'fields or another body', got=(h4, b4), want=(h2, b2))
        elif (h4, b4) == (h2, b2):
            R.count('rewrite-reparse-byte-identical')
    except Exception as exc:
        viol('rewrite/%s/copy-pickle-reparse-raises/%s' % (op, where(exc)), 'copy/pickle/re-parse after %s raised %r' % (op, exc))


def run_bounce(case, R, e, rnd, h, b, viol):
    headers_only = rnd.random() < 0.4
    kind = 'headers-only' if headers_only else 'full'
    if e.sender is None:
        e.sender = 's@x.example'
    R.eval()
    try:
        bo = Bounce(e, Reply('550', '5.1.1 no such user h\xe9re'), headers_only=headers_only)
        bh, bb = bo.flatten()
    except Exception as exc:
        viol('bounce/%s/raises/%s' % (kind, where(exc)), 'building the bounce raised %r' % exc,
             traceback=traceback.format_exception(type(exc), exc, exc.__traceback__)[-3:])
        return
    R.hit('bounce-embed-compared')
    R.observe('bounce', (kind, case['feats']['8bit'], case['feats']['eol'], case['feats'].get('mime')))
    bf, bad = fields_of(bh)
    i = bh.find(b'boundary="')
    boundary = bh[i + 10:bh.find(b'"', i + 10)] if i >= 0 else b''
    ctype = b'text/rfc822-headers' if headers_only else b'message/rfc822'
    tail = b'\r\n--' + boundary + b'\r\nContent-Type: ' + ctype + b'\r\n\r\n' + h + (b'' if headers_only else b) + b'\r\n--' + boundary + b'--\r\n'
    if bad or not boundary or [f[0] for f in bf][:3] != [b'From', b'To', b'Subject']:
        viol('bounce/%s/own-header-block-damaged' % kind, 'the header block of the bounce is not its template', got_header=bh)
    elif not bb.endswith(tail):
        viol('bounce/%s/original-not-embedded-unchanged' % kind, 'the bounce does not end with the original header block%s '
             'between the last two boundaries' % ('' if headers_only else ' and body'), got_tail=bb[-(len(tail) + 40):], want_tail=tail)
    if e.flatten() != (h, b):
        viol('bounce/%s/original-envelope-changed' % kind, 'building the bounce changed the original envelope')
    try:
        R.eval(2)
        if pickle.loads(pickle.dumps(bo, pickle.HIGHEST_PROTOCOL)).flatten() != (bh, bb):
            viol('bounce/%s/pickle-differs' % kind, 'pickle round trip of the bounce flattens differently')
        e4 = Envelope()
        e4.parse(bh + bb)
        if e4.flatten() != (bh, bb):
            viol('bounce/%s/reparse-not-a-fixed-point' % kind, 're-parsing the flattened bounce gives a different result',
                 got=e4.flatten(), want=(bh, bb))
    except Exception as exc:
        viol('bounce/%s/pickle-reparse-raises/%s' % (kind, where(exc)), 'pickle / re-parse of the bounce raised %r' % exc)


def run_arb(case, R):
    raw = case['raw']
    R.observe('arbitrary-class', case['cls'])
    env = new_env(case['rs'])
    stage = 'parse'
    try:
        R.eval()
        env.parse(raw)
        stage = 'flatten'
        h, b = env.flatten()
        stage = 'copy'
        R.eval()
        env.copy().flatten()
        stage = 'pickle'
        R.eval()
        pickle.loads(pickle.dumps(env, pickle.HIGHEST_PROTOCOL)).flatten()
        stage = 'pickle-protocol-%d' % (2 + case['rs'] % 4)
        pickle.loads(pickle.dumps(env, 2 + case['rs'] % 4)).flatten()
        # the first thing the library does to an accepted message is to put a Received field in front of it:
        # flatten / copy / pickle must not raise afterwards either, whatever the rest of the block looks like
        stage = 'prepend-then-flatten'
        R.eval()
        e2 = env.copy()
        e2.prepend_header('Received', 'from a.example (b [192.0.2.1]) by c.example with ESMTP; Mon, 1 Jan 2024 00:00:00 +0000')
        h2, b2 = e2.flatten()
        stage = 'prepend-then-copy-pickle'
        e2.copy().flatten()
        pickle.loads(pickle.dumps(e2, pickle.HIGHEST_PROTOCOL)).flatten()
        R.count('arbitrary/prepend-then-flatten-copy-pickle-judged')
        R.hit('no-raise-judged')
        R.observe('arbitrary-outcome', (case['cls'], len(env.headers.keys()), bool(b), bool(env.headers.defects)))
    except Exception as exc:
        R.hit('no-raise-judged')
        R.violation('raises/arbitrary/%s/%s' % (stage, where(exc)),
                    '%s raised %r on an arbitrary byte string (%s)' % (stage, exc, case['cls']),
                    {'raw': raw[:2000], 'class': case['cls'],
                     'traceback': traceback.format_exception(type(exc), exc, exc.__traceback__)[-4:]})


ENCODERS = {'base64': encode_base64, 'quopri': encode_quopri, 'none': None, '7or8bit': encode_7or8bit, 'noop': encode_noop}


def run_7bit(case, R):
    raw, text, encname = case['raw'], case['text'], case['encoder']
    label = case.get('cte', 'absent')
    eightbit = not text.isascii()
    if eightbit:
        R.nontrivial(raw)
    R.observe('7bit-cte-label', (encname, label, eightbit))
    R.observe('7bit-shape', (encname, eightbit, text.endswith('\r\n'), text.count('\r\n') > 1,
                             any(len(ln) > 76 for ln in text.split('\r\n'))))

    def viol(mech, what, **kw):
        d = {'raw': raw, 'text': text, 'encoder': encname, 'cte_label_in_header_block': label}
        d.update(kw)
        R.violation(mech, what, d)

    ctk = case.get('ct', 'utf8')
    env = new_env(case['rs'])
    env.parse(raw)
    if case.get('via_pickle'):
        # as in production: the relay converts an envelope that the queue loaded from its store
        env = pickle.loads(pickle.dumps(env, pickle.HIGHEST_PROTOCOL))
    R.observe('7bit-content-type-and-path', (ctk, bool(case.get('via_pickle')), encname, len(raw) > 8192))
    h0, b0 = env.flatten()
    R.eval()
    if encname in ('7or8bit', 'noop'):
        # "encoders" of email.encoders that do not encode: outside the quantifier (base64 / quoted-printable); only
        # observed -- and they must not raise
        try:
            env.encode_7bit(ENCODERS[encname])
            h, b = env.flatten()
            R.count('7bit-non-encoding-encoder-observed/' + ('still-8bit' if not (h + b).isascii() else 'ascii'))
        except Exception as exc:
            viol('encode-7bit/%s/raises/%s' % (encname, where(exc)), 'encode_7bit raised %r' % exc)
        return
    if encname == 'none':
        try:
            env.encode_7bit()
        except Exception as exc:
            R.hit('7bit-refusal-judged')
            R.observe('7bit-refusal', (type(exc).__name__, eightbit))
            if not eightbit:
                viol('encode-7bit/no-encoder/ascii-body-refused', 'pure ASCII body refused: %r' % exc)
            if env.flatten() != (h0, b0):
                viol('encode-7bit/no-encoder/refused-but-envelope-changed', 'the refused envelope was changed')
            return
        if eightbit:
            R.hit('7bit-refusal-judged')
            h, b = env.flatten()
            viol('encode-7bit/no-encoder/8bit-passed-on' + ('' if label in ('absent', '8bit') else '/cte-label-' + label),
                 'no encoder given and the 8-bit body was not refused', flattened=(h, b))
        return
    try:
        env.encode_7bit(ENCODERS[encname])
        h, b = env.flatten()
    except Exception as exc:
        viol('encode-7bit/%s/raises/%s' % (encname, where(exc)), 'encode_7bit raised %r' % exc)
        return
    R.hit('7bit-ascii-and-text-compared')
    if eightbit:
        R.count('7bit-ascii-judged/cte-label-' + label)
    if not (h + b).isascii():
        viol('encode-7bit/%s/8bit-passed-on/cte-label-%s' % (encname, label) + ('' if ctk == 'utf8' else '/content-type-' + ctk),
             'encoder given, but the result of encode_7bit still contains 8-bit bytes (header block labels the '
             'body %s)' % label, flattened=(h, b))
        return
    if not eightbit and label in ('base64', 'quoted-printable'):
        # a pure ASCII body under a base64 / quoted-printable label is, for all anyone can tell, honestly
        # labelled and outside the "8-bit text body" claim: decoding it as text would judge the generator,
        # not the library.  Only: nothing may have been touched.
        R.count('ascii-body-under-7bit-cte-label/judged-unchanged-only')
        if (h, b) != (h0, b0):
            viol('encode-7bit/%s/ascii-body-changed/cte-label-%s' % (encname, label),
                 'a pure ASCII message was changed by encode_7bit', flattened=(h, b), before=(h0, b0))
        return
    m = email.message_from_bytes(h + b)
    try:
        dec = m.get_payload(decode=True)
        got = dec.decode('utf-8')
    except Exception as exc:
        viol('encode-7bit/%s/undecodable' % encname, 'result does not decode: %r' % exc, flattened=(h, b))
        return
    cs = (m.get_content_charset() or '').lower()
    ctes = m.get_all('Content-Transfer-Encoding') or []
    if eightbit:
        R.observe('7bit-result-cte', tuple(x.lower() for x in ctes))
    if got != text:
        if got.replace('\r\n', '\n') == text.replace('\r\n', '\n'):
            viol('encode-7bit/%s/line-ends-differ' % encname,
                 'decoded text has other line ends than the CRLF text that went in '
                 '(CRLF count %d -> %d)' % (text.count('\r\n'), got.count('\r\n')),
                 decoded=got, flattened=(h, b))
        else:
            viol('encode-7bit/%s/text-differs' % encname, 'decoded text differs', decoded=got, flattened=(h, b))
    elif (m.is_multipart() or len(ctes) > 1 or (cs != 'utf-8' and ctk in ('utf8', 'html-utf8'))
          or m.get_content_type() != ('text/html' if ctk == 'html-utf8' else 'text/plain')):
        viol('encode-7bit/%s/mime-headers-damaged' % encname,
             'content type / charset / transfer-encoding headers no longer describe the text '
             '(type %s, charset %s, CTE %r)' % (m.get_content_type(), cs, ctes), flattened=(h, b))
    else:
        R.count('7bit-text-equal')
        if eightbit and len(R.samples) < 2:
            R.sample({'encoder': encname, 'text': text[:80], 'flattened_body': b[:120]})
    # the converted envelope is what gets sent, re-queued on a transient failure and bounced: it must itself
    # survive copy / pickle / re-parse
    try:
        R.eval(3)
        e4 = Envelope()
        e4.parse(h + b)
        if (env.copy().flatten() != (h, b) or pickle.loads(pickle.dumps(env, pickle.HIGHEST_PROTOCOL)).flatten() != (h, b)
                or e4.flatten() != (h, b)):
            viol('encode-7bit/%s/result-not-a-fixed-point' % encname, 'copy / pickle / re-parse of the converted envelope '
                 'flattens differently', flattened=(h, b), reparsed=e4.flatten())
        else:
            R.count('7bit-result-fixed-point')
    except Exception as exc:
        viol('encode-7bit/%s/result-copy-pickle-reparse-raises/%s' % (encname, where(exc)), 'raised %r' % exc)


def run_case(case, R):
    {'wf': run_wf, 'arb': run_arb, '7bit': run_7bit}[case['kind']](case, R)
