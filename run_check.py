#!/venv/bin/python
"""run_check.py <Cnn> [--tier quick|thorough] [--seed N] [--replay file] [--shards N]

Parent: spawns worker subprocesses (one per shard, subprocess.run-style with a hard
timeout each -- never multiprocessing.Pool), merges their recorders, applies the
known-findings discipline, writes /verif/evidence/<id>.json and replay files, prints
VIOLATION / KNOWN-FINDING lines and sets the exit code:

  0  held on everything explored (known findings are announced, not failed)
  1  at least one violation whose mechanism is not listed in known_findings.json
  2  the run decided nothing (deciding monitor never reached, too many
     inconclusive cases, a worker died) -- no VIOLATION line; a broken check must
     look broken
"""
import os
import sys
import glob
import json
import time
import shutil
import argparse
import tempfile
import importlib
import subprocess

HERE = os.path.dirname(os.path.abspath(__file__))
sys.path.insert(0, HERE)

import warnings  # noqa: E402
warnings.simplefilter('ignore')
from vf import core  # noqa: E402

PY = '/venv/bin/python'


def find_module(prop):
    c = glob.glob(os.path.join(HERE, 'checks', prop.lower() + '_*.py'))
    if len(c) != 1:
        raise SystemExit('no unique check module for %s: %r' % (prop, c))
    return 'checks.' + os.path.basename(c[0])[:-3]


def load(prop):
    core.setup_repo()
    return importlib.import_module(find_module(prop))


def worker(args):
    # A broken tree can make the code under test loop while allocating (e.g. bounces that bounce):
    # cap the address space of each worker so that it dies (=> dead worker => inconclusive or, if
    # violations were already recorded by the others, violated) instead of taking the machine down.
    try:
        import resource
        lim = int(os.environ.get('VERIF_WORKER_MEM_MB', '8192')) << 20
        resource.setrlimit(resource.RLIMIT_AS, (lim, lim))
    except Exception:
        pass
    mod = load(args.prop)
    core.run_shard(mod, args.tier, args.seed, args.worker[0], args.worker[1],
                   args.budget, args.out)


def replay(args):
    mod = load(args.prop)
    with open(args.replay) as f:
        w = json.load(f)
    case = core.jdec(w['case'])
    R = core.Recorder(mod.PROPERTY)
    R.begin_case(case)
    mod.run_case(case, R)
    known = core.load_known(mod.PROPERTY)
    rc = 0
    for m, v in sorted(R.viol.items()):
        tag = 'KNOWN-FINDING:' if m in known else 'VIOLATION'
        print('%s property=%s mechanism=%s %s' % (tag, mod.PROPERTY, m, v['what']))
        for wit in v['witnesses'][:1]:
            print('   detail:', core.short(wit['detail'], 2000))
        if m not in known:
            rc = 1
    if not R.viol:
        print('replay: no violation reproduced (hits=%s, inconclusive=%s)'
              % (dict(R.hits), dict(R.inconc)))
    fin = getattr(mod, 'shard_cleanup', None)
    if fin:
        fin()
    return rc


def parent(args):
    t0 = time.time()
    modname = find_module(args.prop)
    # read static attributes without importing slimta in the parent
    core.setup_repo()
    mod = importlib.import_module(modname)
    prop = mod.PROPERTY
    tier = args.tier
    nshards = args.shards or getattr(mod, 'SHARDS', {}).get(tier, 4 if tier == 'quick' else 16)
    budget = args.budget or getattr(mod, 'BUDGET', {}).get(tier, 60 if tier == 'quick' else 600)
    scratch = tempfile.mkdtemp(prefix='vf-%s-' % prop)
    procs = []
    env = dict(os.environ)
    env['PYTHONHASHSEED'] = '0'
    env['PYTHONWARNINGS'] = 'ignore'
    env['SLIMTA_VERIF'] = '1'
    env['VERIF_SCRATCH'] = scratch
    env.setdefault('VERIF_REPO', core.REPO)
    try:
        for i in range(nshards):
            out = os.path.join(scratch, 'shard%d.json' % i)
            log = open(os.path.join(scratch, 'shard%d.log' % i), 'wb')
            cmd = [PY, os.path.abspath(__file__), prop, '--tier', tier, '--seed', str(args.seed),
                   '--worker', str(i), str(nshards), '--out', out, '--budget', str(budget)]
            procs.append((i, out, log, subprocess.Popen(cmd, env=env, stdout=log, stderr=log,
                                                        cwd=HERE)))
        hard = budget * 2.5 + 120
        parts, dead = [], []
        for i, out, log, p in procs:
            left = max(1.0, hard - (time.time() - t0))
            try:
                rc = p.wait(timeout=left)
            except subprocess.TimeoutExpired:
                p.kill()
                p.wait()
                rc = 'timeout'
            log.close()
            if os.path.exists(out):
                try:
                    with open(out) as f:
                        parts.append(json.load(f))
                except ValueError:
                    rc = 'bad-json'
            if rc != 0 or not os.path.exists(out):
                tail = open(log.name, 'rb').read()[-1500:].decode('utf-8', 'replace')
                dead.append({'shard': i, 'rc': rc, 'log_tail': tail})
        M = core.merge(parts)
        return finish(mod, M, dead, tier, args.seed, nshards, time.time() - t0,
                      any(p.get('stopped_early') for p in parts))
    finally:
        shutil.rmtree(scratch, ignore_errors=True)


def finish(mod, M, dead, tier, seed, nshards, wall, stopped_early):
    prop = mod.PROPERTY
    known = core.load_known(prop)
    # evidence/ and replays/ always describe /repo itself; runs against another tree
    # (VERIF_REPO=<scratch copy with a seeded change>) write next to them, git-ignored
    alt = os.path.realpath(core.REPO) != '/repo'
    rdir = os.path.join(HERE, 'replays-alt' if alt else 'replays', prop)
    shutil.rmtree(rdir, ignore_errors=True)
    unlisted = 0
    lines = []
    vsummary = {}
    for m, v in sorted(M['viol'].items()):
        paths = []
        os.makedirs(rdir, exist_ok=True)
        for n, w in enumerate(v['witnesses']):
            pth = os.path.join(rdir, '%s-%d.json' % (m.replace('/', '_'), n))
            with open(pth, 'w') as f:
                json.dump({'property': prop, 'mechanism': m, 'what': w['what'],
                           'case': w['case'], 'detail': w['detail'], 'seed': seed,
                           'tier': tier}, f, indent=1)
            paths.append(pth)
        if m in known:
            lines.append('KNOWN-FINDING: property=%s %s: %s (seen %d times this run)'
                         % (prop, m, known[m]['what'], v['count']))
        else:
            unlisted += 1
            lines.append('VIOLATION property=%s replay=%s mechanism=%s count=%d %s'
                         % (prop, paths[0], m, v['count'], core.short(v['what'], 300)))
        vsummary[m] = {'count': v['count'], 'known': m in known, 'what': v['what'],
                       'replays': paths}
    req = list(getattr(mod, 'REQUIRED_HITS', []))
    missing = [h for h in req if M['hits'].get(h, 0) == 0]
    ninc = sum(M['inconc'].values())
    broken = []
    if missing:
        broken.append('deciding monitors never reached: %s' % missing)
    if M['cases'] == 0:
        broken.append('no cases ran')
    elif ninc * 5 > M['cases']:
        broken.append('%d of %d cases inconclusive' % (ninc, M['cases']))
    if dead:
        broken.append('%d worker(s) died or timed out' % len(dead))
    if len(M['nt']) < 2:
        broken.append('fewer than 2 distinct non-trivial cases')
    exhaustive = bool(getattr(mod, 'EXHAUSTIVE', {}).get(tier)) and not stopped_early and not dead
    ev = {
        'property_id': prop, 'tier': tier, 'seed': seed, 'level': mod.LEVEL,
        'coverage': {
            'evaluations': M['evaluations'] or M['cases'],
            'cases': M['cases'],
            'distinct_nontrivial': len(M['nt']),
            'rule': mod.RULE,
            'samples': M['samples'],
            'monitor_hits': dict(M['hits']),
            'distinct_observed': {k: len(v) for k, v in M['observed'].items()},
            'counters': dict(M['extra']),
            'inconclusive': dict(M['inconc']),
            'violations_by_mechanism': vsummary,
            'known_findings_hit': sorted(m for m in M['viol'] if m in known),
            'shards': nshards, 'dead_workers': dead,
            'budget_exhausted_before_generator_end': bool(stopped_early),
            'exhaustive': exhaustive,
            'verdict': ('violated' if unlisted else 'inconclusive' if broken else 'held'),
            'verdict_notes': broken,
            'repo': core.REPO,
        },
        'assumptions': list(getattr(mod, 'ASSUMPTIONS', [])),
        'wall_s': round(wall, 2),
        'violations': unlisted,
    }
    edir = os.path.join(HERE, 'evidence-alt' if alt else 'evidence')
    os.makedirs(edir, exist_ok=True)
    with open(os.path.join(edir, prop + '.json'), 'w') as f:
        json.dump(ev, f, indent=1, sort_keys=True)
    for ln in lines:
        print(ln)
    print('%s tier=%s seed=%d: cases=%d evaluations=%d distinct_nontrivial=%d inconclusive=%d '
          'hits=%s wall=%.1fs verdict=%s'
          % (prop, tier, seed, M['cases'], ev['coverage']['evaluations'], len(M['nt']), ninc,
             dict(M['hits']), wall, ev['coverage']['verdict']))
    if unlisted:
        return 1
    if broken:
        print('INCONCLUSIVE property=%s %s' % (prop, '; '.join(broken)))
        for d in dead[:2]:
            print('  dead worker %s rc=%s: %s' % (d['shard'], d['rc'], d['log_tail'][-600:]))
        return 2
    return 0


def main():
    ap = argparse.ArgumentParser()
    ap.add_argument('prop')
    ap.add_argument('--tier', default=os.environ.get('VERIF_TIER') or 'quick',
                    choices=['quick', 'thorough'])
    ap.add_argument('--seed', type=int, default=int(os.environ.get('VERIF_SEED') or 1))
    ap.add_argument('--replay')
    ap.add_argument('--shards', type=int, default=0)
    ap.add_argument('--budget', type=float, default=0)
    ap.add_argument('--worker', nargs=2, type=int)
    ap.add_argument('--out')
    args = ap.parse_args()
    args.prop = args.prop.upper()
    if args.worker:
        worker(args)
        return 0
    if args.replay:
        return replay(args)
    return parent(args)


if __name__ == '__main__':
    sys.exit(main())
