#!/venv/bin/python
"""tools/benign_check.py <Cnn> [A B C]      (after a benign-change sub-agent has left /tmp/benign-<Cnn>/{A,B,C}.diff)
   tools/benign_check.py --rerun [name-prefix ...]

Behaviour-preserving changes (refactors of internals, behaviour inside the freedom the statement leaves,
performance / robustness tweaks) written by sub-agents that saw only the property text: every check must stay
silent on them. For each change: copy it to /verif/benign/<Cnn>-<X>/ (patch.diff, NOTES.md), apply it on a fresh
scratch worktree of /repo, run the repository's suite (tail must be unchanged) and the property's own check plus
its neighbours (quick tier, VERIF_REPO), and record rc / mechanisms / inconclusive count in meta.json.
rc 0 is the expected outcome; anything else is a false alarm of the machinery (or a change that is not benign
after all) and has to be triaged by hand.
"""
import os, sys, json, glob, shutil, subprocess

HERE = os.path.dirname(os.path.dirname(os.path.abspath(__file__)))
NEIGH = {'C01': ['C01', 'C03', 'C12', 'C13'], 'C02': ['C02', 'C16'], 'C03': ['C03', 'C01'], 'C04': ['C04', 'C15'],
         'C05': ['C05', 'C09'], 'C06': ['C06', 'C11'], 'C07': ['C07', 'C09', 'C08'], 'C08': ['C08', 'C07'],
         'C09': ['C09', 'C05', 'C07'], 'C10': ['C10', 'C17', 'C11'], 'C11': ['C11', 'C19', 'C06'],
         'C12': ['C12', 'C01', 'C03'], 'C13': ['C13', 'C01'], 'C14': ['C14', 'C11'], 'C15': ['C15', 'C04'],
         'C16': ['C16', 'C02'], 'C17': ['C17', 'C10'], 'C18': ['C18'], 'C19': ['C19', 'C11'],
         'C20': ['C20', 'C06', 'C13']}
TAIL = '15 failed, 449 passed'


def sh(*a, **kw):
    return subprocess.run(a, stdout=subprocess.PIPE, stderr=subprocess.STDOUT, text=True, **kw)


def run_one(name, prop):
    d = os.path.join(HERE, 'benign', name)
    wt = '/tmp/benignre-' + name
    sh('git', '-C', '/repo', 'worktree', 'remove', '--force', wt)
    r = sh('git', '-C', '/repo', 'worktree', 'add', '-q', '--detach', wt, 'HEAD')
    if r.returncode:
        print(name, 'worktree failed', r.stdout[:200])
        return
    try:
        r = sh('git', '-C', wt, 'apply', os.path.join(d, 'patch.diff'))
        if r.returncode:
            print('%s: patch does not apply: %s' % (name, r.stdout[:200]))
            return
        t = sh('/venv/bin/python', '-m', 'pytest', '-q', '-p', 'no:cacheprovider', '--timeout=900',
               '--continue-on-collection-errors', cwd=wt).stdout.strip().splitlines()[-1]
        res = []
        for c in NEIGH[prop]:
            env = dict(os.environ, VERIF_REPO=wt)
            r = sh('/venv/bin/python', os.path.join(HERE, 'run_check.py'), c, '--tier', 'quick', env=env, cwd=HERE)
            mech = [l.split('mechanism=')[1].split()[0] for l in r.stdout.splitlines()
                    if l.startswith('VIOLATION') and 'mechanism=' in l][:6]
            inc = [l for l in r.stdout.splitlines() if l.startswith('INCONCLUSIVE')][:2]
            last = [l for l in r.stdout.splitlines() if ' tier=quick ' in l][-1:]
            ninc = last[0].split('inconclusive=')[1].split()[0] if last and 'inconclusive=' in last[0] else '?'
            res.append({'check': c, 'rc': r.returncode, 'mechanisms': ' '.join(mech), 'inconclusive_cases': ninc,
                        'inconclusive_lines': [x[:200] for x in inc]})
            print('%s check=%s rc=%d inconclusive=%s %s' % (name, c, r.returncode, ninc, ' '.join(mech)[:200]), flush=True)
        meta = {'property': prop, 'name': name, 'tests_with_patch': t, 'suite_unchanged': TAIL in t, 'results': res,
                'expected': 'rc 0 for every check (the change keeps the property)',
                'ran': 'tools/benign_check.py: repository suite with the patch; checks with VERIF_REPO=<patched scratch worktree> (quick tier)'}
        old = os.path.join(d, 'meta.json')
        if os.path.exists(old):
            for k in ('triage',):
                v = json.load(open(old)).get(k)
                if v:
                    meta[k] = v
        json.dump(meta, open(old, 'w'), indent=1)
    finally:
        sh('git', '-C', '/repo', 'worktree', 'remove', '--force', wt)


def main():
    a = sys.argv[1:]
    if a and a[0] == '--rerun':
        for d in sorted(glob.glob(os.path.join(HERE, 'benign', '*', ''))):
            name = os.path.basename(d.rstrip('/'))
            if a[1:] and not any(name.startswith(x) for x in a[1:]):
                continue
            run_one(name, name.split('-')[0])
        return
    prop = a[0]
    src = '/tmp/benign-' + prop
    for x in (a[1:] or ['A', 'B', 'C']):
        f = os.path.join(src, x + '.diff')
        if not os.path.exists(f) or not os.path.getsize(f):
            print('%s: no %s.diff' % (prop, x))
            continue
        name = '%s-%s' % (prop, x)
        d = os.path.join(HERE, 'benign', name)
        os.makedirs(d, exist_ok=True)
        shutil.copy(f, os.path.join(d, 'patch.diff'))
        if os.path.exists(os.path.join(src, 'NOTES.md')):
            shutil.copy(os.path.join(src, 'NOTES.md'), os.path.join(d, 'NOTES.md'))
        run_one(name, prop)


if __name__ == '__main__':
    main()
