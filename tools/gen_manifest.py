#!/venv/bin/python
"""Regenerate /verif/MANIFEST.json from the check modules (static attributes) and
validate it against the schema."""
import os, sys, glob, json, importlib
HERE = os.path.dirname(os.path.dirname(os.path.abspath(__file__)))
sys.path.insert(0, HERE)
from vf import core
core.setup_repo()
props = [json.loads(l) for l in open(os.path.join(HERE, 'properties.jsonl'))]
checks, na = [], []
for p in props:
    pid = p['id']
    c = glob.glob(os.path.join(HERE, 'checks', pid.lower() + '_*.py'))
    ready = open(os.path.join(HERE, 'tools', 'ready.txt')).read().split()
    if not c or pid not in ready:
        na.append({'property_id': pid, 'reason': 'check not built yet (runtime monitoring applies; see DESIGN.md section 3)'})
        continue
    mod = importlib.import_module('checks.' + os.path.basename(c[0])[:-3])
    checks.append({
        'property_id': pid,
        'quick_cmd': '/venv/bin/python run_check.py %s --tier quick' % pid,
        'thorough_cmd': '/venv/bin/python run_check.py %s --tier thorough' % pid,
        'evidence_file': '/verif/evidence/%s.json' % pid,
        'replay_cmd_template': '/venv/bin/python run_check.py %s --replay {path}' % pid,
        'engine': 'vf',
        'level_claimed': {'category': mod.LEVEL, 'text': mod.LEVEL_TEXT,
                          'design_ref': 'DESIGN.md section 3, ' + pid},
        'level_note': mod.LEVEL_NOTE,
        'technique': mod.TECHNIQUE,
    })
man = {
    'version': 1,
    'setup_cmd': '/venv/bin/python tools/selftest.py',
    'hooks': {'guard': 'SLIMTA_VERIF', 'enable': 'no source hooks: monitors wrap public classes and substitute module-level names from the harness; checks import slimta from /repo\'s working tree with SLIMTA_VERIF=1 set',
              'baseline_off_cmd': 'cd /repo && /venv/bin/python -m pytest -ra -q -p no:cacheprovider --timeout=900 --continue-on-collection-errors',
              'source_commits': [], 'add_only': True},
    'engines': [{'name': 'vf', 'path': '/verif/vf', 'serves_properties': [c['property_id'] for c in checks],
                 'kind_free_text': 'runtime monitoring: real slimta code driven by generated/hostile/fault-injected workloads on scripted sockets, socketpairs, a virtual clock and backend doubles; boundary event logs judged by reference-model / conservation / ordering / metamorphic oracles'}],
    'checks': checks,
    'notes': 'run_check.py <id> --tier quick|thorough [--seed N]; VERIF_SEED / VERIF_TIER / VERIF_REPO honoured. Exit 2 (no VIOLATION line) = run decided nothing. Known findings: /verif/known_findings.json (mechanism-keyed).',
    'not_applicable': na,
}
json.dump(man, open(os.path.join(HERE, 'MANIFEST.json'), 'w'), indent=1)
try:
    import jsonschema
    jsonschema.validate(man, json.load(open('/root/.vp/MANIFEST.schema.json')))
    print('MANIFEST valid:', len(checks), 'checks,', len(na), 'not yet built')
except ImportError:
    print('MANIFEST written (jsonschema not available to validate):', len(checks), 'checks')
