#!/venv/bin/python
"""tools/mutation_sweep.py --n 300 --seed 1 [--out mutation/sweep-1.jsonl] [--files f1,f2]

A measurement, not a check: sample single-point source mutants of the files the properties are anchored in, throw
away those the repository's own suite already kills, and run the checks anchored in the mutated file against the
rest (quick tier, VERIF_REPO=<scratch worktree>, cheapest check first, stop at the first that fires). What
survives both is listed for triage (equivalent / outside every property / a gap of the machinery).

Operators (line based, one edit per mutant): comparison flips, and/or, True/False, is None / is not None,
in / not in, integer constant +-1, a simple statement replaced by `pass`, `return <expr>` -> `return None`,
`break`/`continue` swapped, an `if cond:` forced to `if not (cond):`. Lines that only log, import, or are
docstrings / comments are skipped. The scratch worktree lives under /tmp and is removed at the end.
"""
import os, re, sys, json, random, argparse, subprocess, py_compile, ast

HERE = os.path.dirname(os.path.dirname(os.path.abspath(__file__)))
TARGETS = {
    'slimta/queue/__init__.py': ['C13', 'C12', 'C01', 'C03', 'C16', 'C02'],
    'slimta/queue/dict.py': ['C15'],
    'slimta/queue/proxy.py': ['C02'],
    'slimta/diskstorage/__init__.py': ['C15', 'C04'],
    'slimta/redisstorage/__init__.py': ['C15'],
    'slimta/cloudstorage/__init__.py': ['C15'],
    'slimta/smtp/datareader.py': ['C09', 'C05'],
    'slimta/smtp/datasender.py': ['C05'],
    'slimta/smtp/io.py': ['C17', 'C09', 'C10'],
    'slimta/smtp/server.py': ['C08', 'C09', 'C07'],
    'slimta/smtp/client.py': ['C10', 'C06'],
    'slimta/smtp/reply.py': ['C17'],
    'slimta/smtp/auth.py': ['C08'],
    'slimta/smtp/extensions.py': ['C08', 'C06'],
    'slimta/relay/smtp/client.py': ['C11', 'C14', 'C19'],
    'slimta/relay/smtp/lmtpclient.py': ['C11', 'C19'],
    'slimta/relay/smtp/mx.py': ['C11', 'C19'],
    'slimta/relay/pool.py': ['C19'],
    'slimta/relay/http.py': ['C11', 'C14', 'C19'],
    'slimta/relay/pipe.py': ['C11', 'C14'],
    'slimta/relay/__init__.py': ['C11'],
    'slimta/edge/smtp.py': ['C02', 'C06'],
    'slimta/edge/wsgi.py': ['C02', 'C06'],
    'slimta/edge/__init__.py': ['C02'],
    'slimta/util/proxyproto.py': ['C18'],
    'slimta/util/bytesformat.py': ['C13'],
    'slimta/envelope/__init__.py': ['C20', 'C06'],
    'slimta/policy/split.py': ['C16'],
    'slimta/policy/forward.py': ['C16'],
    'slimta/policy/headers.py': ['C16'],
    'slimta/bounce/__init__.py': ['C13', 'C20'],
}
BASE_TAIL = '15 failed, 449 passed'

SWAPS = [(r' == ', ' != '), (r' != ', ' == '), (r' <= ', ' < '), (r' >= ', ' > '), (r' < ', ' <= '), (r' > ', ' >= '),
         (r' and ', ' or '), (r' or ', ' and '), (r'\bTrue\b', 'False'), (r'\bFalse\b', 'True'),
         (r' is not None', ' is None'), (r' is None', ' is not None'), (r' not in ', ' in '), (r' in ', ' not in '),
         (r'\bbreak\b', 'continue'), (r'\bcontinue\b', 'break')]


def sh(*a, **kw):
    return subprocess.run(a, stdout=subprocess.PIPE, stderr=subprocess.STDOUT, text=True, **kw)


def code_lines(path):
    """Line numbers (0-based) that hold executable code outside docstrings, with their text."""
    src = open(path).read()
    tree = ast.parse(src)
    doc = set()
    for node in ast.walk(tree):
        if isinstance(node, (ast.FunctionDef, ast.ClassDef, ast.Module, ast.AsyncFunctionDef)):
            b = getattr(node, 'body', [])
            if b and isinstance(b[0], ast.Expr) and isinstance(getattr(b[0], 'value', None), ast.Constant) \
                    and isinstance(b[0].value.value, str):
                doc.update(range(b[0].lineno - 1, b[0].end_lineno))
    # only lines inside function bodies
    infunc = set()
    for node in ast.walk(tree):
        if isinstance(node, (ast.FunctionDef, ast.AsyncFunctionDef)):
            infunc.update(range(node.lineno, node.end_lineno))
    out = []
    for i, line in enumerate(src.split('\n')):
        st = line.strip()
        if i in doc or i not in infunc or not st or st.startswith('#') or st.startswith(('import ', 'from ', '@')):
            continue
        if re.match(r'(log|logging)\.', st) or st.startswith(('raise NotImplementedError', 'pass')):
            continue
        out.append((i, line))
    return src, out


def candidates(path):
    src, lines = code_lines(path)
    cands = []
    for i, line in lines:
        body = line.split('#')[0]
        for pat, rep in SWAPS:
            for mo in re.finditer(pat, body):
                # not inside a string literal (rough: even number of quotes before)
                pre = body[:mo.start()]
                if pre.count("'") % 2 or pre.count('"') % 2:
                    continue
                cands.append((i, 'swap %s->%s' % (pat.strip().replace('\\b', ''), rep.strip()),
                              line[:mo.start()] + rep + line[mo.end():]))
        for mo in re.finditer(r'(?<![\w.\'"])(\d+)(?![\w.\'"])', body):
            pre = body[:mo.start()]
            if pre.count("'") % 2 or pre.count('"') % 2:
                continue
            v = int(mo.group(1))
            cands.append((i, 'const %d->%d' % (v, v + 1), line[:mo.start()] + str(v + 1) + line[mo.end():]))
            if v > 0:
                cands.append((i, 'const %d->%d' % (v, v - 1), line[:mo.start()] + str(v - 1) + line[mo.end():]))
        st = body.strip()
        ind = line[:len(line) - len(line.lstrip())]
        if re.match(r'return\s+\S', st) and st != 'return None':
            cands.append((i, 'return->None', ind + 'return None'))
        if re.match(r'if\s+.*:\s*$', st) and not st.startswith('if not ('):
            cands.append((i, 'if-negated', ind + 'if not (' + st[3:-1].strip() + '):'))
        if re.match(r'[\w.\[\]\'"]+(\(.*\)|\s*[-+]?=\s*.+)$', st) and not st.endswith((',', '(', '\\')) \
                and body.count('(') == body.count(')') and body.count('[') == body.count(']'):
            cands.append((i, 'stmt->pass', ind + 'pass'))
    return src, cands


def main():
    ap = argparse.ArgumentParser()
    ap.add_argument('--n', type=int, default=200)
    ap.add_argument('--seed', type=int, default=1)
    ap.add_argument('--out', default=None)
    ap.add_argument('--files', default='')
    a = ap.parse_args()
    out = a.out or os.path.join(HERE, 'mutation', 'sweep-%d.jsonl' % a.seed)
    os.makedirs(os.path.dirname(out), exist_ok=True)
    rnd = random.Random('mut-%d' % a.seed)
    wt = '/tmp/mutsweep-%d' % a.seed
    sh('git', '-C', '/repo', 'worktree', 'remove', '--force', wt)
    r = sh('git', '-C', '/repo', 'worktree', 'add', '-q', '--detach', wt, 'HEAD')
    assert r.returncode == 0, r.stdout
    head = sh('git', '-C', '/repo', 'log', '--format=%h', '-1').stdout.strip()
    files = [f for f in (a.files.split(',') if a.files else TARGETS) if f]
    pool = []
    for f in files:
        src, cands = candidates(os.path.join(wt, f))
        for c in cands:
            pool.append((f,) + c)
    rnd.shuffle(pool)
    done = 0
    stats = {'invalid': 0, 'killed-by-suite': 0, 'caught': 0, 'survived': 0}
    with open(out, 'a') as log:
        for f, lineno, op, newline in pool:
            if done >= a.n:
                break
            path = os.path.join(wt, f)
            src = open(path).read()
            lines = src.split('\n')
            old = lines[lineno]
            if old == newline:
                continue
            lines[lineno] = newline
            open(path, 'w').write('\n'.join(lines))
            try:
                try:
                    py_compile.compile(path, doraise=True, cfile='/tmp/mutsweep-%d.pyc' % a.seed)
                except py_compile.PyCompileError:
                    stats['invalid'] += 1
                    continue
                t = sh('/venv/bin/python', '-m', 'pytest', '-q', '-p', 'no:cacheprovider', '--timeout=120',
                       '--continue-on-collection-errors', cwd=wt)
                tail = (t.stdout.strip().splitlines() or ['?'])[-1]
                rec = {'repo': head, 'file': f, 'line': lineno + 1, 'op': op, 'old': old.strip(), 'new': newline.strip()}
                if BASE_TAIL not in tail:
                    stats['killed-by-suite'] += 1
                    rec['outcome'] = 'killed-by-suite'
                    log.write(json.dumps(rec) + '\n'); log.flush()
                    continue
                done += 1
                caught = None
                tried = []
                for c in TARGETS[f]:
                    env = dict(os.environ, VERIF_REPO=wt)
                    r = sh('/venv/bin/python', os.path.join(HERE, 'run_check.py'), c, '--tier', 'quick', env=env, cwd=HERE)
                    mech = [l.split('mechanism=')[1].split()[0] for l in r.stdout.splitlines()
                            if l.startswith('VIOLATION') and 'mechanism=' in l][:3]
                    tried.append({'check': c, 'rc': r.returncode, 'mechanisms': mech})
                    if r.returncode == 1:
                        caught = c
                        break
                rec['checks'] = tried
                rec['outcome'] = 'caught' if caught else ('undecided' if any(x['rc'] == 2 for x in tried) else 'survived')
                stats['caught' if caught else 'survived'] += 1
                log.write(json.dumps(rec) + '\n'); log.flush()
                print('%3d %-9s %s:%d %s | %s -> %s' % (done, rec['outcome'], f, lineno + 1, op, old.strip()[:50],
                                                        newline.strip()[:50]), flush=True)
            finally:
                open(path, 'w').write(src)
    sh('git', '-C', '/repo', 'worktree', 'remove', '--force', wt)
    print(json.dumps(stats))


if __name__ == '__main__':
    main()
