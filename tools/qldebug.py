#!/venv/bin/python
"""tools/qldebug.py <replay.json> [substr ...] : re-run a QueueLab case and print the events that mention any substr"""
import sys, json, os
sys.path.insert(0, os.path.dirname(os.path.dirname(os.path.abspath(__file__))))
import warnings; warnings.simplefilter('ignore')
from vf import core; core.setup_repo()
from vf import queuelab as L, qlchecks as C
w = json.load(open(sys.argv[1])); case = core.jdec(w['case'])
lab = L.run_history(case['cfg'], case['seed'], C.scratch())
subs = sys.argv[2:]
for i, e in enumerate(lab.events):
    s = repr(e)
    if not subs or any(x in s for x in subs):
        print(i, s[:300])
C.cleanup()
