#!/bin/sh
# tools/seed_matrix.sh [seed ...]   re-run, for every seeded change under /verif/seeded, the checks recorded in
# its meta.json against a fresh scratch worktree of /repo with the patch applied (VERIF_REPO), for each given
# VERIF_SEED (default: 1 2). Prints one line per (change, check, seed). The scratch worktree is removed afterwards.
seeds="${@:-1 2}"
cd /verif
for d in seeded/*/; do
  name=$(basename $d)
  wt=/tmp/seedmx-$name
  git -C /repo worktree add -q --detach $wt HEAD || continue
  if ! git -C $wt apply /verif/$d/patch.diff 2>/dev/null; then echo "$name: patch no longer applies"; git -C /repo worktree remove --force $wt; continue; fi
  checks=$(/venv/bin/python -c "import json,sys; print(' '.join(r['check'] for r in json.load(open('/verif/$d/meta.json'))['results'] if r['rc']==1))")
  for c in $checks; do for s in $seeds; do
    o=$(VERIF_REPO=$wt /venv/bin/python run_check.py $c --tier quick --seed $s 2>&1); rc=$?
    n=$(echo "$o" | grep -c '^VIOLATION')
    echo "$name check=$c seed=$s rc=$rc violation_mechanisms=$n"
  done; done
  git -C /repo worktree remove --force $wt
done
