#!/venv/bin/python
"""tools/seed_recheck.py [--add Cnn ...] [name-prefix ...]

Re-run, for the seeded changes under /verif/seeded whose name starts with one of the given prefixes (all if
none), every check recorded in its meta.json (plus the ones given with --add) against a fresh scratch worktree
of /repo with the patch applied (VERIF_REPO; quick tier), and rewrite the 'results' of meta.json. The scratch
worktree lives under /tmp and is removed afterwards. Evidence of these runs goes to evidence-alt/ (git-ignored).
"""
import os, sys, json, glob, subprocess

HERE = os.path.dirname(os.path.dirname(os.path.abspath(__file__)))


def sh(*a, **kw):
    return subprocess.run(a, stdout=subprocess.PIPE, stderr=subprocess.STDOUT, text=True, **kw)


def main():
    args = sys.argv[1:]
    add = []
    while args and args[0] == '--add':
        add.append(args[1])
        args = args[2:]
    for d in sorted(glob.glob(os.path.join(HERE, 'seeded', '*', ''))):
        name = os.path.basename(d.rstrip('/'))
        if args and not any(name.startswith(a) for a in args):
            continue
        mp = d + 'meta.json'
        m = json.load(open(mp))
        wt = '/tmp/seedre-' + name
        sh('git', '-C', '/repo', 'worktree', 'remove', '--force', wt)
        r = sh('git', '-C', '/repo', 'worktree', 'add', '-q', '--detach', wt, 'HEAD')
        if r.returncode:
            print(name, 'worktree failed', r.stdout[:200])
            continue
        try:
            r = sh('git', '-C', wt, 'apply', d + 'patch.diff')
            if r.returncode:
                print('%s: patch no longer applies: %s' % (name, r.stdout[:200]))
                continue
            checks = [x['check'] for x in m['results']]
            for c in add:
                if c not in checks:
                    checks.append(c)
            res = []
            for c in checks:
                env = dict(os.environ, VERIF_REPO=wt)
                r = sh('/venv/bin/python', os.path.join(HERE, 'run_check.py'), c, '--tier', 'quick', env=env, cwd=HERE)
                mech = [l.split('mechanism=')[1].split()[0] for l in r.stdout.splitlines()
                        if l.startswith('VIOLATION') and 'mechanism=' in l][:5]
                res.append({'check': c, 'rc': r.returncode, 'mechanisms': ' '.join(mech)})
                print('%s check=%s rc=%d %s' % (name, c, r.returncode, ' '.join(mech)[:160]), flush=True)
            m['results'] = res
            json.dump(m, open(mp, 'w'), indent=1)
        finally:
            sh('git', '-C', '/repo', 'worktree', 'remove', '--force', wt)


if __name__ == '__main__':
    main()
