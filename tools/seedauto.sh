#!/bin/sh
# tools/seedauto.sh <worktree-suffix e.g. C01d> <name> <needs-to-manifest> <prop> <checks...>
sfx=$1; name=$2; needs=$3; prop=$4; shift 4
cd /verif
tools/seedtest.sh "$name" /tmp/seed-$sfx "$prop" "$@" 2>&1 | tail -n +2 | cut -c1-230
/venv/bin/python - "$name" "$needs" <<'PY'
import json,sys
p='/verif/seeded/%s/meta.json'%sys.argv[1]; m=json.load(open(p)); m['needs_to_manifest']=sys.argv[2]; json.dump(m,open(p,'w'),indent=1)
PY
