#!/venv/bin/python
"""Print the markdown table of seeded changes (from seeded/*/meta.json) for DESIGN.md section 9.6."""
import json, glob, os
HERE = os.path.dirname(os.path.dirname(os.path.abspath(__file__)))
print('| seeded change (seeded/<name>) | property | needs to manifest | caught by (quick tier) | first mechanisms |')
print('|---|---|---|---|---|')
for d in sorted(glob.glob(os.path.join(HERE, 'seeded', '*', ''))):
    m = json.load(open(d + 'meta.json'))
    caught = [r for r in m['results'] if r['rc'] == 1]
    missed = [r['check'] for r in m['results'] if r['rc'] != 1]
    mech = '; '.join('%s: %s' % (r['check'], ' '.join(r['mechanisms'].split()[:2])) for r in caught)
    print('| %s | %s | %s | %s%s | %s |' % (m['name'], m['property'], m.get('needs_to_manifest', ''),
          ', '.join(r['check'] for r in caught) or (('no longer breaks the property on HEAD (%s); when planted: %s' % (m['neutralised_by'].split(':')[0], m.get('caught_when_planted', '?'))) if m.get('neutralised_by') else (('not caught: outside the quantifier — ' + m['outside_quantifier']) if m.get('outside_quantifier') else 'NOT CAUGHT')),
          (' (silent, as expected: ' + ', '.join(missed) + ')') if missed and caught else '', mech[:260]))
