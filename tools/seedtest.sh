#!/bin/sh
# tools/seedtest.sh <name> <worktree> <prop-id> <check ids...>
# Confirms a seeded change (tests still pass, demo fails with / passes without), stores it under
# /verif/seeded/<name>/ and runs the given checks against the patched worktree via VERIF_REPO.
name=$1; wt=$2; prop=$3; shift 3
out=/verif/seeded/$name; mkdir -p $out
cd $wt || exit 2
git diff -- slimta > $out/patch.diff
cp demo_*.py $out/ 2>/dev/null; cp NOTES.md $out/ 2>/dev/null
t_with=$(/venv/bin/python -m pytest -q -p no:cacheprovider --timeout=900 --continue-on-collection-errors 2>&1 | tail -1)
PYTHONPATH=$wt /venv/bin/python demo_*.py >/dev/null 2>&1; d_with=$?
git diff -- slimta > /tmp/seedtest-$name.diff; git checkout -- slimta   # (git stash is shared between worktrees: never use it here)
PYTHONPATH=$wt /venv/bin/python demo_*.py >/dev/null 2>&1; d_clean=$?
git apply /tmp/seedtest-$name.diff; rm -f /tmp/seedtest-$name.diff
echo "tests_with_patch: $t_with"; echo "demo_exit_with_patch=$d_with demo_exit_clean=$d_clean"
cd /verif
res=""
for c in "$@"; do
  o=$(VERIF_REPO=$wt /venv/bin/python run_check.py $c --tier quick 2>&1); rc=$?
  mech=$(echo "$o" | grep '^VIOLATION' | sed -e 's/.*mechanism=\([^ ]*\).*/\1/' | head -5 | tr '\n' ' ')
  echo "check $c rc=$rc mechanisms: $mech"
  res="$res{\"check\":\"$c\",\"rc\":$rc,\"mechanisms\":\"$mech\"},"
done
cat > $out/meta.json <<META
{"property": "$prop", "name": "$name", "tests_with_patch": "$t_with", "demo_exit_with_patch": $d_with, "demo_exit_clean": $d_clean,
 "ran": "tools/seedtest.sh: repo test suite with the patch; demo with and without the patch; checks run with VERIF_REPO=<patched worktree> (quick tier)",
 "results": [${res%,}]}
META
# restore evidence/replays for the unchanged tree is the caller's job (re-run the check on /repo)
