#!/venv/bin/python
"""setup_cmd: nothing to build (pure Python, no extra packages). Verifies that the
interpreter, the repository import and the framework import work offline."""
import os, sys
HERE = os.path.dirname(os.path.dirname(os.path.abspath(__file__)))
sys.path.insert(0, HERE)
import warnings; warnings.simplefilter('ignore')
from vf import core
core.setup_repo()
import gevent, slimta.queue, slimta.smtp.server, slimta.relay.smtp.static  # noqa
os.makedirs(os.path.join(HERE, 'evidence'), exist_ok=True)
print('vf selftest ok: slimta from', core.REPO, 'gevent', gevent.__version__)
