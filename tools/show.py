#!/venv/bin/python
import json,sys
w=json.load(open(sys.argv[1])); d=w['detail']
print('CASE',json.dumps(w['case'])[:500]); print('WHAT',w['what']); 
if isinstance(d,dict):
    print('DETAIL',json.dumps(d.get('detail'))[:700]); print('CRASHES',d.get('crashes')); print('DECISIONS',d.get('decisions'))
    n=int(sys.argv[2]) if len(sys.argv)>2 else 200
    for e in d.get('events_tail',[]): print('  ',json.dumps(e)[:n])
else: print(json.dumps(d)[:3000])
