#!/bin/sh
# validate MANIFEST.json and every evidence file against the given schemas (needs python3-vt's jsonschema)
python3-vt - <<'PY'
import json, glob, jsonschema
jsonschema.validate(json.load(open('/verif/MANIFEST.json')), json.load(open('/root/.vp/MANIFEST.schema.json')))
print('MANIFEST ok')
es = json.load(open('/root/.vp/EVIDENCE.schema.json'))
for f in sorted(glob.glob('/verif/evidence/*.json')):
    try:
        jsonschema.validate(json.load(open(f)), es); print('ok', f)
    except Exception as e:
        print('INVALID', f, str(e)[:300])
PY
