"""C11 extensions of the scripted next hop (vf.downstream.Downstream), purely additive (a subclass).

  tcp=True                 the connection handed to the relay is a real loopback TCP connection (not a
                           socketpair), so that the server can *reset* it
  tls_immediately=True     the connection starts with a TLS handshake (SMTPS-style next hop)
  lenient_data=True        DATA is answered by the script (default 354) even when the MAIL was refused or no
                           recipient was accepted (a next hop that only refuses at the end of the data)

  extra actions
    ('reset',)                       abortive close: SO_LINGER 0 + close => the peer sees ECONNRESET / EPIPE
                                     (needs tcp=True; on a socketpair it degrades to a plain close)
    ('chunks', k, inner)             perform inner (ok / reply / reply-ml / raw) but write its bytes in k pieces
                                     with a hub round trip (gevent.sleep(0.002)) between them; counts as inner
    ('reply-ml', code, [t1, t2..])   a well-formed multi-line reply; counts as ('reply', code)
    ('reply-exact', code, text)      exactly b'<code> <text>\\r\\n' (no [conn txn marker] tag appended: for a text that
                                     is empty or only an enhanced status code); counts as ('reply', code)
    ('tlscorrupt',)                  (inside TLS) write a bogus TLS record straight to the file descriptor,
                                     then go silent: the peer's TLS layer fails on its next read
  extra stage
    'tlshandshake'                   consulted instead of performing the TLS handshake (after a positive STARTTLS
                                     reply, or first thing with tls_immediately=True):
                                       ('ok',)            handshake
                                       ('close',)         close instead
                                       ('stall',)         never answer the ClientHello
                                       ('garbage', b'..') wait for the ClientHello, answer with these bytes, go silent
                                     (b'\\x15\\x03\\x03\\x00\\x02\\x02\\x28' is a fatal handshake_failure alert)

`handshakes` counts completed server-side TLS handshakes.
"""
import os
import errno
import struct
import socket as _stdsocket

import gevent
from gevent import socket
from gevent.event import Event

from vf.downstream import Downstream, Conn


class _Reset(EOFError):
    pass


class _ScriptedContext(object):
    """Stands in for the ssl context handed to Downstream: consults the 'tlshandshake' stage first."""

    def __init__(self, ds, real):
        self.ds = ds
        self.real = real

    def wrap_socket(self, sock, server_side=True):
        ds = self.ds
        n = ds._serving.get(gevent.getcurrent(), len(ds.conns) - 1)
        a = ds._resolve({'conn': n, 'txn': 0, 'marker': None, 'mode': 'lmtp' if ds.lmtp else 'smtp'},
                        'tlshandshake')
        k = a[0]
        if k == 'close':
            raise EOFError()
        if k in ('stall', 'garbage'):
            try:
                if k == 'garbage':
                    sock.recv(4096)             # the ClientHello
                    sock.sendall(a[1])
                ds.stalled.set()
                while sock.recv(4096):
                    pass
            except (OSError, IOError):
                pass
            raise EOFError()
        s = self.real.wrap_socket(sock, server_side=server_side)
        ds.handshakes += 1
        ds._socks[n] = s
        return s


class Downstream11(Downstream):

    def __init__(self, script=None, tcp=False, tls_immediately=False, lenient_data=False, tls_context=None, **kw):
        self._real_tls = tls_context
        if tls_context is not None:
            tls_context = _ScriptedContext(self, tls_context)
        Downstream.__init__(self, script, tls_context=tls_context, **kw)
        self.tcp = tcp
        self.tls_immediately = tls_immediately
        self.lenient_data = lenient_data
        self.handshakes = 0
        self._socks = {}
        self._serving = {}
        self._forced = None

    # --- action plumbing (as in vf.c14_downstream): resolve once, hand the resolved action to the base class
    def action(self, ctx, stage):
        if self._forced is not None:
            a, self._forced = self._forced, None
            return a
        return Downstream.action(self, ctx, stage)

    def _resolve(self, ctx, stage):
        a = Downstream.action(self, ctx, stage)
        while a[0] == 'delay':
            gevent.sleep(a[1])
            a = a[2]
        return a

    def creator(self, address=None):
        if not self.tcp:
            return Downstream.creator(self, address)
        self.connects += 1
        ctx = {'conn': len(self.conns), 'txn': 0, 'marker': None, 'mode': 'lmtp' if self.lmtp else 'smtp'}
        a = self._resolve(ctx, 'connect')
        if a[0] == 'refuse':
            raise _stdsocket.error(errno.ECONNREFUSED, 'Connection refused (scripted)')
        if a[0] == 'stall':
            self.stalled.set()
            Event().wait()
        lst = socket.socket(socket.AF_INET, socket.SOCK_STREAM)
        try:
            lst.bind(('127.0.0.1', 0))
            lst.listen(1)
            ours = socket.create_connection(lst.getsockname())
            theirs, _ = lst.accept()
        finally:
            lst.close()
        c = Conn(len(self.conns))
        self.conns.append(c)
        g = gevent.spawn(self.serve, theirs, c)
        self.greenlets.append(g)
        return ours

    @staticmethod
    def _bytes_of(inner, ok, tag):
        k = inner[0]
        if k == 'ok':
            return ok, inner
        if k == 'raw':
            return inner[1], inner
        if k == 'reply':
            text = inner[2] if len(inner) > 2 else {'2': '2.0.0 fine', '4': '4.0.0 try later',
                                                    '5': '5.0.0 no'}.get(inner[1][0], 'hm')
            return ('%s %s [%s]\r\n' % (inner[1], text, tag)).encode(), inner
        if k == 'reply-exact':
            return ('%s %s\r\n' % (inner[1], inner[2])).encode(), ('reply', inner[1])
        if k == 'reply-ml':
            code, texts = inner[1], list(inner[2])
            texts[-1] = '%s [%s]' % (texts[-1], tag)
            lines = ['%s-%s' % (code, t) for t in texts[:-1]] + ['%s %s' % (code, texts[-1])]
            return ''.join(l + '\r\n' for l in lines).encode(), ('reply', code)
        raise ValueError('cannot render %r' % (inner,))

    def _send(self, f, c, ctx, stage, ok):
        a = self._resolve(ctx, stage)
        k = a[0]
        if k == 'reset':
            s = self._socks.get(c.n)
            try:
                if s is not None and self.tcp:
                    s.setsockopt(socket.SOL_SOCKET, socket.SO_LINGER, struct.pack('ii', 1, 0))
            except (OSError, IOError):
                pass
            c.reset = True
            raise _Reset()
        if k == 'tlscorrupt':
            s = self._socks.get(c.n)
            try:
                if s is not None and c.tls:
                    os.write(s.fileno(), b'\x17\x03\x03\x00\x10' + b'\x5a' * 16)
            except (OSError, IOError):
                pass
            self.stalled.set()
            try:
                while f.read(1):
                    pass
            except (OSError, IOError):
                pass
            raise EOFError()
        if k in ('chunks', 'reply-ml', 'reply-exact'):
            pieces, inner = (a[1], a[2]) if k == 'chunks' else (1, a)
            data, counted = self._bytes_of(inner, ok, self._tag(ctx))
            n = max(1, min(pieces, len(data)))
            step = -(-len(data) // n)
            for i in range(0, len(data), step):
                f.write(data[i:i + step])
                f.flush()
                if i + step < len(data):
                    gevent.sleep(0.002)
            return counted
        self._forced = a
        return Downstream._send(self, f, c, ctx, stage, ok)

    def serve(self, sock, c):
        self._socks[c.n] = sock
        self._serving[gevent.getcurrent()] = c.n
        try:
            if self.tls_immediately and self._real_tls is not None:
                try:
                    sock = self.tls_context.wrap_socket(sock, server_side=True)
                except EOFError:
                    c.closed_by = 'server'
                    c.opened = False
                    sock.close()
                    return
                except (OSError, IOError):
                    c.closed_by = 'peer'
                    c.opened = False
                    sock.close()
                    return
                c.tls = True
            return Downstream.serve(self, sock, c)
        finally:
            self._serving.pop(gevent.getcurrent(), None)
