"""C14 child process: ONE delivery attempt of a relay that was given NO TLS context (the library default), against a
scripted next hop that misbehaves in the TLS handshake.  Runs in a process of its own because the failure mode it
looks for -- a handshake on a blocking (non-cooperative) SSL socket -- freezes the whole process: no gevent timeout,
watchdog or other greenlet runs any more, only the parent's subprocess timeout can tell.

usage: python c14_default_ctx_child.py '<json: proto, mode, pattern, context, T>'
prints one JSON line: {"done": bool, "transient": bool, "outcome": str, "stall_began": bool, "blocked_at": [...]}
or, from a watchdog THREAD (a real OS thread: it keeps running while the main thread sits in a blocking C call):
{"hub_frozen": true, "for": seconds, "main_thread_at": [...]} when a 10 ms ticker greenlet has not run for
max(3 s, 15*T) although the thread itself was scheduled all along (so the process was not starved, its hub was stuck).

  mode     'starttls' | 'immediate'
  pattern  'silent'    next hop answers 220 to STARTTLS (resp. accepts the connection) and never starts the handshake
           'trickle'   ... and trickles the first bytes of a ServerHello record, one per T/4, never completing it
           'untrusted' completes the handshake with the self-signed test certificate (the default context must
                       reject it; the attempt has to end with a transient failure)
  context  'default' (none passed) | 'explicit' (vf.tls.client_context(): the control)
Verdict inside the child as everywhere in C14: once the stall began, a chain of 4 sleeps of 1.25*T (timers of the
same hub as slimta's Timeouts), then `done` is read.
"""
import os
import sys
import json

sys.path.insert(0, os.path.dirname(os.path.dirname(os.path.abspath(__file__))))
from vf import core                                         # noqa: E402
core.setup_repo()

import gevent                                               # noqa: E402
from vf import tls                                          # noqa: E402
from vf.c14_downstream import Downstream14                  # noqa: E402
from slimta.relay import TransientRelayError                # noqa: E402
from slimta.relay.smtp.static import StaticSmtpRelay, StaticLmtpRelay   # noqa: E402
from slimta.envelope import Envelope                        # noqa: E402

K, LINKS = 5, 4
_beat = [0]


def _ticker():
    while True:
        _beat[0] += 1
        gevent.sleep(0.01)


def _watch(freeze_after, main_ident):
    import time
    import traceback
    last, since, wakes = _beat[0], time.monotonic(), 0
    while True:
        time.sleep(0.05)
        wakes += 1
        if _beat[0] != last:
            last, since, wakes = _beat[0], time.monotonic(), 0
        elif time.monotonic() - since >= freeze_after and wakes >= freeze_after / 0.05 / 2:
            fr = sys._current_frames().get(main_ident)
            at = ['%s:%s:%d' % (os.path.basename(f.filename), f.name, f.lineno)
                  for f in traceback.extract_stack(fr)][-6:] if fr is not None else []
            sys.stdout.write(json.dumps({'hub_frozen': True, 'for': round(time.monotonic() - since, 2),
                                         'watchdog_thread_wakeups_meanwhile': wakes, 'main_thread_at': at}) + '\n')
            sys.stdout.flush()
            os._exit(3)
_HELLO = b'\x16\x03\x03\x00\x7a\x02\x00\x00\x76\x03\x03' + bytes(range(64))


def main(arg):
    import _thread
    gevent.get_hub().print_exception = lambda *a, **k: None
    T = arg['T']
    gevent.spawn(_ticker)
    _thread.start_new_thread(_watch, (max(3.0, 15 * T), _thread.get_ident()))
    lmtp = arg['proto'] == 'lmtp'
    imm = arg['mode'] == 'immediate'
    pattern = arg['pattern']

    def script(ctx, st):
        if st == 'tlshandshake':
            if pattern == 'silent':
                return ('stall',)
            if pattern == 'trickle':
                return ('trickle', T / 4.0, ('raw', _HELLO[:4 * K + 4]))
        return ('ok',)
    ds = Downstream14(script, lmtp=lmtp, pipelining=True, tls_context=tls.server_context(), tls_immediately=imm)
    kw = dict(socket_creator=ds.creator, connect_timeout=T, command_timeout=T, data_timeout=T, ehlo_as='relay.c14.test')
    if imm:
        kw['tls_immediately'] = True
    if arg.get('context') == 'explicit':
        kw['context'] = tls.client_context()
    relay = (StaticLmtpRelay if lmtp else StaticSmtpRelay)('next-hop.c14.test', 24 if lmtp else 25, **kw)
    env = Envelope('sender@c14.test', ['rcpt@c14.test'])
    env.parse(b'Subject: c14\r\n\r\nbody\r\n')
    out = {}

    def run():
        try:
            out['result'] = relay.attempt(env, 0)
            out['kind'] = 'returned'
        except gevent.GreenletExit:
            out['kind'] = 'killed'
        except BaseException as e:
            out['kind'] = 'raised'
            out['exc'] = e
        out['done'] = True
    g = gevent.spawn(run)
    gevent.wait([ds.stalled, g], timeout=60.0, count=1)
    began = ds.stalled.is_set()
    if began:
        for _ in range(LINKS):
            gevent.sleep(K * T / LINKS)
        for _ in range(6):
            gevent.sleep(0.001)
    done = bool(out.get('done'))
    if out.get('kind') == 'raised':
        outcome = 'raised %s: %s' % (type(out['exc']).__name__, str(out['exc'])[:90])
        transient = isinstance(out['exc'], TransientRelayError)
    elif done:
        r = out.get('result')
        outcome = 'returned %r' % (r,)
        transient = isinstance(r, dict) and bool(r) and all(isinstance(v, TransientRelayError) for v in r.values())
    else:
        outcome, transient = 'blocked', False
    blocked = []
    if not done:
        for c in list(relay.pool):
            fr = getattr(c, 'gr_frame', None)
            while fr is not None:
                if '/slimta/' in fr.f_code.co_filename:
                    blocked.append('%s:%s:%d' % (fr.f_code.co_filename.split('/slimta/', 1)[1], fr.f_code.co_name,
                                                 fr.f_lineno))
                fr = fr.f_back
    sys.stdout.write(json.dumps({'done': done, 'transient': transient, 'outcome': outcome[:160], 'stall_began': began,
                                 'blocked_at': blocked[::-1], 'encrypted_connections': [c.tls for c in ds.conns]}) + '\n')
    sys.stdout.flush()
    tls.cleanup()
    os._exit(0)


if __name__ == '__main__':
    main(json.loads(sys.argv[1]))
