"""C14 extensions of the scripted next hop (vf.downstream.Downstream), purely additive (a subclass):

  extra actions
    ('raw-stall', b'...')            write these bytes (e.g. a reply line without its newline), then never
                                     send anything again (like ('stall',))
    ('trickle', delta, action)       perform `action` (ok / reply / raw) but write its bytes one at a time
                                     with gevent.sleep(delta) after each byte; `stalled` is set when the
                                     first byte is written, `trickled` counts bytes the peer still took
  extra stage
    'tlshandshake'                   consulted instead of performing the TLS handshake (after a positive
                                     STARTTLS reply, or at connection start with tls_immediately=True);
                                     ('stall',) = never start the handshake, ('raw-stall', b'..') = send a
                                     fragment of a handshake record and go silent; default ('ok',) = handshake
    'idle' / 'after-ehlo'            consulted after an end-of-data reply / the EHLO-LHLO reply was sent:
                                     ('raw-stall', b'..') = once the peer has consumed that reply, send these bytes
                                     unasked as a segment of their own (e.g. half a 421 line), then silence
    'body'                           consulted after a positive reply to DATA, before the message is read:
                                     ('noread',) = never read a byte of the message (nor anything else) again --
                                     the sender blocks in send() once the kernel buffers are full;
                                     ('delay', s, ('ok',)) = start reading after s seconds; default ('ok',)
                                     With push_on_probe=True the bytes are withheld until the harness calls
                                     push_now() (it does so when the peer starts probing for unsolicited data).
                                     ('raw-below-tls', b'..' | None) (needs bio_tls=True, encrypted connection): the
                                     bytes go on the wire BELOW the TLS layer (part of a record, garbage, or -- None --
                                     one complete non-application record: a TLS 1.3 post-handshake CertificateRequest).
  bio_tls=True                       the next hop does its TLS with ssl.MemoryBIO/SSLObject on the raw socket (BioTlsSocket)
  tls_immediately=True               the connection starts with a TLS handshake (SMTPS-style next hop)
  small_buffers=N                    SO_SNDBUF of the relay's end of the socketpair is set to N bytes, so that a
                                     message of a few hundred KB does not fit into the kernel buffers
  lenient_data=True                  DATA is answered by the script even when no recipient was accepted

deaf=True: a stalled connection does not read from its socket either (the default stall keeps reading and
so lets the TLS layer answer the peer's close_notify).

`stall_log` records (stage, kind) of every stall that began, in order.
"""
import gevent

from vf.downstream import Downstream


class BioTlsSocket(object):
    """Server side of a TLS connection done with ssl.MemoryBIO / SSLObject on top of the RAW gevent socket, so that the
    scripted next hop keeps access to the transport below the TLS layer: `raw` (send bytes that are no record, or
    only part of one) and post_handshake_record() -- a complete, valid, NON-application record (the TLS 1.3
    post-handshake CertificateRequest; records cannot be withheld and sent later, their sequence numbers are part of
    the protection, so it is produced when wanted).  Offers what vf.downstream.Downstream needs of a socket:
    makefile('rwb') -> readline/read/write/flush/close, close()."""

    def __init__(self, raw, context):
        import ssl as _ssl
        self._ssl = _ssl
        self.raw = raw
        self.inc = _ssl.MemoryBIO()
        self.out = _ssl.MemoryBIO()
        self.obj = context.wrap_bio(self.inc, self.out, server_side=True)
        self.buf = b''
        self.eof = False
        self.mute = False                  # once set, nothing the TLS layer produces reaches the wire any more
        while True:
            try:
                self.obj.do_handshake()
                break
            except _ssl.SSLWantReadError:
                self._flush()
                if not self._fill():
                    raise _ssl.SSLError('EOF during handshake')
        self._flush()                      # (session tickets)

    def post_handshake_record(self):
        """Bytes of ONE complete non-application record for this connection, or b'' if that is not possible (needs
        TLS 1.3, a server context with verify_mode CERT_OPTIONAL and a client that offered post_handshake_auth).
        OpenSSL emits the request together with the next application write; only the first record is returned and
        the rest is dropped -- nothing may be sent on this connection afterwards (the next hop goes silent)."""
        try:
            if self.obj.version() != 'TLSv1.3':
                return b''
            self.obj.verify_client_post_handshake()
            self.mute = True               # (the peer's answer would make OpenSSL issue new session tickets)
            self.obj.write(b'x')
            data = self.out.read()
        except (self._ssl.SSLError, ValueError, OSError):
            return b''
        if len(data) < 5:
            return b''
        n = int.from_bytes(data[3:5], 'big')
        rest = data[5 + n:]
        return data[:5 + n] if len(rest) >= 5 else b''      # (two records expected: the request, then the 'x')

    def _flush(self):
        data = self.out.read()
        if data and not self.mute:
            self.raw.sendall(data)

    def _fill(self):
        d = self.raw.recv(16384)
        if not d:
            self.inc.write_eof()
            return False
        self.inc.write(d)
        return True

    def recv(self, n=4096):
        while not self.eof:
            try:
                d = self.obj.read(n)
                self._flush()
                if not d:
                    self.eof = True
                return d
            except self._ssl.SSLWantReadError:
                self._flush()
                if not self._fill():
                    self.eof = True
            except (self._ssl.SSLZeroReturnError, self._ssl.SSLEOFError):
                self.eof = True
        return b''

    def sendall(self, data):
        self.obj.write(data)
        self._flush()

    def fileno(self):
        return self.raw.fileno()

    def makefile(self, mode='rwb'):
        return _BioFile(self)

    def close(self):
        try:
            self.raw.close()
        except Exception:
            pass


class _BioFile(object):
    def __init__(self, sock):
        self.s = sock
        self.w = []

    def readline(self):
        s = self.s
        while b'\n' not in s.buf:
            d = s.recv(4096)
            if not d:
                line, s.buf = s.buf, b''
                return line
            s.buf += d
        line, _, s.buf = s.buf.partition(b'\n')
        return line + b'\n'

    def read(self, n=1):
        s = self.s
        if not s.buf:
            s.buf = s.recv(4096)
        d, s.buf = s.buf[:n], s.buf[n:]
        return d

    def write(self, data):
        self.w.append(bytes(data))

    def flush(self):
        if self.w:
            data, self.w = b''.join(self.w), []
            self.s.sendall(data)

    def close(self):
        pass


class _StallingContext(object):
    """Stands in for the ssl context handed to Downstream: consults the 'tlshandshake' stage first."""

    def __init__(self, ds, real):
        self.ds = ds
        self.real = real

    def wrap_socket(self, sock, server_side=True):
        a = self.ds._resolve({'conn': len(self.ds.conns) - 1, 'txn': 0, 'marker': None,
                              'mode': 'lmtp' if self.ds.lmtp else 'smtp'}, 'tlshandshake')
        if a[0] in ('stall', 'raw-stall'):
            if a[0] == 'raw-stall':
                sock.sendall(a[1])
            self.ds._begin_stall('tlshandshake', a[0])
            try:
                while sock.recv(4096):
                    pass
            except (OSError, IOError):
                pass
            raise EOFError()
        if a[0] == 'trickle' and a[2][0] == 'raw':
            # the first bytes of a handshake record, one at a time, never completed
            first = True
            try:
                for i in range(len(a[2][1])):
                    sock.sendall(a[2][1][i:i + 1])
                    self.ds.trickled += 1
                    if first:
                        self.ds._begin_stall('tlshandshake', 'trickle')
                        first = False
                    gevent.sleep(a[1])
                while sock.recv(4096):
                    pass
            except (OSError, IOError):
                pass
            raise EOFError()
        if self.ds.bio_tls:
            bs = BioTlsSocket(sock, self.real)
            self.ds._tls_socks[len(self.ds.conns) - 1] = bs
            return bs
        return self.real.wrap_socket(sock, server_side=server_side)


class Downstream14(Downstream):

    def __init__(self, script=None, tls_immediately=False, tls_context=None, deaf=False, small_buffers=None,
                 lenient_data=False, bio_tls=False, **kw):
        self.deaf = deaf
        self.bio_tls = bio_tls
        self._tls_socks = {}
        self.small_buffers = small_buffers
        self.lenient_data = lenient_data
        self._real_tls = tls_context
        if tls_context is not None:
            tls_context = _StallingContext(self, tls_context)
        Downstream.__init__(self, script, tls_context=tls_context, **kw)
        self.tls_immediately = tls_immediately
        self.stall_log = []
        self._socks = {}
        self.pushed_after_drain = None
        self.trickled = 0
        self._forced = None
        self.push_on_probe = False
        self.below_tls_bytes = None
        self._pending_push = {}

    def creator(self, address=None):
        ours = Downstream.creator(self, address)
        if self.small_buffers:
            import socket as _s
            ours.setsockopt(_s.SOL_SOCKET, _s.SO_SNDBUF, self.small_buffers)
        return ours

    # --- action plumbing: resolve delays once, then hand the resolved action to the base class
    def action(self, ctx, stage):
        if self._forced is not None:
            a, self._forced = self._forced, None
            return a
        return Downstream.action(self, ctx, stage)

    def _resolve(self, ctx, stage):
        a = Downstream.action(self, ctx, stage)
        while a[0] == 'delay':
            gevent.sleep(a[1])
            a = a[2]
        return a

    def _begin_stall(self, stage, kind):
        self.stall_log.append((stage, kind))
        self.stalled.set()

    def _silent(self, f):
        if self.deaf:
            # not even the TLS layer answers any more (no close_notify in reply to the peer's)
            from gevent.event import Event
            Event().wait()
        try:
            while f.read(1):
                pass
        except (OSError, IOError):
            pass
        raise EOFError()

    def _send(self, f, c, ctx, stage, ok):
        a = self._resolve(ctx, stage)
        k = a[0]
        if k == 'stall':
            self._begin_stall(stage, 'stall')
            self._silent(f)
        if k == 'raw-stall':
            f.write(a[1])
            f.flush()
            self._begin_stall(stage, 'raw-stall')
            self._silent(f)
        if k == 'trickle':
            delta, inner = a[1], a[2]
            if inner[0] == 'ok':
                data = ok
            elif inner[0] == 'raw':
                data = inner[1]
            elif inner[0] == 'reply':
                text = inner[2] if len(inner) > 2 else 'trickled reply ' + 'x' * 40
                data = ('%s %s\r\n' % (inner[1], text)).encode()
            else:
                raise ValueError('cannot trickle %r' % (inner,))
            first = True
            for i in range(len(data)):
                f.write(data[i:i + 1])
                f.flush()                      # EPIPE here (peer gone) ends serve() as 'peer closed'
                self.trickled += 1
                if first:
                    self._begin_stall(stage, 'trickle')
                    first = False
                gevent.sleep(delta)
            return inner
        self._forced = a
        r = Downstream._send(self, f, c, ctx, stage, ok)
        if stage == 'data' and self.positive(r, '3'):
            # what the next hop does with the message the peer now starts to send
            a3 = self._resolve(ctx, 'body')
            if a3[0] == 'noread':
                self._begin_stall('body', 'noread')
                from gevent.event import Event
                Event().wait()
        extra = 'idle' if stage.startswith('eod') else 'after-ehlo' if stage == 'ehlo' else None
        if extra:
            # what the next hop does, unasked, after answering the end of data / the EHLO or LHLO
            a2 = Downstream.action(self, ctx, extra)
            if a2[0] == 'raw-below-tls':
                # bytes written BELOW the TLS layer of an encrypted connection (bio_tls=True), then silence:
                # a2[1] = the bytes, or None for the withheld post-handshake records (TLS 1.3 session tickets)
                bs = self._tls_socks.get(ctx['conn'])
                data = (a2[1] if a2[1] is not None else bs.post_handshake_record()) if bs is not None else b''
                if data:
                    from gevent.event import Event
                    ev = Event()
                    self.below_tls_bytes = data
                    self._pending_push[ctx['conn']] = (data, ev, bs.raw)
                    if not self.push_on_probe:
                        self.push_now()
                    ev.wait()
                    self.pushed_after_drain = True
                    self._begin_stall(extra, 'raw-below-tls')
                    self._silent(f)
                else:
                    self.stall_log.append((extra, 'raw-below-tls-not-possible'))
            if a2[0] == 'raw-stall':
                if self.push_on_probe and not self.conns[ctx['conn']].tls:
                    # the harness puts the bytes on the wire itself (push_now) at the instant the peer starts to
                    # look for unsolicited data -- by then it has consumed the reply just sent
                    from gevent.event import Event
                    ev = Event()
                    self._pending_push[ctx['conn']] = (a2[1], ev, self._socks[ctx['conn']])
                    ev.wait()
                    self.pushed_after_drain = True
                else:
                    # as a segment of its own: only once the peer has consumed the reply just sent
                    self.pushed_after_drain = self._wait_drained(ctx['conn'])
                    f.write(a2[1])
                    f.flush()
                self._begin_stall(extra, 'raw-stall')
                self._silent(f)
        return r

    def push_now(self):
        """Called by the harness from the peer's greenlet: write every withheld unsolicited fragment now."""
        pushed = False
        for conn, (data, ev, sock) in list(self._pending_push.items()):
            del self._pending_push[conn]
            try:
                sock.sendall(data)
                pushed = True
            except (OSError, IOError):
                pass
            ev.set()
        return pushed

    def _wait_drained(self, conn, limit=0.2):
        """Poll (0.5 ms) until the peer has read everything we sent (SIOCOUTQ == 0 on our end of the socketpair);
        returns True if that was observed. Not possible over TLS / without the ioctl: falls back to a 3 ms pause."""
        import time
        import fcntl
        import struct
        import termios
        sock = self._socks.get(conn)
        t0 = time.monotonic()
        try:
            if sock is None or self.conns[conn].tls:
                raise OSError('n/a')
            while struct.unpack('i', fcntl.ioctl(sock.fileno(), termios.TIOCOUTQ, b'\0\0\0\0'))[0] > 0:
                if time.monotonic() - t0 > limit:
                    return False
                gevent.sleep(0.0005)
            return True
        except (OSError, IOError, ValueError):
            gevent.sleep(0.003)
            return False

    def serve(self, sock, c):
        self._socks[c.n] = sock
        if self.tls_immediately and self._real_tls is not None:
            try:
                sock = self.tls_context.wrap_socket(sock, server_side=True)
            except EOFError:
                c.closed_by = 'server'
                c.opened = False
                sock.close()
                return
            except (OSError, IOError):
                c.closed_by = 'peer'
                c.opened = False
                sock.close()
                return
            c.tls = True
        return Downstream.serve(self, sock, c)
