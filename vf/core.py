"""Core of the runtime-monitoring framework: repo import, case/run bookkeeping,
three-valued verdicts, known-findings discipline, evidence writer, sharded runner.

A *check module* (checks/cNN_*.py) exposes

    PROPERTY = 'C05'
    LEVEL    = 'exploration' | 'fault_enumeration'
    RULE     = 'how cases are generated and what makes one non-trivial/distinct'
    ASSUMPTIONS = [...]
    REQUIRED_HITS = ['monitor-name', ...]   # deciding monitors; zero hits => inconclusive run
    SHARDS = {'quick': 4, 'thorough': 16}
    def gen_cases(tier, seed, shard, nshards): yields JSON-serialisable case dicts
    def run_case(case, R): executes the real code for that case, calling
         R.hit(name), R.nontrivial(key), R.violation(mechanism, what, witness=None),
         R.inconclusive(reason), R.observe(kind, key)
    def classify(...)  (optional; mechanisms are normally produced in run_case)

The same run_case is used by the sweep and by --replay, so a replay file (which
contains the case) re-executes exactly the witness.
"""
import os
import sys
import json
import time
import hashlib
import traceback
import collections

VERIF = os.path.dirname(os.path.dirname(os.path.abspath(__file__)))
REPO = os.environ.get('VERIF_REPO', '/repo')


def setup_repo():
    """Put the repository's *current working tree* first on sys.path and make
    sure that is what gets imported."""
    if REPO in sys.path:
        sys.path.remove(REPO)
    sys.path.insert(0, REPO)
    os.environ.setdefault('SLIMTA_VERIF', '1')
    import logging
    logging.disable(logging.CRITICAL)
    import slimta.queue
    f = os.path.realpath(slimta.queue.__file__)
    if not f.startswith(os.path.realpath(REPO) + os.sep):
        raise RuntimeError('slimta imported from %s, not from %s' % (f, REPO))
    return REPO


def jdefault(o):
    if isinstance(o, (bytes, bytearray)):
        return {'__bytes__': bytes(o).decode('latin-1')}
    if isinstance(o, (set, frozenset)):
        return sorted(o, key=repr)
    if isinstance(o, tuple):
        return list(o)
    return repr(o)


def jdumps(o, **kw):
    return json.dumps(_enc(o), default=jdefault, **kw)


def _enc(o):
    if isinstance(o, (bytes, bytearray)):
        return {'__bytes__': bytes(o).decode('latin-1')}
    if isinstance(o, dict):
        return {(k if isinstance(k, str) else repr(k)): _enc(v) for k, v in o.items()}
    if isinstance(o, (list, tuple)):
        return [_enc(v) for v in o]
    if isinstance(o, (set, frozenset)):
        return [_enc(v) for v in sorted(o, key=repr)]
    if isinstance(o, (str, int, float, bool)) or o is None:
        return o
    return repr(o)


def jdec(o):
    """Inverse of _enc for bytes."""
    if isinstance(o, dict):
        if set(o) == {'__bytes__'}:
            return o['__bytes__'].encode('latin-1')
        return {k: jdec(v) for k, v in o.items()}
    if isinstance(o, list):
        return [jdec(v) for v in o]
    return o


def short(o, n=300):
    s = o if isinstance(o, str) else jdumps(o)
    return s if len(s) <= n else s[:n] + '...'


def khash(key):
    return hashlib.blake2b(repr(key).encode('utf-8', 'replace'), digest_size=8).hexdigest()


class Recorder(object):
    """Per-shard accumulator handed to run_case()."""

    MAX_WITNESS = 3
    MAX_SAMPLES = 6

    def __init__(self, prop):
        self.prop = prop
        self.evaluations = 0
        self.cases = 0
        self.hits = collections.Counter()
        self.nt = set()            # hashes of distinct non-trivial keys
        self.observed = collections.defaultdict(set)   # kind -> distinct hashed keys
        self.viol = {}             # mechanism -> {'count', 'what', 'witnesses': [..]}
        self.inconc = collections.Counter()
        self.samples = []
        self.extra = collections.Counter()   # free numeric counters reported in coverage
        self._case = None
        self._case_viol = 0

    # --- called by the sweep driver
    def begin_case(self, case):
        self._case = case
        self._case_viol = 0
        self.cases += 1

    # --- called by run_case
    def eval(self, n=1):
        self.evaluations += n

    def hit(self, name, n=1):
        self.hits[name] += n

    def nontrivial(self, key):
        self.nt.add(khash(key))

    def observe(self, kind, key):
        s = self.observed[kind]
        if len(s) < 2000000:
            s.add(khash(key))

    def count(self, name, n=1):
        self.extra[name] += n

    def sample(self, obj):
        if len(self.samples) < self.MAX_SAMPLES:
            self.samples.append(_enc(obj))

    def inconclusive(self, reason):
        self.inconc[reason] += 1

    def violation(self, mechanism, what, witness=None):
        v = self.viol.setdefault(mechanism, {'count': 0, 'what': what, 'witnesses': []})
        v['count'] += 1
        self._case_viol += 1
        if len(v['witnesses']) < self.MAX_WITNESS:
            v['witnesses'].append({'case': _enc(self._case), 'what': what,
                                   'detail': _enc(witness)})

    def dump(self):
        return {
            'evaluations': self.evaluations, 'cases': self.cases,
            'hits': dict(self.hits), 'nt': sorted(self.nt),
            'observed': {k: sorted(v) for k, v in self.observed.items()},
            'viol': self.viol, 'inconc': dict(self.inconc),
            'samples': self.samples, 'extra': dict(self.extra),
        }


def merge(parts):
    out = {'evaluations': 0, 'cases': 0, 'hits': collections.Counter(), 'nt': set(),
           'observed': collections.defaultdict(set), 'viol': {},
           'inconc': collections.Counter(), 'samples': [], 'extra': collections.Counter()}
    for p in parts:
        out['evaluations'] += p['evaluations']
        out['cases'] += p['cases']
        out['hits'].update(p['hits'])
        out['nt'].update(p['nt'])
        for k, v in p['observed'].items():
            out['observed'][k].update(v)
        out['inconc'].update(p['inconc'])
        out['extra'].update(p['extra'])
        for s in p['samples']:
            if len(out['samples']) < 8:
                out['samples'].append(s)
        for m, v in p['viol'].items():
            o = out['viol'].setdefault(m, {'count': 0, 'what': v['what'], 'witnesses': []})
            o['count'] += v['count']
            for w in v['witnesses']:
                if len(o['witnesses']) < Recorder.MAX_WITNESS:
                    o['witnesses'].append(w)
    return out


def load_known(prop):
    path = os.path.join(VERIF, 'known_findings.json')
    try:
        with open(path) as f:
            data = json.load(f)
    except FileNotFoundError:
        return {}
    return {e['mechanism']: e for e in data.get('findings', []) if e['property'] == prop}


def watchdog_call(fn, seconds):
    """Run fn() in the current greenlet under a *generous* real-time watchdog;
    firing => ('inconclusive', ...). Never a verdict."""
    import gevent
    t = gevent.Timeout(seconds)
    t.start()
    try:
        return ('ok', fn())
    except gevent.Timeout as e:
        if e is not t:
            raise
        return ('watchdog', None)
    finally:
        t.close()


def run_shard(mod, tier, seed, shard, nshards, budget_s, out_path):
    """Worker: run this shard's cases and dump the recorder."""
    R = Recorder(mod.PROPERTY)
    t0 = time.time()
    stopped_early = False
    try:
        for case in mod.gen_cases(tier, seed, shard, nshards):
            if budget_s and time.time() - t0 > budget_s:
                stopped_early = True
                break
            R.begin_case(case)
            try:
                mod.run_case(case, R)
            except Exception:
                # an exception escaping the harness itself is a harness problem,
                # never a verdict about slimta
                R.inconclusive('harness-exception: ' + traceback.format_exc(limit=6)[-400:])
    finally:
        d = R.dump()
        d['stopped_early'] = stopped_early
        d['wall_s'] = time.time() - t0
        with open(out_path, 'w') as f:
            json.dump(d, f)
        fin = getattr(mod, 'shard_cleanup', None)
        if fin:
            fin()
