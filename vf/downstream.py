"""Scripted next-hop SMTP / LMTP server (trusted base): the independent observer of what the
downstream *positively accepted*.

It shares no code with slimta: its own line reader, its own command splitting, its own DATA
framing.  It speaks on one end of a gevent socketpair (or any connected gevent socket); the
other end is handed to a slimta relay through the documented `socket_creator` argument, so
no TCP ports are needed.

script: dict stage -> action, or callable(ctx, stage) -> action.
  stages : 'connect' 'banner' 'ehlo' 'helo' 'starttls' 'auth' 'mail' 'rcpt<i>' 'data'
           'eod<i>' (LMTP: i-th accepted recipient; SMTP: 'eod0') 'rset' 'quit' 'noop' 'other'
           'idle' (only with idle_stage=True): consulted once after every finished end-of-data and
           every RSET, before the server reads the next command -- the connection idles.  ('ok',) =
           keep waiting; ('reply', '421'[, text]) = push an unsolicited reply tagged '[c<n> idle]'
           and close (server-initiated timeout); ('close',) = drop the idle connection; delays and
           (for callable scripts) blocking on a harness gate are allowed.
  actions: ('ok',)                         the normal positive reply for that stage
           ('reply', '450'[, 'text'])      a well-formed reply with that code
           ('raw', b'...')                 arbitrary bytes (malformed replies)
           ('raw', b'...', 'close')        arbitrary bytes, then close the connection
           ('close',)                      close the connection instead of replying
           ('stall',)                      never reply (block until the peer goes away)
           ('delay', seconds, action)      sleep, then perform action
           ('refuse',)                     only for 'connect': socket_creator raises ECONNREFUSED
ctx (a dict) carries: conn (connection number), txn (transaction number on that connection),
marker (X-Verif-Msg of the message when known), rcpt (address for rcpt stages), mode.
Every reply the server sends for MAIL/RCPT/DATA/end-of-data embeds conn/txn and, once known,
the message marker, so results can be attributed to envelopes by their text.
"""
import re
import errno
import socket as _stdsocket

import gevent
from gevent import socket
from gevent.event import Event

MARK = b'x-verif-msg:'
_ADDR = re.compile(br'<([^>]*)>')


class Conn(object):
    """Log of one downstream connection."""

    def __init__(self, n):
        self.n = n
        self.commands = []        # (verb, raw line) in arrival order
        self.txns = []            # dicts: sender, rcpts_offered, rcpts_accepted, data_ok, content, marker, eod
        self.opened = True
        self.closed_by = None     # 'server' | 'peer'
        self.tls = False
        self.auth = None
        self.anomalies = []       # protocol-state anomalies seen by the independent automaton
        self.greeting = None      # 'EHLO' / 'HELO' / 'LHLO'
        self.quit = False
        self.idle_push = None     # code of an unsolicited reply pushed while the connection idled


class Downstream(object):

    lenient_data = False      # True (vf.c11_downstream): DATA is answered by the script (354) even when the MAIL
                              # was refused / no recipient was accepted

    def __init__(self, script=None, lmtp=False, pipelining=True, extensions=(b'8BITMIME',),
                 tls_context=None, auth=False, stall_event=None, idle_stage=False):
        self.script = script or {}
        self.idle_stage = idle_stage
        self.lmtp = lmtp
        self.pipelining = pipelining
        self.extensions = list(extensions)
        self.tls_context = tls_context
        self.auth = auth
        self.conns = []
        self.live = 0
        self.max_live = 0
        self.greenlets = []
        self.stalled = Event() if stall_event is None else stall_event   # set when a stall begins
        self.connects = 0

    # ------------------------------------------------------------------ plumbing
    def action(self, ctx, stage):
        s = self.script
        a = s(ctx, stage) if callable(s) else s.get(stage, ('ok',))
        return a or ('ok',)

    def creator(self, address=None):
        """Use as socket_creator=... of a slimta relay."""
        self.connects += 1
        ctx = {'conn': len(self.conns), 'txn': 0, 'marker': None, 'mode': 'lmtp' if self.lmtp else 'smtp'}
        a = self.action(ctx, 'connect')
        while a[0] == 'delay':
            gevent.sleep(a[1])
            a = a[2]
        if a[0] == 'refuse':
            raise _stdsocket.error(errno.ECONNREFUSED, 'Connection refused (scripted)')
        if a[0] == 'stall':
            self.stalled.set()
            Event().wait()        # blocks until the caller's Timeout fires
        ours, theirs = socket.socketpair()
        c = Conn(len(self.conns))
        self.conns.append(c)
        g = gevent.spawn(self.serve, theirs, c)
        self.greenlets.append(g)
        return ours

    def kill(self):
        for g in self.greenlets:
            g.kill()

    # ------------------------------------------------------------------ the server
    def _send(self, f, c, ctx, stage, ok):
        """Perform the scripted action for this stage. Returns the action actually
        performed (after delays); raises EOFError to close."""
        a = self.action(ctx, stage)
        while a[0] == 'delay':
            gevent.sleep(a[1])
            a = a[2]
        k = a[0]
        if k == 'close':
            raise EOFError()
        if k == 'stall':
            self.stalled.set()
            # wait until the peer gives up: reading returns b'' when it closes
            try:
                while f.read(1):
                    pass
            except (OSError, IOError):
                pass
            raise EOFError()
        if k == 'ok':
            data = ok
        elif k == 'reply':
            code = a[1]
            text = a[2] if len(a) > 2 else {'2': '2.0.0 fine', '3': 'go on', '4': '4.0.0 try later',
                                            '5': '5.0.0 no'}.get(code[0], 'hm')
            data = ('%s %s [%s]\r\n' % (code, text, self._tag(ctx))).encode()
        elif k == 'raw':
            data = a[1]
        else:
            raise ValueError('unknown action %r' % (a,))
        f.write(data)
        f.flush()
        if k == 'raw' and len(a) > 2 and a[2] == 'close':
            raise EOFError()
        return a

    @staticmethod
    def _tag(ctx):
        return 'c%d t%d %s' % (ctx['conn'], ctx['txn'], ctx.get('marker') or '-')

    @staticmethod
    def positive(a, klass='2'):
        return a[0] == 'ok' or (a[0] == 'reply' and a[1][:1] == klass)

    def _idle(self, f, c, ctx):
        """The connection idles between transactions: scripted server-initiated timeout."""
        ictx = dict(ctx, marker=None, idle=True)
        a = self.action(ictx, 'idle')
        while a[0] == 'delay':
            gevent.sleep(a[1])
            a = a[2]
        if a[0] == 'ok':
            return
        if a[0] == 'reply':
            text = a[2] if len(a) > 2 else '4.4.2 idle timeout, closing'
            f.write(('%s %s [c%d idle]\r\n' % (a[1], text, c.n)).encode())
            f.flush()
            c.idle_push = a[1]
        elif a[0] == 'raw':
            f.write(a[1])
            f.flush()
        elif a[0] != 'close':
            raise ValueError('unknown idle action %r' % (a,))
        raise EOFError()

    def serve(self, sock, c):
        self.live += 1
        self.max_live = max(self.max_live, self.live)
        f = sock.makefile('rwb')
        ctx = {'conn': c.n, 'txn': 0, 'marker': None, 'mode': 'lmtp' if self.lmtp else 'smtp'}
        txn = None
        greeted = False
        try:
            self._send(f, c, ctx, 'banner', b'220 downstream ready [c%d]\r\n' % c.n)
            idle_pending = False
            while True:
                if idle_pending and self.idle_stage:
                    idle_pending = False
                    self._idle(f, c, ctx)
                line = f.readline()
                if not line:
                    c.closed_by = 'peer'
                    return
                verb = line.split(b' ', 1)[0].strip().upper()
                c.commands.append((verb.decode('latin-1'), line))
                if verb in (b'EHLO', b'LHLO'):
                    if (verb == b'LHLO') != self.lmtp:
                        f.write(b'500 5.5.1 wrong greeting verb\r\n')
                        f.flush()
                        continue
                    if txn is not None and not txn.get('done'):
                        txn['aborted_by'] = verb.decode()
                    txn = None
                    exts = list(self.extensions)
                    if self.pipelining:
                        exts.append(b'PIPELINING')
                    if self.tls_context is not None and not c.tls:
                        exts.append(b'STARTTLS')
                    if self.auth:
                        exts.append(b'AUTH PLAIN LOGIN')
                    lines = [b'downstream greets you'] + exts
                    ok = b''.join(b'250-' + l + b'\r\n' for l in lines[:-1]) + b'250 ' + lines[-1] + b'\r\n'
                    a = self._send(f, c, ctx, 'ehlo', ok)
                    if self.positive(a):
                        greeted = True
                        c.greeting = verb.decode()
                elif verb == b'HELO':
                    a = self._send(f, c, ctx, 'helo', b'250 downstream\r\n')
                    if self.positive(a):
                        greeted = True
                        c.greeting = 'HELO'
                    txn = None
                elif verb == b'STARTTLS':
                    a = self._send(f, c, ctx, 'starttls', b'220 2.0.0 go ahead\r\n')
                    if self.positive(a) and self.tls_context is not None:
                        f.flush()
                        sock = self.tls_context.wrap_socket(sock, server_side=True)
                        f = sock.makefile('rwb')
                        c.tls = True
                        greeted = False
                elif verb == b'AUTH':
                    # accept PLAIN with initial response, or LOGIN by challenge
                    parts = line.split()
                    if len(parts) >= 2 and parts[1].upper() == b'LOGIN' and len(parts) == 2:
                        f.write(b'334 VXNlcm5hbWU6\r\n')
                        f.flush()
                        u = f.readline()
                        f.write(b'334 UGFzc3dvcmQ6\r\n')
                        f.flush()
                        p = f.readline()
                        c.auth = (b'LOGIN', u.strip(), p.strip())
                    else:
                        c.auth = tuple(parts[1:])
                    self._send(f, c, ctx, 'auth', b'235 2.7.0 authenticated\r\n')
                elif verb == b'MAIL':
                    if txn is not None and not txn.get('done') and not txn.get('reset'):
                        c.anomalies.append(('MAIL-while-transaction-open', len(c.txns) - 1))
                    ctx['txn'] = len(c.txns)
                    ctx['marker'] = None
                    m = _ADDR.search(line)
                    txn = {'sender': m.group(1).decode('latin-1') if m else None, 'rcpts_offered': [],
                           'rcpts_accepted': [], 'data_ok': False, 'content': None, 'marker': None,
                           'eod': {}, 'mail_ok': False, 'nrcpt': 0, 'raw_mail': line}
                    c.txns.append(txn)
                    a = self._send(f, c, ctx, 'mail', b'250 2.1.0 sender ok [%s]\r\n' % self._tag(ctx).encode())
                    txn['mail_ok'] = self.positive(a)
                    if not txn['mail_ok']:
                        txn['done'] = True
                elif verb == b'RCPT':
                    m = _ADDR.search(line)
                    addr = m.group(1).decode('latin-1') if m else None
                    if txn is None or txn.get('done') or not txn['mail_ok']:
                        f.write(b'503 5.5.1 RCPT without MAIL\r\n')
                        f.flush()
                        continue
                    ctx['rcpt'] = addr
                    i = txn['nrcpt']
                    txn['nrcpt'] += 1
                    txn['rcpts_offered'].append(addr)
                    a = self._send(f, c, ctx, 'rcpt%d' % i,
                                   b'250 2.1.5 recipient ok <%s> [%s]\r\n' % ((addr or '').encode('latin-1'),
                                                                             self._tag(ctx).encode()))
                    if self.positive(a):
                        txn['rcpts_accepted'].append(addr)
                elif verb == b'DATA':
                    lenient = self.lenient_data and txn is not None and not txn.get('reset')
                    if (txn is None or txn.get('done') or not txn['mail_ok']) and not lenient:
                        f.write(b'503 5.5.1 DATA without MAIL\r\n')
                        f.flush()
                        continue
                    a = self.action(ctx, 'data')
                    if not txn['rcpts_accepted'] and a[0] == 'ok' and not lenient:
                        f.write(b'503 5.5.1 no valid recipients\r\n')
                        f.flush()
                        txn['done'] = True
                        continue
                    a = self._send(f, c, ctx, 'data', b'354 go ahead\r\n')
                    if not self.positive(a, '3'):
                        txn['done'] = True
                        continue
                    txn['data_ok'] = True
                    body = []
                    while True:
                        l = f.readline()
                        if not l:
                            c.closed_by = 'peer'
                            return
                        if l in (b'.\r\n', b'.\n'):
                            break
                        if l.startswith(b'.'):
                            l = l[1:]
                        if l.lower().startswith(MARK):
                            txn['marker'] = ctx['marker'] = l.split(b':', 1)[1].strip().decode('latin-1')
                        body.append(l)
                    txn['content'] = b''.join(body)
                    if self.lmtp:
                        for i, r in enumerate(txn['rcpts_accepted']):
                            ctx['rcpt'] = r
                            a = self._send(f, c, ctx, 'eod%d' % i,
                                           b'250 2.0.0 delivered <%s> [%s]\r\n' % (r.encode('latin-1'),
                                                                                  self._tag(ctx).encode()))
                            txn['eod'][r] = self.positive(a)
                    else:
                        a = self._send(f, c, ctx, 'eod0', b'250 2.0.0 queued [%s]\r\n' % self._tag(ctx).encode())
                        for r in txn['rcpts_accepted']:
                            txn['eod'][r] = self.positive(a)
                    txn['done'] = True
                    idle_pending = True
                elif verb == b'RSET':
                    if txn is not None:
                        txn['reset'] = True
                        txn['done'] = True
                    self._send(f, c, ctx, 'rset', b'250 2.0.0 reset\r\n')
                    idle_pending = True
                elif verb == b'NOOP':
                    self._send(f, c, ctx, 'noop', b'250 2.0.0 ok\r\n')
                elif verb == b'QUIT':
                    c.quit = True
                    self._send(f, c, ctx, 'quit', b'221 2.0.0 bye\r\n')
                    c.closed_by = 'server'
                    return
                else:
                    self._send(f, c, ctx, 'other', b'500 5.5.2 what?\r\n')
        except EOFError:
            c.closed_by = 'server'
        except (OSError, IOError):
            c.closed_by = c.closed_by or 'peer'
        finally:
            self.live -= 1
            c.opened = False
            try:
                f.close()
            except Exception:
                pass
            try:
                sock.close()
            except Exception:
                pass

    # ------------------------------------------------------------------ what was accepted
    def accepted(self):
        """marker -> set of recipients the downstream positively accepted for a message whose
        end-of-data it also accepted (per recipient for LMTP). Messages without marker are
        keyed by (conn, txn)."""
        out = {}
        for c in self.conns:
            for n, t in enumerate(c.txns):
                key = t['marker'] or (c.n, n)
                s = out.setdefault(key, set())
                for r in t['rcpts_accepted']:
                    if t['eod'].get(r):
                        s.add(r)
        return out
