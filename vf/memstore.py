"""Object-store / message-queue doubles for CloudStorage (trusted base).

MemObjectStore mirrors the conventions of slimta.cloudstorage.aws.SimpleStorageService
(which cannot be imported here: boto 2.49 does not import on Python 3.12): envelope
pickled with HIGHEST_PROTOCOL, metadata values JSON-encoded, 'attempts' and
'delivered_indexes' *absent* from the meta dict until first set, KeyError for an unknown
id.  Every call yields once, like a network round trip.  lenient=True presents all keys
always (attempts=0, delivered_indexes=[]) so one adapter-contract defect cannot mask
everything behind it.
"""
import uuid
import json
import pickle

import gevent
from gevent.event import Event


class MemObjectStore(object):

    def __init__(self, yield_=True, lenient=False):
        self.objs = {}
        self.y = yield_
        self.lenient = lenient
        self.calls = 0

    def _y(self):
        self.calls += 1
        if self.y:
            gevent.sleep(0)

    def _get(self, id):
        try:
            return self.objs[id]
        except KeyError:
            raise KeyError(id)

    def write_message(self, envelope, timestamp):
        raw = pickle.dumps(envelope, pickle.HIGHEST_PROTOCOL)
        self._y()
        i = str(uuid.uuid4())
        self.objs[i] = {'env': raw, 'meta': {'timestamp': json.dumps(timestamp), 'attempts': '',
                                             'delivered_indexes': ''}}
        return i

    def set_message_meta(self, id, timestamp=None, attempts=None, delivered_indexes=None):
        self._y()
        o = self._get(id)
        if timestamp is not None:
            o['meta']['timestamp'] = json.dumps(timestamp)
        if attempts is not None:
            o['meta']['attempts'] = json.dumps(attempts)
        if delivered_indexes is not None:
            o['meta']['delivered_indexes'] = json.dumps(delivered_indexes)

    def _meta(self, o):
        m = {'timestamp': json.loads(o['meta']['timestamp'])}
        if o['meta']['attempts']:
            m['attempts'] = json.loads(o['meta']['attempts'])
        elif self.lenient:
            m['attempts'] = 0
        if o['meta']['delivered_indexes']:
            m['delivered_indexes'] = json.loads(o['meta']['delivered_indexes'])
        elif self.lenient:
            m['delivered_indexes'] = []
        return m

    def delete_message(self, id):
        self._y()
        self._get(id)
        del self.objs[id]

    def get_message(self, id):
        self._y()
        o = self._get(id)
        return pickle.loads(o['env']), self._meta(o)

    def get_message_meta(self, id):
        self._y()
        return self._meta(self._get(id))

    def list_messages(self):
        self._y()
        for i in list(self.objs):
            self._y()      # aws.py fetches the metadata of every key with its own request
            if i in self.objs:
                yield (self._meta(self.objs[i])['timestamp'], i)


class MemMsgQueue(object):
    """SQS-like double: queue_message / poll / delete / sleep as CloudStorage calls them.
    sleep() blocks until something is queued (instead of a wall-clock poll pause) so that
    quiescence is logical."""

    def __init__(self, fail_queue=False):
        self.msgs = []
        self.ev = Event()
        self.n = 0
        self.fail_queue = fail_queue

    def queue_message(self, storage_id, timestamp):
        gevent.sleep(0)
        if self.fail_queue:
            raise RuntimeError('queue_message failed (injected)')
        self.n += 1
        self.msgs.append((timestamp, storage_id, self.n))
        self.ev.set()

    def poll(self):
        gevent.sleep(0)
        return list(self.msgs)

    def delete(self, message_id):
        self.msgs = [m for m in self.msgs if m[2] != message_id]

    def sleep(self):
        if not self.msgs:
            self.ev.clear()
            self.ev.wait()
