"""In-process RESP3 mini redis server (trusted base for the redis backend): implements the
commands RedisStorage issues through the real, unmodified redis-py client."""
import gevent
from gevent.server import StreamServer
from gevent.event import Event
class MiniRedis:
    def __init__(self):
        self.db={}; self.list_ev=Event(); self.log=[]
        self.delay=None   # optional callable(command_args) -> seconds slept before the reply is sent (models network latency)
        self.srv=StreamServer(('127.0.0.1',0),self.handle); self.srv.start(); self.port=self.srv.server_port
    def read_cmd(self,f):
        line=f.readline()
        if not line: return None
        n=int(line[1:]); args=[]
        for _ in range(n):
            l=f.readline(); ln=int(l[1:]); d=f.read(ln+2)[:-2]; args.append(d)
        return args
    def enc(self,v):
        if v is None: return b'_\r\n'
        if isinstance(v,bool): return b':%d\r\n'%int(v)
        if isinstance(v,int): return b':%d\r\n'%v
        if isinstance(v,bytes): return b'$%d\r\n%s\r\n'%(len(v),v)
        if isinstance(v,str): return b'+%s\r\n'%v.encode()
        if isinstance(v,Exception): return b'-%s\r\n'%str(v).encode()
        if isinstance(v,dict): return b'%%%d\r\n'%len(v)+b''.join(self.enc(k)+self.enc(x) for k,x in v.items())
        if isinstance(v,(list,tuple)): return b'*%d\r\n'%len(v)+b''.join(self.enc(x) for x in v)
        raise TypeError(v)
    def execute(self,c):
        n=c[0].upper(); db=self.db
        def typ(k,t):
            if k in db and not isinstance(db[k],t): raise Exception('WRONGTYPE Operation against a key holding the wrong kind of value')
        if n==b'HELLO': return {b'server':b'redis',b'version':b'7.0.0',b'proto':3,b'id':1,b'mode':b'standalone',b'role':b'master',b'modules':[]}
        if n==b'CLIENT': return 'OK'
        if n==b'SELECT': return 'OK'
        if n==b'HSETNX':
            typ(c[1],dict); h=db.setdefault(c[1],{})
            if c[2] in h: return 0
            h[c[2]]=c[3]; return 1
        if n in(b'HSET',b'HMSET'):
            typ(c[1],dict); h=db.setdefault(c[1],{}); k=0
            for a,b in zip(c[2::2],c[3::2]): k+= a not in h; h[a]=b
            return 'OK' if n==b'HMSET' else k
        if n==b'HGET': typ(c[1],dict); return db.get(c[1],{}).get(c[2])
        if n==b'HMGET': typ(c[1],dict); return [db.get(c[1],{}).get(x) for x in c[2:]]
        if n==b'HINCRBY':
            typ(c[1],dict); h=db.setdefault(c[1],{}); v=int(h.get(c[2],b'0'))+int(c[3]); h[c[2]]=b'%d'%v; return v
        if n==b'KEYS':
            import fnmatch; return [k for k in db if fnmatch.fnmatchcase(k.decode('latin1'),c[1].decode('latin1'))]
        if n==b'DEL':
            k=0
            for x in c[1:]: k+= db.pop(x,None) is not None
            return k
        if n==b'LLEN': typ(c[1],list); return len(db.get(c[1],[]))
        if n==b'RPUSH':
            typ(c[1],list); l=db.setdefault(c[1],[]); l.extend(c[2:]); self.list_ev.set(); return len(l)
        raise Exception("ERR unknown command '%s'"%n.decode())
    def handle(self,sock,addr):
        f=sock.makefile('rwb'); multi=None
        while True:
            c=self.read_cmd(f)
            if c is None: break
            self.log.append(c[0])
            n=c[0].upper()
            if n==b'MULTI': multi=[]; out='OK'
            elif n==b'EXEC':
                out=[]
                for q in multi:
                    try: out.append(self.execute(q))
                    except Exception as e: out.append(e)
                multi=None
            elif multi is not None: multi.append(c); out='QUEUED'
            elif n==b'BLPOP':
                keys=c[1:-1]
                while True:
                    hit=None
                    for k in keys:
                        if self.db.get(k):
                            v=self.db[k].pop(0)
                            if not self.db[k]: del self.db[k]
                            hit=[k,v]; break
                    if hit: break
                    self.list_ev.clear(); self.list_ev.wait()
                out=hit
            else:
                try: out=self.execute(c)
                except Exception as e: out=e
            if self.delay is not None:
                d=self.delay(c)
                if d: gevent.sleep(d)
            f.write(self.enc(out)); f.flush()
